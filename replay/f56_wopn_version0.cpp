// F56: a WOPN image with the version-2 magic and version field 0 / 1 was accepted with the version-1 layout;
// saving the loaded value with its own version (0 = latest) and loading that again did not give the same value.
//   g++ -I/repo/src f56_wopn_version0.cpp <build>/libOPNMIDI.a -o f56 && ./f56
#include <cstdio>
#include <cstring>
#include <vector>
extern "C" {
#include "wopn/wopn_file.h"
}
int main()
{
    WOPNFile *f = WOPN_Init(1, 1);
    f->banks_melodic[0].ins[5].fbalg = 0x33;           // a sounding instrument with zero delays
    f->banks_melodic[0].ins[5].operators[0].level_40 = 10;
    size_t sz = WOPN_CalculateBankFileSize(f, 1);
    std::vector<unsigned char> v1(sz);
    if(WOPN_SaveBankToMem(f, v1.data(), sz, 1, 0) != 0) { std::printf("save v1 failed\n"); return 2; }
    // same body behind the version-2 magic with a version field of 0
    std::vector<unsigned char> img;
    const char magic2[11] = {'W','O','P','N','2','-','B','2','N','K',0};
    img.insert(img.end(), magic2, magic2 + 11);
    img.push_back(0); img.push_back(0);
    img.insert(img.end(), v1.begin() + 11, v1.end());
    int err = 0;
    WOPNFile *a = WOPN_LoadBankFromMem(img.data(), img.size(), &err);
    if(!a) { std::printf("PASS: version 0 behind the version-2 magic is rejected (error %d)\n", err); return 0; }
    std::printf("accepted as version %u\n", a->version);
    size_t sz2 = WOPN_CalculateBankFileSize(a, a->version);
    std::vector<unsigned char> out(sz2);
    if(WOPN_SaveBankToMem(a, out.data(), sz2, a->version, 0) != 0) { std::printf("save failed\n"); return 1; }
    WOPNFile *b = WOPN_LoadBankFromMem(out.data(), out.size(), &err);
    if(!b) { std::printf("FAIL: reload failed (%d)\n", err); return 1; }
    int same = WOPN_BanksCmp(a, b);
    std::printf("%s: save-then-load of the accepted value %s (version %u -> %u, instrument 5 flags %u -> %u)\n", same ? "PASS" : "FAIL",
                same ? "is the identity" : "differs", a->version, b->version, a->banks_melodic[0].ins[5].inst_flags, b->banks_melodic[0].ins[5].inst_flags);
    return same ? 0 : 1;
}
