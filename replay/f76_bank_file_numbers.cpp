// Scratch: probes of the ORIGINAL code for behaviour that already violates C16.
#define OPNMIDI_UNSTABLE_API
#include <opnmidi.h>
#include <cstdio>
#include <cstring>
#include <vector>

struct BankSpec { unsigned char msb, lsb; unsigned char mark; };

static std::vector<unsigned char> make_wopn(const std::vector<BankSpec> &mel, const std::vector<BankSpec> &perc)
{
    std::vector<unsigned char> f;
    const char magic[11] = {'W','O','P','N','2','-','B','2','N','K',0};
    f.insert(f.end(), magic, magic + 11);
    f.push_back(2); f.push_back(0);                    // version 2, LE
    f.push_back((unsigned char)(mel.size() >> 8)); f.push_back((unsigned char)mel.size());
    f.push_back((unsigned char)(perc.size() >> 8)); f.push_back((unsigned char)perc.size());
    f.push_back(0);                                    // LFO / chip
    const std::vector<BankSpec> *sets[2] = {&mel, &perc};
    for(int s = 0; s < 2; ++s)
        for(size_t i = 0; i < sets[s]->size(); ++i)
        {
            unsigned char meta[34];
            memset(meta, 0, sizeof(meta));
            meta[32] = (*sets[s])[i].lsb;
            meta[33] = (*sets[s])[i].msb;
            f.insert(f.end(), meta, meta + 34);
        }
    for(int s = 0; s < 2; ++s)
        for(size_t i = 0; i < sets[s]->size(); ++i)
            for(int k = 0; k < 128; ++k)
            {
                unsigned char ins[69];
                memset(ins, 0, sizeof(ins));
                ins[35] = (*sets[s])[i].mark;          // fbalg
                ins[66] = 1;                           // delay_on_ms = 1: not blank
                f.insert(f.end(), ins, ins + 69);
            }
    return f;
}

static void dump(OPN2_MIDIPlayer *p, const char *title)
{
    printf("-- %s\n", title);
    OPN2_Bank b;
    int n = 0;
    for(int r = opn2_getFirstBank(p, &b); r == 0; r = opn2_getNextBank(p, &b))
    {
        OPN2_BankId id;
        OPN2_Instrument ins;
        opn2_getBankId(p, &b, &id);
        opn2_getInstrument(p, &b, 0, &ins);
        OPN2_Bank b2;
        int found = opn2_getBank(p, &id, 0, &b2);
        printf("   bank #%d id=(perc %u, msb %u, lsb %u) fbalg=%u flags=%u  lookup-by-that-id=%s same-handle=%d\n",
               n, id.percussive, id.msb, id.lsb, ins.fbalg, ins.inst_flags,
               found == 0 ? "found" : "NOT FOUND", found == 0 && b2.pointer[1] == b.pointer[1]);
        ++n;
    }
    printf("   %d banks iterated\n", n);
}

int main()
{
    OPN2_MIDIPlayer *p = opn2_init(44100);

    {   // melodic MSB 0x80 aliases percussive 0:0
        std::vector<BankSpec> mel, perc;
        BankSpec a = {0x80, 0, 11}; mel.push_back(a);
        BankSpec c = {0, 0, 22}; perc.push_back(c);
        std::vector<unsigned char> f = make_wopn(mel, perc);
        printf("load rc=%d\n", opn2_openBankData(p, &f[0], (long)f.size()));
        dump(p, "melodic msb=0x80,lsb=0 (mark 11) + percussive 0:0 (mark 22)");
    }
    {   // LSB 0x80
        std::vector<BankSpec> mel, perc;
        BankSpec a = {0, 0, 11}; mel.push_back(a);
        BankSpec a2 = {0, 0x80, 33}; mel.push_back(a2);
        BankSpec c = {0, 0, 22}; perc.push_back(c);
        std::vector<unsigned char> f = make_wopn(mel, perc);
        printf("load rc=%d\n", opn2_openBankData(p, &f[0], (long)f.size()));
        dump(p, "melodic 0:0 (11), melodic msb=0,lsb=0x80 (33), percussive 0:0 (22)");
    }
    {   // zero percussive banks announced
        std::vector<BankSpec> mel, perc;
        BankSpec a = {0, 0, 11}; mel.push_back(a);
        std::vector<unsigned char> f = make_wopn(mel, perc);
        printf("load rc=%d\n", opn2_openBankData(p, &f[0], (long)f.size()));
        dump(p, "melodic 0:0 (11) and NO percussive bank in the file");
    }
    opn2_close(p);
    return 0;
}
