// exploration harness
#include <vector>
#include <string>
#include <map>
#include <list>
#include <set>
#include <memory>
#include <sstream>
#include <opnmidi.h>
#define private public
#define protected public
#include "opnmidi_midiplay.hpp"
#include "opnmidi_opn2.hpp"
#undef private
#undef protected
#include <vector>
#include <string>
#include <cstdio>
#include <cstring>
#include <cmath>
typedef std::vector<unsigned char> Bytes;
static void vlq(Bytes &b, unsigned v){ unsigned char tmp[5]; int n=0; tmp[n++]=v&0x7F; while(v>>=7) tmp[n++]=0x80|(v&0x7F); while(n--) b.push_back(tmp[n]); }
struct Trk { Bytes d; unsigned last; Trk():last(0){}
  void at(unsigned tick){ vlq(d, tick-last); last=tick; }
  void ev(unsigned tick, unsigned char a, unsigned char b, unsigned char c){ at(tick); d.push_back(a); d.push_back(b); d.push_back(c);}
  void ev2(unsigned tick, unsigned char a, unsigned char b){ at(tick); d.push_back(a); d.push_back(b);}
  void meta(unsigned tick, unsigned char t, const Bytes &p){ at(tick); d.push_back(0xFF); d.push_back(t); vlq(d,p.size()); d.insert(d.end(),p.begin(),p.end()); }
  void metas(unsigned tick, unsigned char t, const char *s){ meta(tick,t,Bytes(s,s+strlen(s))); }
  void tempo(unsigned tick, unsigned us){ Bytes p; p.push_back(us>>16); p.push_back(us>>8); p.push_back(us); meta(tick,0x51,p);}
  void sysex(unsigned tick, const Bytes &p){ at(tick); d.push_back(0xF0); vlq(d,p.size()); d.insert(d.end(),p.begin(),p.end()); }
  void end(unsigned tick){ meta(tick,0x2F,Bytes()); }
};
static Bytes smf(const std::vector<Trk> &t, unsigned div=480, unsigned fmt=1){
  Bytes o; const char *h="MThd"; o.insert(o.end(),h,h+4); unsigned char hd[]={0,0,0,6,0,(unsigned char)fmt,(unsigned char)(t.size()>>8),(unsigned char)t.size(),(unsigned char)(div>>8),(unsigned char)div}; o.insert(o.end(),hd,hd+10);
  for(size_t i=0;i<t.size();i++){ const char *k="MTrk"; o.insert(o.end(),k,k+4); unsigned n=t[i].d.size(); o.push_back(n>>24);o.push_back(n>>16);o.push_back(n>>8);o.push_back(n); o.insert(o.end(),t[i].d.begin(),t[i].d.end()); }
  return o; }
static OPNMIDIplay *P(OPN2_MIDIPlayer *d){ return reinterpret_cast<OPNMIDIplay*>(d->opn2_midiPlayer); }
static std::string dump(OPN2_MIDIPlayer *d){
  OPNMIDIplay *p=P(d); std::string s; char b[256];
  for(size_t c=0;c<p->m_midiChannels.size();c++){ OPNMIDIplay::MIDIchannel &m=p->m_midiChannels[c];
    snprintf(b,256,"ch%zu p%d b%d/%d v%d e%d pan%d bend%d bs%d/%d sus%d soft%d rpn%d/%d/%d xg%d notes%zu\n",c,m.patch,m.bank_msb,m.bank_lsb,m.volume,m.expression,m.panning,m.bend,m.bendsense_msb,m.bendsense_lsb,m.sustain,m.softPedal,m.lastmrpn,m.lastlrpn,m.nrpn,m.is_xg_percussion,m.activenotes.size()); s+=b; }
  size_t users=0; for(size_t c=0;c<p->m_chipChannels.size();c++) users+=p->m_chipChannels[c].users.size();
  snprintf(b,256,"users%zu pos%.6f\n",users,opn2_positionTell(d)); s+=b; return s; }
struct Ev{ double t; unsigned char type,sub,ch; Bytes data; };
static std::vector<Ev> *g_log; static OPN2_MIDIPlayer *g_dev;
static void rawhook(void*,OPN2_UInt8 type,OPN2_UInt8 sub,OPN2_UInt8 ch,const OPN2_UInt8*data,size_t len){ if(!g_log) return; Ev e; e.t=opn2_positionTell(g_dev); e.type=type;e.sub=sub;e.ch=ch; e.data.assign(data,data+len); g_log->push_back(e);}
static OPN2_MIDIPlayer *mk(const Bytes &f){ OPN2_MIDIPlayer *d=opn2_init(44100); if(!d){puts("init fail");return 0;} if(opn2_openBankFile(d,"/repo/fm_banks/xg.wopn")<0){fprintf(stderr,"bank fail\n");return 0;}
  if(opn2_openData(d,f.data(),f.size())<0){ fprintf(stderr,"open fail: %s\n",opn2_errorInfo(d)); return 0;} opn2_setRawEventHook(d,rawhook,0); return d; }
static void run(OPN2_MIDIPlayer *d,double dur,double step=0.001){ g_dev=d; int n=(int)floor(dur/step+0.5); for(int i=0;i<n;i++) opn2_tickEvents(d,step,step/10); }
