// F86 (C15): a version-1 bank image with a zero bank count is accepted, but the value the loader returns is not a fixed point of
// save-then-load: WOPN_Init() marks the place-holder bank blank, version 1 has no carrier for that marker.
//   cc -x c -c /repo/src/wopn/wopn_file.c -o wopn_file.o && c++ -I/repo/src/wopn f86_wopn_v1_zero_banks.cpp wopn_file.o -o f86 && ./f86
// exit 0: identity holds; exit 1: the reloaded value differs
#include <cstdio>
#include <cstring>
#include <vector>
extern "C" {
#include "wopn_file.h"
}

static int probe(unsigned mel, unsigned perc)
{
    std::vector<unsigned char> img;
    const char magic[] = "WOPN2-BANK";            // version-1 magic, 11 bytes with the terminator
    img.insert(img.end(), magic, magic + 11);
    img.push_back(mel >> 8); img.push_back(mel & 255);
    img.push_back(perc >> 8); img.push_back(perc & 255);
    img.push_back(5);                              // LFO byte
    img.resize(img.size() + (mel + perc) * 128 * 65, 0x11);
    int err = 0;
    WOPNFile *a = WOPN_LoadBankFromMem(img.data(), img.size(), &err);
    if(!a) { std::printf("v1 m%u/p%u: refused (%d)\n", mel, perc, err); return 0; }
    size_t sz = WOPN_CalculateBankFileSize(a, a->version);
    std::vector<unsigned char> out(sz);
    int rc = WOPN_SaveBankToMem(a, out.data(), out.size(), a->version, 0);
    WOPNFile *b = WOPN_LoadBankFromMem(out.data(), out.size(), &err);
    int same = b ? WOPN_BanksCmp(a, b) : -1;
    std::printf("v1 m%u/p%u: version=%u save=%d reload=%s same=%d  flags[mel0]=%u->%u flags[perc0]=%u->%u\n", mel, perc, a->version, rc, b ? "ok" : "refused", same,
                a->banks_melodic[0].ins[0].inst_flags, b ? b->banks_melodic[0].ins[0].inst_flags : 0,
                a->banks_percussive[0].ins[0].inst_flags, b ? b->banks_percussive[0].ins[0].inst_flags : 0);
    int bad = (rc != 0 || same != 1);
    WOPN_Free(a); if(b) WOPN_Free(b);
    return bad;
}

int main()
{
    int bad = 0;
    bad |= probe(0, 0);
    bad |= probe(0, 1);
    bad |= probe(1, 0);
    bad |= probe(1, 1);
    std::puts(bad ? "VIOLATED: a value produced by the loader is not a fixed point of save + load" : "holds");
    return bad;
}
