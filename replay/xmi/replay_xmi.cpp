#include <opnmidi.h>
#include <stdio.h>
#include <stdlib.h>
#include <string.h>
#include <vector>
static int notes=0;
static void hook(void*,int,int,int,int p,double){ if(p>0) notes++; }
int main(int argc,char**argv){ OPN2_MIDIPlayer*d=opn2_init(44100); opn2_openBankFile(d,"/repo/fm_banks/gm.wopn"); opn2_setNoteHook(d,hook,0);
 FILE*fp=fopen(argv[1],"rb"); std::vector<unsigned char> f(1<<20); size_t n=fread(f.data(),1,f.size(),fp); fclose(fp);
 unsigned char*p=(unsigned char*)malloc(n?n:1); memcpy(p,f.data(),n);
 int r=opn2_openData(d,p,n); free(p);
 for(int i=0;i<200;i++) opn2_tickEvents(d,0.01,0.001);
 printf("%s open=%d songs=%d notes=%d atEnd=%d\n",argv[1],r,opn2_getSongsCount(d),notes,opn2_atEnd(d)); opn2_close(d); return 0; }
