import struct, sys
def be(n): return struct.pack('>I', n)
ev = bytes([0x90,60,100,0x20, 0x40, 0xFF,0x2F,0x00])
def build(ev, evlen=None, formlen=None, extra=b''):
    evnt = b'EVNT' + be(len(ev) if evlen is None else evlen) + ev
    inner = b'XMID' + extra + evnt
    form2 = b'FORM' + be(len(inner) if formlen is None else formlen) + inner
    cat = b'CAT ' + be(4 + len(form2)) + b'XMID' + form2
    xdir = b'FORM' + be(14) + b'XDIR' + b'INFO' + be(2) + struct.pack('<H', 1)
    return xdir + cat
open('ok.xmi','wb').write(build(ev))
open('trunc_evnt.xmi','wb').write(build(ev[:3], evlen=2000))
open('noend.xmi','wb').write(build(bytes([0x90,60,100,0x20]*4)))
open('bigskip.xmi','wb').write(build(ev, extra=b'XXXX'+be(0xFFFFFFF8)))
open('rbrnwrap.xmi','wb').write(build(ev, extra=b'RBRN'+be(0xFFFFFFF8)+b'\x00\x00'))
open('sysex_long.xmi','wb').write(build(bytes([0xF0,0x8F,0xFF,0xFF,0x7F,1,2,3])))
open('meta_trunc.xmi','wb').write(build(bytes([0xFF])))
full = build(ev)
for n in range(0, len(full)):
    open('cut_%03d.xmi' % n, 'wb').write(full[:n])
