// F83: run several times with MALLOC_PERTURB_=<n>: before the fix the printed hash of the GENS audio differed from run to run. Usage: prog <bank.wopn>
#include <stdio.h>
#include <string.h>
#include "opnmidi.h"
int main(int argc,char**argv){
  unsigned long h=1469598103934665603UL;
  for(int rate=8000; rate<=48000; rate+=40000){
    OPN2_MIDIPlayer*d=opn2_init(rate); opn2_switchEmulator(d,OPNMIDI_EMU_GENS); opn2_openBankFile(d,argv[1]);
    {short b0[2048]; opn2_generate(d,2048,b0);} opn2_rt_patchChange(d,0,5); opn2_rt_noteOn(d,0,60,100); opn2_rt_noteOn(d,0,64,100);
    short buf[2048];
    for(int k=0;k<20;k++){ opn2_generate(d,2048,buf); for(int i=0;i<2048;i++){h^=(unsigned short)buf[i]; h*=1099511628211UL;} }
    opn2_close(d);
  }
  printf("%016lx\n",h); return 0; }
