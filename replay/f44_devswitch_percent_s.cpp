#include <opnmidi.h>
#include <cstdio>
#include <cstdarg>
#include <vector>
#include <cstdint>
static void dbg(void*,const char*fmt,...){char b[512];va_list a;va_start(a,fmt);vsnprintf(b,sizeof b,fmt,a);va_end(a);printf("DBG: %s\n",b);}
int main(){
  OPN2_MIDIPlayer*p=opn2_init(44100);
  opn2_openBankFile(p,"/repo/fm_banks/gm.wopn");
  opn2_setDebugMessageHook(p,dbg,0);
  std::vector<uint8_t> t;
  uint8_t a[]={0,0xFF,0x09,16,'A','A','A','A','A','A','A','A','A','A','A','A','A','A','A','A', 0,0x90,60,100, 48,0x80,60,0, 0,0xFF,0x2F,0};
  t.assign(a,a+sizeof(a));
  std::vector<uint8_t> f; const uint8_t h[]={'M','T','h','d',0,0,0,6,0,0,0,1,0,96,'M','T','r','k',0,0,0,(uint8_t)t.size()};
  f.insert(f.end(),h,h+sizeof(h)); f.insert(f.end(),t.begin(),t.end());
  int r=opn2_openData(p,f.data(),f.size());
  printf("open=%d\n",r);
  short buf[4096]; opn2_play(p,4096,buf);
  opn2_close(p);
}
