// F84: run under valgrind: before the fix "Conditional jump depends on uninitialised value" in calculateChipChannelGoodness. Usage: prog <fm_banks dir>
#define main dt_main
#include "f82_c04_invariant_checker.inc.cpp"
#undef main
int main(int, char **argv)
{
    for(unsigned bankNo = 0; bankNo < 5; ++bankNo)
    {
        Rng rng(1);
        OPN2_MIDIPlayer *dev = makeDevice(rng, argv[1], bankNo * 6, 1); // caseNo%5 selects bank; %4!=1 keeps single voice
        std::vector<uint8_t> ok = soundingPatches(dev);
        int blank = -1;
        for(int i = 0; i < 128; ++i) if(std::find(ok.begin(), ok.end(), (uint8_t)i) == ok.end()) { blank = i; break; }
        fprintf(stderr, "bank %s: first blank melodic patch %d\n", kBanks[(bankNo * 6) % 5], blank);
        if(blank >= 0)
        {
            opn2_rt_patchChange(dev, 0, ok[0]);
            opn2_rt_controllerChange(dev, 0, 64, 127);   // pedal down
            opn2_rt_noteOn(dev, 0, 60, 100);
            opn2_rt_noteOff(dev, 0, 60);                 // user stays, pedal-held
            opn2_rt_patchChange(dev, 0, (uint8_t)blank);
            opn2_rt_noteOn(dev, 0, 60, 100);             // place-holder for the blank instrument, same key
            opn2_rt_patchChange(dev, 0, ok[0]);
            fprintf(stderr, "  now a further note-on:\n");
            opn2_rt_noteOn(dev, 0, 62, 100);             // goodness of the held channel reads placeholder.isPercussion
        }
        opn2_close(dev);
    }
    return 0;
}
