// F71: an SMF with thousands of FF 09 device-switch events, each with a new name, grew the MIDI channel table by 16 records
// (about 450 KB) per event: a 65 KB file took several GB
#include <opnmidi.h>
#include <cstdio>
#include <vector>
#include <string>
#include <sys/resource.h>
int main()
{
    std::vector<unsigned char> t;
    for(int i = 0; i < 3000; ++i)
    {
        char nm[8]; int l = std::snprintf(nm, sizeof(nm), "%d", i);
        t.push_back(0); t.push_back(0xFF); t.push_back(0x09); t.push_back((unsigned char)l);
        t.insert(t.end(), nm, nm + l);
    }
    const unsigned char tail[] = {0x00,0x90,60,100, 0x60,0x80,60,0, 0x00,0xFF,0x2F,0x00};
    t.insert(t.end(), tail, tail + sizeof(tail));
    std::vector<unsigned char> f = {'M','T','h','d',0,0,0,6,0,0,0,1,0,96,'M','T','r','k',
        (unsigned char)(t.size() >> 24), (unsigned char)(t.size() >> 16), (unsigned char)(t.size() >> 8), (unsigned char)t.size()};
    f.insert(f.end(), t.begin(), t.end());
    OPN2_MIDIPlayer *d = opn2_init(44100);
    opn2_openBankFile(d, "/repo/fm_banks/gm.wopn");
    if(opn2_openData(d, f.data(), f.size()) < 0) { std::printf("midi? %s\n", opn2_errorInfo(d)); return 2; }
    short buf[2048]; for(int i = 0; i < 20; ++i) opn2_play(d, 2048, buf);
    struct rusage ru; getrusage(RUSAGE_SELF, &ru);
    std::printf("file %zu bytes, peak RSS %ld MB\n", f.size(), ru.ru_maxrss / 1024);
    bool ok = ru.ru_maxrss / 1024 < 200;
    std::printf(ok ? "PASS\n" : "FAIL: memory is not proportional to the input\n");
    opn2_close(d);
    return ok ? 0 : 1;
}
