// F38 replay: switching logarithmic volumes off again does not restore the bank's volume model while the setup is AUTO
#include <opnmidi.h>
#include <stdio.h>
int main(){ OPN2_MIDIPlayer*d=opn2_init(44100); opn2_openBankFile(d,"/repo/fm_banks/xg.wopn");
  int a=opn2_getVolumeRangeModel(d);
  opn2_setLogarithmicVolumes(d,1); int b=opn2_getVolumeRangeModel(d);
  opn2_setLogarithmicVolumes(d,0); int c=opn2_getVolumeRangeModel(d);
  opn2_reset(d); int e=opn2_getVolumeRangeModel(d);
  printf("bank default %d, log on %d, log off %d, after reset %d\n",a,b,c,e); opn2_close(d);
  if(c==a){ printf("PASS\n"); return 0;} printf("FAIL: the model stays %d until the next reset\n",c); return 1; }
