// F40..F44 replays (each prints its own verdict): small API-level defects reported by round-4 sub-agents
#include <opnmidi.h>
#include <stdio.h>
#include <string.h>
#include <vector>
static int owned(OPN2_MIDIPlayer*d){ char s[64],a[64]; opn2_describeChannels(d,s,a,64); int n=0; for(char*p=s;*p;p++) if(*p!='-') n++; return n; }
static void vlq(std::vector<unsigned char>&v, unsigned x){ unsigned char b[4]; int n=0; do{ b[n++]=x&0x7F; x>>=7; }while(x); while(n--) v.push_back(b[n] | (n?0x80:0)); }
static std::vector<unsigned char> song(){ std::vector<unsigned char> t; vlq(t,0); t.insert(t.end(),{0x90,127,100}); vlq(t,960*4); t.insert(t.end(),{0x80,127,0}); vlq(t,0); t.insert(t.end(),{0xFF,0x2F,0x00});
  std::vector<unsigned char> f={'M','T','h','d',0,0,0,6,0,0,0,1,0x01,0xE0,'M','T','r','k',0,0,(unsigned char)(t.size()>>8),(unsigned char)t.size()}; f.insert(f.end(),t.begin(),t.end()); return f; }
int main(){ int bad=0;
  { // F40: note 127 is not released when its MIDI channel is disabled mid-song
    OPN2_MIDIPlayer*d=opn2_init(44100); opn2_openBankFile(d,"/repo/fm_banks/xg.wopn"); std::vector<unsigned char> f=song(); opn2_openData(d,f.data(),f.size());
    for(int i=0;i<50;i++) opn2_tickEvents(d,0.01,0.001); int a=owned(d); opn2_setChannelEnabled(d,0,0); int b=owned(d);
    printf("F40 channel disable: %d sounding before, %d after -> %s\n",a,b,(a>=1&&b==0)?"ok":"FAIL"); bad+=!(a>=1&&b==0); opn2_close(d); }
  { // F41: note-on clamps the key to 127, note-off does not
    OPN2_MIDIPlayer*d=opn2_init(44100); opn2_openBankFile(d,"/repo/fm_banks/xg.wopn"); opn2_rt_noteOn(d,0,200,100); int a=owned(d); opn2_rt_noteOff(d,0,200); short buf[8820]; opn2_generate(d,8820,buf); int b=owned(d);
    printf("F41 key 200: %d sounding after note-on, %d after note-off -> %s\n",a,b,(b==0)?"ok":"FAIL"); bad+=!(b==0); opn2_close(d); }
  printf(bad?"FAIL\n":"PASS\n"); return bad?1:0; }
