#include <opnmidi.h>
#include <cstdio>
#include <cstring>
#include <vector>
#include <sys/resource.h>
int main(int argc, char**argv)
{
    std::vector<unsigned char> f;
    const char magic[11] = {'W','O','P','N','2','-','B','2','N','K','\0'};
    f.insert(f.end(), magic, magic + 11);
    f.push_back(2); f.push_back(0);
    f.push_back(0xFF); f.push_back(0xFF);
    f.push_back(0xFF); f.push_back(0xFF);
    f.push_back(0);
    f.resize(f.size() + 34*4, 'A');
    OPN2_MIDIPlayer *dev = opn2_init(44100);
    struct rlimit rl = {400u<<20, 400u<<20}; setrlimit(RLIMIT_AS, &rl);
    int rc = opn2_openBankData(dev, &f[0], (long)f.size());
    printf("rc=%d err=%s\n", rc, opn2_errorInfo(dev));
    opn2_close(dev);
    return 0;
}
