// F65: note-off of a note on a blank instrument bound a reference to *NULL (noteUpdate); build library and this file with
//   -fsanitize=undefined to see "reference binding to null pointer" on the unrepaired tree
#include <opnmidi.h>
#include <cstdio>
int main()
{
    OPN2_MIDIPlayer *d = opn2_init(44100);      // no bank loaded: every instrument is blank
    opn2_rt_noteOn(d, 0, 60, 100);
    opn2_rt_noteOff(d, 0, 60);
    opn2_rt_noteOn(d, 0, 61, 100);
    opn2_panic(d);
    opn2_close(d);
    std::printf("done\n");
    return 0;
}
