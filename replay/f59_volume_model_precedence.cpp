// F59 (file loads run applySetup):
// F59: opn2_setLogarithmicVolumes / opn2_setVolumeRangeModel vs. the model that the next reset puts in force
#include <opnmidi.h>
#include <cstdio>
#include <vector>
static std::vector<unsigned char> smf()
{
    std::vector<unsigned char> t = {0x00,0x90,60,100, 0x60,0x80,60,0, 0x00,0xFF,0x2F,0x00};
    std::vector<unsigned char> f = {'M','T','h','d',0,0,0,6,0,0,0,1,0,96,'M','T','r','k',0,0,0,(unsigned char)t.size()};
    f.insert(f.end(), t.begin(), t.end());
    return f;
}
int main()
{
    int fail = 0;
    std::vector<unsigned char> f = smf();
    OPN2_MIDIPlayer *d = opn2_init(44100);
    opn2_openBankFile(d, "/repo/fm_banks/gm.wopn");
    opn2_setLogarithmicVolumes(d, 1);
    opn2_setVolumeRangeModel(d, OPNMIDI_VolumeModel_DMX);
    int a = opn2_getVolumeRangeModel(d); opn2_openData(d, f.data(), f.size()); int b = opn2_getVolumeRangeModel(d);
    std::printf("log=1, model=DMX: getter %d, after opn2_openData %d\n", a, b);
    if(a != b) { std::printf("FAIL: the model the setter put in force does not survive a file load\n"); fail = 1; }
    opn2_setVolumeRangeModel(d, OPNMIDI_VolumeModel_AUTO);
    opn2_setLogarithmicVolumes(d, 1);
    a = opn2_getVolumeRangeModel(d); opn2_openData(d, f.data(), f.size()); b = opn2_getVolumeRangeModel(d);
    std::printf("model=AUTO, log=1: getter %d, after opn2_openData %d\n", a, b);
    if(a != b) { std::printf("FAIL: the model the setter put in force does not survive a file load\n"); fail = 1; }
    opn2_close(d);
    std::printf(fail ? "FAIL\n" : "PASS\n");
    return fail;
}
