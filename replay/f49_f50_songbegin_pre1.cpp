#include "f49_f50_h.hpp"
int main(){
  // (a) solo track 1; track 1: CC7=40 at 1.0s (tick 960 @120bpm,div480), note etc
  { std::vector<Trk> t(2); t[0].tempo(0,500000); t[0].end(3840);
    t[1].ev(0,0xB0,10,20); t[1].ev(960,0xB0,7,40); t[1].ev2(960,0xC0,5); t[1].ev(1920,0x90,60,100); t[1].ev(2400,0x80,60,0); t[1].end(3840);
    Bytes f=smf(t);
    OPN2_MIDIPlayer *a=mk(f); opn2_setTrackOptions(a,1,OPNMIDI_TrackOption_Solo); run(a,0.5); std::string lin=dump(a);
    OPN2_MIDIPlayer *b=mk(f); opn2_setTrackOptions(b,1,OPNMIDI_TrackOption_Solo); run(b,1.5); opn2_positionSeek(b,0.5); std::string sk=dump(b);
    printf("(a) solo: %s\n", lin==sk?"same":"DIFF"); if(lin!=sk){ printf("lin:\n%.200s\nseek:\n%.200s\n",lin.c_str(),sk.c_str()); }
  }
  // (b) device switch
  { std::vector<Trk> t(2); t[0].tempo(0,500000); t[0].end(3840);
    t[1].ev(0,0xB0,7,50); t[1].metas(960,0x09,"A"); t[1].metas(1920,0x09,"B"); t[1].ev(1920,0xB0,7,30); t[1].end(3840);
    Bytes f=smf(t);
    OPN2_MIDIPlayer *a=mk(f); run(a,0.5); std::string lin=dump(a);
    OPN2_MIDIPlayer *b=mk(f); run(b,2.5); opn2_positionSeek(b,0.5); std::string sk=dump(b);
    printf("(b) devswitch: lin ch0:\n%.100s\nseek:\n%s\n",lin.c_str(),sk.c_str());
  }
  return 0; }
