// Differential test for property C04 (voice-allocation bookkeeping).
//
// Drives the real-time API and the MIDI sequencer with pseudo-random (fixed
// seed) call sequences on very small chip set-ups, so that channel collisions,
// arpeggio sharing, evacuation, sustain / sostenuto holds, portamento glides
// and drum life-time extension all happen, and hashes everything observable:
//   - return values, error strings, describeChannels() output
//   - note-hook and debug-message-hook traces
//   - rendered audio
//   - the internal book-keeping itself (activenotes, users, counters), read
//     through the internal headers after every call
// It also counts violations of the C04 invariants (printed on stderr, and mixed
// into the hash).
//
// Build (same defines / language level as the library):
//   g++ -std=gnu++98 -O1 -DNDEBUG -DENABLE_END_SILENCE_SKIPPING -DOPNMIDI_MIDI2VGM \
//       -I<wt>/include -I<wt>/src diff_test.cpp <build>/libOPNMIDI.a -o diff_test
// Run: diff_test <path to fm_banks>
#include <stdint.h>
#include <stddef.h>
#include <stdio.h>
#include <stdlib.h>
#include <string.h>
#include <stdarg.h>
#include <math.h>
#include <string>
#include <vector>
#include <map>
#include <set>
#include <list>
#include <deque>
#include <memory>
#include <algorithm>
#include <limits>
#include <sstream>
#include <fstream>
#include <iostream>
#include <cassert>
#include <cmath>
#include <cstring>
#include <cstdlib>
#include <cstdio>
#include <utility>
#include <iterator>
#include <new>
#include <stdexcept>

// The chip-channel table is a private member; the layout does not depend on it.
#define OPNMIDI_UNSTABLE_API
#define private public
#define protected public
#include "opnmidi.h"
#include "opnmidi_midiplay.hpp"
#include "opnmidi_opn2.hpp"
#include "opnmidi_private.hpp"
#undef private
#undef protected

// ---------------------------------------------------------------- hashing
static uint64_t g_hash = 1469598103934665603ULL;
static unsigned long g_violations = 0;
static unsigned long g_events = 0;

static void hbytes(const void *p, size_t n)
{
    const unsigned char *b = static_cast<const unsigned char *>(p);
    for(size_t i = 0; i < n; ++i)
    {
        g_hash ^= b[i];
        g_hash *= 1099511628211ULL;
    }
}
static void hu64(uint64_t v) { hbytes(&v, sizeof(v)); }
static void hi64(int64_t v) { hbytes(&v, sizeof(v)); }
static void hdbl(double v) { uint64_t u; memcpy(&u, &v, sizeof(u)); hu64(u); }
static void hstr(const char *s) { if(!s) { hu64(0xdeadULL); return; } hbytes(s, strlen(s)); hu64(strlen(s)); }

// ---------------------------------------------------------------- PRNG
struct Rng
{
    uint64_t s;
    explicit Rng(uint64_t seed) : s(seed * 0x9E3779B97F4A7C15ULL + 0x1234567ULL) {}
    uint32_t next()
    {
        s ^= s << 13; s ^= s >> 7; s ^= s << 17;
        return static_cast<uint32_t>((s * 0x2545F4914F6CDD1DULL) >> 32);
    }
    uint32_t range(uint32_t n) { return n ? next() % n : 0; }
    bool chance(uint32_t pct) { return range(100) < pct; }
};

// ---------------------------------------------------------------- hooks
static void noteHook(void *, int opnchn, int note, int ins, int pressure, double bend)
{
    hu64(0x4e4f5445ULL);
    hi64(opnchn); hi64(note); hi64(ins); hi64(pressure); hdbl(bend);
}

static void debugHook(void *, const char *fmt, ...)
{
    // Only the format and the first (int) argument are portable to read back:
    // several call sites pass size_t for %i.
    hu64(0x44424721ULL);
    hstr(fmt);
}

// ---------------------------------------------------------------- state dump
typedef OPNMIDIplay::MIDIchannel MIDIchannel;
typedef OPNMIDIplay::OpnChannel OpnChannel;

static void violation(const char *what, size_t a, size_t b)
{
    ++g_violations;
    if(g_violations <= 20)
        fprintf(stderr, "C04 violation after event %lu: %s (%lu, %lu)\n", g_events, what, (unsigned long)a, (unsigned long)b);
}

static void dumpState(OPN2_MIDIPlayer *dev)
{
    OPNMIDIplay *p = reinterpret_cast<OPNMIDIplay *>(dev->opn2_midiPlayer);
    Synth &synth = *p->m_synth;
    const size_t nChip = p->m_chipChannels.size();
    hu64(nChip);
    hu64(synth.m_numChannels);
    hu64(p->m_midiChannels.size());
    hu64(p->m_arpeggioCounter);

    for(size_t mc = 0; mc < p->m_midiChannels.size(); ++mc)
    {
        MIDIchannel &ch = p->m_midiChannels[mc];
        hu64(ch.gliding_note_count);
        hu64(ch.extended_note_count);
        hu64(ch.activenotes.size());
        unsigned gliding = 0, extended = 0;
        size_t walked = 0;
        bool seen[256];
        memset(seen, 0, sizeof(seen));
        for(MIDIchannel::notes_iterator i = ch.activenotes.begin(); !i.is_end(); ++i)
        {
            MIDIchannel::NoteInfo &ni = i->value;
            ++walked;
            hu64(ni.note);
            hu64(ni.isBlank ? 1 : 0);
            if(seen[ni.note])
                violation("note twice in activenotes", mc, ni.note);
            seen[ni.note] = true;
            if(ni.isBlank)
                continue; // the other fields of a place-holder are never written
            hu64(ni.vol); hu64(ni.vibrato); hi64(ni.noteTone);
            hdbl(ni.currentTone); hdbl(ni.glideRate);
            hu64(ni.midiins); hu64(ni.isPercussion ? 1 : 0);
            hu64(ni.isOnExtendedLifeTime ? 1 : 0);
            hdbl(ni.ttl);
            hu64(ni.chip_channels_count);
            if(ni.glideRate != HUGE_VAL) ++gliding;
            if(ni.ttl > 0) ++extended;
            if(ni.midiins >= 128)
                violation("midiins out of range", mc, ni.midiins);
            if(ni.chip_channels_count > 2)
                violation("chip_channels_count > 2", mc, ni.chip_channels_count);
            for(unsigned k = 0; k < ni.chip_channels_count && k < 2; ++k)
            {
                const unsigned c = ni.chip_channels[k].chip_chan;
                hu64(c);
                hbytes(&ni.chip_channels[k].ains, sizeof(ni.chip_channels[k].ains));
                if(c >= nChip || c >= synth.m_numChannels)
                {
                    violation("note refers to missing chip channel", mc, c);
                    continue;
                }
                OpnChannel::Location loc;
                memset(&loc, 0, sizeof(loc));
                loc.MidCh = static_cast<uint16_t>(mc);
                loc.note = ni.note;
                if(p->m_chipChannels[c].find_user(loc).is_end())
                    violation("chip channel does not list the note as user", mc, ni.note);
                if(k == 1 && ni.chip_channels[0].chip_chan == c)
                    violation("same chip channel twice in a note", mc, c);
            }
        }
        if(walked != ch.activenotes.size())
            violation("activenotes size mismatch", mc, walked);
        if(gliding != ch.gliding_note_count)
            violation("gliding_note_count mismatch", gliding, ch.gliding_note_count);
        if(extended != ch.extended_note_count)
            violation("extended_note_count mismatch", extended, ch.extended_note_count);
    }

    for(size_t c = 0; c < nChip; ++c)
    {
        OpnChannel &cc = p->m_chipChannels[c];
        hu64(cc.users.size());
        hi64(cc.koff_time_until_neglible_us);
        size_t walked = 0;
        std::set<unsigned> seen;
        for(OpnChannel::users_iterator j = cc.users.begin(); !j.is_end(); ++j)
        {
            OpnChannel::LocationData &d = j->value;
            ++walked;
            hu64(d.loc.MidCh); hu64(d.loc.note); hu64(d.sustained);
            hu64(d.fixed_sustain ? 1 : 0);
            hi64(d.kon_time_until_neglible_us); hi64(d.vibdelay_us);
            hu64(d.ins.chip_chan);
            hbytes(&d.ins.ains, sizeof(d.ins.ains));
            const unsigned key = d.loc.MidCh * 256u + d.loc.note;
            if(!seen.insert(key).second)
                violation("user twice on a chip channel", c, key);
            if(d.loc.MidCh >= p->m_midiChannels.size())
            {
                violation("user names a missing MIDI channel", c, d.loc.MidCh);
                continue;
            }
            if(d.sustained == OpnChannel::LocationData::Sustain_None)
            {
                MIDIchannel::notes_iterator n = p->m_midiChannels[d.loc.MidCh].find_activenote(d.loc.note);
                if(n.is_end())
                    violation("non-sustained user without a sounding note", c, key);
                else if(!n->value.phys_find(static_cast<unsigned>(c)))
                    violation("non-sustained user whose note is elsewhere", c, key);
            }
        }
        if(walked != cc.users.size())
            violation("users size mismatch", c, walked);
    }
}

// The place-holder that realTime_NoteOn() inserts for a key of a blank instrument is a
// default-initialised NoteInfo of which only note/isBlank/isOnExtendedLifeTime/ttl/ains/
// chip_channels_count are written.  The library later READS some of the remaining,
// indeterminate fields (isPercussion in calculateChipChannelGoodness(), glideRate/currentTone/
// noteTone in updateGlide()), which makes the voice allocation depend on stack garbage (see
// PREEXISTING.md).  To keep the hash a function of the call sequence only, the test gives these
// fields fixed values after every API call - identically for every library under test.
static void settlePlaceholders(OPN2_MIDIPlayer *dev)
{
    OPNMIDIplay *p = reinterpret_cast<OPNMIDIplay *>(dev->opn2_midiPlayer);
    for(size_t mc = 0; mc < p->m_midiChannels.size(); ++mc)
    {
        MIDIchannel &ch = p->m_midiChannels[mc];
        for(MIDIchannel::notes_iterator i = ch.activenotes.begin(); !i.is_end(); ++i)
        {
            MIDIchannel::NoteInfo &ni = i->value;
            if(!ni.isBlank)
                continue;
            ni.vol = 0; ni.vibrato = 0; ni.noteTone = 0; ni.currentTone = 0.0;
            ni.glideRate = HUGE_VAL; ni.midiins = 0; ni.isPercussion = false;
        }
    }
}

static void describe(OPN2_MIDIPlayer *dev)
{
    char text[64], attr[64];
    memset(text, 0, sizeof(text));
    memset(attr, 0, sizeof(attr));
    int r = opn2_describeChannels(dev, text, attr, sizeof(text));
    hi64(r);
    hbytes(text, sizeof(text));
    hbytes(attr, sizeof(attr));
}

static void render(OPN2_MIDIPlayer *dev, int frames, bool viaPlay)
{
    static short buf[2 * 4096];
    if(frames > 4096) frames = 4096;
    memset(buf, 0, sizeof(buf));
    int got = viaPlay ? opn2_play(dev, frames * 2, buf) : opn2_generate(dev, frames * 2, buf);
    hi64(got);
    hbytes(buf, sizeof(short) * 2 * static_cast<size_t>(frames));
}

static void after(OPN2_MIDIPlayer *dev)
{
    ++g_events;
    settlePlaceholders(dev);
    dumpState(dev);
    if(getenv("DT_TRACE_EVENTS")) fprintf(stderr, "ev %lu %016llx\n", g_events, (unsigned long long)g_hash);
    hstr(opn2_errorInfo(dev));
}

// ---------------------------------------------------------------- set-up
static const char *const kBanks[] = { "xg.wopn", "gm.wopn", "gs-by-papiezak-and-sneakernets.wopn", "fmmidi.wopn", "Tomsoft.wopn" };

// No bank format can express it, but the allocator supports notes made of two different voices
// (OpnInstMeta::op[0] != op[1], "pseudo 8-op"): then a note owns two chip channels and
// noteUpdate() / killOrEvacuate() act on one of them (select_adlchn).  The public converter
// always sets op[1] = op[0]; to reach those paths the test detunes the second voice of every
// third instrument in place, in some of the cases.
static void makeTwoVoiceInstruments(OPN2_MIDIPlayer *dev)
{
    OPNMIDIplay *p = reinterpret_cast<OPNMIDIplay *>(dev->opn2_midiPlayer);
    Synth &synth = *p->m_synth;
    unsigned n = 0;
    for(Synth::BankMap::iterator b = synth.m_insBanks.begin(); b != synth.m_insBanks.end(); ++b)
    {
        for(unsigned i = 0; i < 128; ++i, ++n)
        {
            OpnInstMeta &m = b->second.ins[i];
            if((m.flags & OpnInstMeta::Flag_NoSound) != 0 || (n % 3) != 0)
                continue;
            m.op[1].noteOffset = static_cast<int16_t>(m.op[1].noteOffset + 12);
            m.op[1].OPS[1].data[1] = static_cast<uint8_t>((m.op[1].OPS[1].data[1] + 5) & 0x7F);
            if((n % 2) == 0)
            {
                m.flags |= OpnInstMeta::Flag_Pseudo8op;
                m.voice2_fine_tune = 0.125;
            }
        }
    }
}

static OPN2_MIDIPlayer *makeDevice(Rng &rng, const std::string &bankDir, unsigned caseNo, int forceChips)
{
    OPN2_MIDIPlayer *dev = opn2_init(44100);
    if(!dev) { fprintf(stderr, "init failed\n"); exit(2); }
    hi64(opn2_switchEmulator(dev, (caseNo % 7 == 3) ? OPNMIDI_EMU_MAME_2608 : OPNMIDI_EMU_MAME));
    hi64(opn2_setRunAtPcmRate(dev, 1));
    const std::string bank = bankDir + "/" + kBanks[caseNo % 5];
    int r = opn2_openBankFile(dev, bank.c_str());
    hi64(r);
    if(r != 0) { fprintf(stderr, "cannot load %s: %s\n", bank.c_str(), opn2_errorInfo(dev)); exit(2); }
    if(caseNo % 4 == 1)
        makeTwoVoiceInstruments(dev);
    int chips = forceChips > 0 ? forceChips : ((caseNo % 4 == 0) ? 2 : 1);
    if(caseNo % 37 == 36) chips = 3;
    hi64(opn2_setNumChips(dev, chips));
    hi64(opn2_getNumChipsObtained(dev));
    opn2_setAutoArpeggio(dev, (caseNo % 3) != 2);
    opn2_setChannelAllocMode(dev, static_cast<int>(caseNo % 4) - 1);
    opn2_setVolumeRangeModel(dev, static_cast<int>(rng.range(5)));
    opn2_setFullRangeBrightness(dev, static_cast<int>(rng.range(2)));
    opn2_setSoftPanEnabled(dev, static_cast<int>(rng.range(2)));
    opn2_setNoteHook(dev, noteHook, NULL);
    opn2_setDebugMessageHook(dev, debugHook, NULL);
    return dev;
}

static uint8_t pickChannel(Rng &rng, unsigned caseNo)
{
    // Few channels, so that the same keys collide; channel 9 is percussion.
    static const uint8_t pool[] = { 0, 0, 1, 2, 9, 9, 3, 15, 10, 16, 25, 255 };
    const unsigned span = (caseNo % 5 == 0) ? 12 : 7;
    return pool[rng.range(span)];
}

static uint8_t pickNote(Rng &rng, unsigned caseNo)
{
    static const uint8_t pool[] = { 60, 60, 62, 64, 67, 36, 38, 42, 0, 1, 126, 127, 128, 200, 255, 72 };
    if(caseNo % 6 == 5)
        return static_cast<uint8_t>(rng.range(256));
    return pool[rng.range(16)];
}

static uint8_t pickVal(Rng &rng)
{
    static const uint8_t pool[] = { 0, 1, 63, 64, 65, 100, 126, 127, 128, 255 };
    if(rng.chance(50))
        return pool[rng.range(10)];
    return static_cast<uint8_t>(rng.range(128));
}

// ---------------------------------------------------------------- real-time cases
static void realtimeCase(unsigned caseNo, const std::string &bankDir)
{
    Rng rng(1000 + caseNo);
    OPN2_MIDIPlayer *dev = makeDevice(rng, bankDir, caseNo, 0);
    after(dev);
    const unsigned steps = 150 + rng.range(200);
    for(unsigned s = 0; s < steps; ++s)
    {
        const unsigned op = rng.range(100);
        const uint8_t ch = pickChannel(rng, caseNo);
        hu64(op);
        if(op < 34)
        {
            uint8_t vel = rng.chance(8) ? 0 : static_cast<uint8_t>(1 + rng.range(127));
            if(rng.chance(5)) vel = static_cast<uint8_t>(128 + rng.range(128));
            hi64(opn2_rt_noteOn(dev, ch, pickNote(rng, caseNo), vel));
        }
        else if(op < 48)
            opn2_rt_noteOff(dev, ch, pickNote(rng, caseNo));
        else if(op < 56)
            opn2_rt_controllerChange(dev, ch, 64, rng.chance(50) ? 127 : 0); // sustain pedal
        else if(op < 61)
            opn2_rt_controllerChange(dev, ch, 66, rng.chance(50) ? 127 : 0); // sostenuto
        else if(op < 65)
        {
            opn2_rt_controllerChange(dev, ch, 65, rng.chance(70) ? 127 : 0); // portamento on
            opn2_rt_controllerChange(dev, ch, 5, pickVal(rng));
            if(rng.chance(30)) opn2_rt_controllerChange(dev, ch, 37, pickVal(rng));
        }
        else if(op < 67)
            opn2_rt_controllerChange(dev, ch, 67, pickVal(rng)); // soft pedal
        else if(op < 70)
            opn2_rt_controllerChange(dev, ch, rng.chance(50) ? 1 : 74, pickVal(rng));
        else if(op < 72)
        {
            static const uint8_t cc[] = { 7, 10, 11, 120, 121, 123, 0, 32, 98, 99, 100, 101, 6, 38, 91, 93, 103, 200 };
            opn2_rt_controllerChange(dev, ch, cc[rng.range(18)], pickVal(rng));
        }
        else if(op < 75)
            opn2_rt_patchChange(dev, ch, pickVal(rng));
        else if(op < 78)
        {
            if(rng.chance(50))
                opn2_rt_pitchBend(dev, ch, static_cast<uint16_t>(rng.range(16384)));
            else
                opn2_rt_pitchBendML(dev, ch, pickVal(rng), pickVal(rng));
        }
        else if(op < 80)
            opn2_rt_noteAfterTouch(dev, ch, pickNote(rng, caseNo), pickVal(rng));
        else if(op < 81)
            opn2_rt_channelAfterTouch(dev, ch, pickVal(rng));
        else if(op < 83)
        {
            if(rng.chance(50)) opn2_rt_bankChangeMSB(dev, ch, rng.chance(50) ? 0 : pickVal(rng));
            else if(rng.chance(50)) opn2_rt_bankChangeLSB(dev, ch, rng.chance(50) ? 0 : pickVal(rng));
            else opn2_rt_bankChange(dev, ch, static_cast<int16_t>(rng.range(3) * 127));
        }
        else if(op < 92)
        {
            static const int frames[] = { 1, 7, 64, 441, 512, 1500, 4096 };
            render(dev, frames[rng.range(7)], false);
        }
        else if(op < 93)
            hdbl(opn2_tickEvents(dev, 0.001 * rng.range(60), 0.001 * (1 + rng.range(20))));
        else if(op < 94)
            opn2_setAutoArpeggio(dev, static_cast<int>(rng.range(2)));
        else if(op < 95)
            opn2_setChannelAllocMode(dev, static_cast<int>(rng.range(4)) - 1);
        else if(op < 96)
        {
            static const uint8_t gm[] = { 0xF0, 0x7E, 0x7F, 0x09, 0x01, 0xF7 };
            static const uint8_t gs[] = { 0xF0, 0x41, 0x10, 0x42, 0x12, 0x40, 0x00, 0x7F, 0x00, 0x41, 0xF7 };
            static const uint8_t xg[] = { 0xF0, 0x43, 0x10, 0x4C, 0x00, 0x00, 0x7E, 0x00, 0xF7 };
            static const uint8_t gsDrum[] = { 0xF0, 0x41, 0x10, 0x42, 0x12, 0x40, 0x11, 0x15, 0x01, 0x19, 0xF7 };
            switch(rng.range(4))
            {
            case 0: hi64(opn2_rt_systemExclusive(dev, gm, sizeof(gm))); break;
            case 1: hi64(opn2_rt_systemExclusive(dev, gs, sizeof(gs))); break;
            case 2: hi64(opn2_rt_systemExclusive(dev, xg, sizeof(xg))); break;
            default: hi64(opn2_rt_systemExclusive(dev, gsDrum, sizeof(gsDrum))); break;
            }
        }
        else if(op < 97)
            opn2_panic(dev);
        else if(op < 98)
            opn2_rt_resetState(dev);
        else if(op < 99)
        {
            if(caseNo % 9 == 0)
                hi64(opn2_setNumChips(dev, 1 + static_cast<int>(rng.range(3))));
            else
                opn2_setAutoArpeggio(dev, 1);
        }
        else
            describe(dev);
        after(dev);
    }
    // drain: let pending drum life times, glides and arpeggio releases run out
    for(int k = 0; k < 6; ++k)
    {
        render(dev, 2048, false);
        after(dev);
    }
    describe(dev);
    opn2_panic(dev);
    after(dev);
    opn2_close(dev);
}

// ---------------------------------------------------------------- chord / stress cases
// Deterministic patterns that are known to reach arpeggio sharing, evacuation
// and the "kill" path: many simultaneous keys with the same instrument on one
// chip, then a foreign instrument (drums) pushing them out.
static void chordCase(unsigned caseNo, const std::string &bankDir)
{
    Rng rng(77000 + caseNo);
    OPN2_MIDIPlayer *dev = makeDevice(rng, bankDir, caseNo * 3 + 1, 1);
    opn2_setAutoArpeggio(dev, caseNo % 4 != 3);
    after(dev);
    const uint8_t patchA = static_cast<uint8_t>(rng.range(128));
    const uint8_t patchB = static_cast<uint8_t>(rng.range(128));
    opn2_rt_patchChange(dev, 0, patchA);
    opn2_rt_patchChange(dev, 1, (caseNo & 1) ? patchA : patchB);
    if(caseNo % 5 == 1) opn2_rt_controllerChange(dev, 0, 64, 127);
    if(caseNo % 5 == 2) { opn2_rt_controllerChange(dev, 0, 65, 127); opn2_rt_controllerChange(dev, 0, 5, 40); }
    after(dev);
    const unsigned keys = 4 + rng.range(12);
    for(unsigned k = 0; k < keys; ++k)
    {
        hi64(opn2_rt_noteOn(dev, static_cast<uint8_t>(k & 1), static_cast<uint8_t>(40 + k * 2), static_cast<uint8_t>(60 + rng.range(60))));
        after(dev);
        if(rng.chance(40)) { render(dev, 64 + static_cast<int>(rng.range(3000)), false); after(dev); }
    }
    if(caseNo % 5 == 3) { opn2_rt_controllerChange(dev, 0, 66, 127); after(dev); }
    for(unsigned k = 0; k < 10; ++k)
    {
        hi64(opn2_rt_noteOn(dev, 9, static_cast<uint8_t>(35 + rng.range(20)), 100));
        after(dev);
        render(dev, 1 + static_cast<int>(rng.range(2000)), false);
        after(dev);
        if(rng.chance(50)) { opn2_rt_noteOff(dev, static_cast<uint8_t>(k & 1), static_cast<uint8_t>(40 + rng.range(keys) * 2)); after(dev); }
    }
    describe(dev);
    if(caseNo % 5 == 1) { opn2_rt_controllerChange(dev, 0, 64, 0); after(dev); }
    if(caseNo % 5 == 3) { opn2_rt_controllerChange(dev, 0, 66, 0); after(dev); }
    for(unsigned k = 0; k < keys; ++k)
    {
        opn2_rt_noteOff(dev, static_cast<uint8_t>(k & 1), static_cast<uint8_t>(40 + k * 2));
        after(dev);
    }
    for(int k = 0; k < 4; ++k) { render(dev, 4096, false); after(dev); }
    opn2_close(dev);
}

// ---------------------------------------------------------------- sequencer cases
static void putVlq(std::vector<uint8_t> &o, uint32_t v)
{
    uint8_t tmp[5]; int n = 0;
    tmp[n++] = static_cast<uint8_t>(v & 0x7F);
    while((v >>= 7) != 0) tmp[n++] = static_cast<uint8_t>((v & 0x7F) | 0x80);
    while(n > 0) o.push_back(tmp[--n]);
}

// Melodic patches of bank 0:0 that have a sound.  Inside one opn2_play() call the test cannot
// settle the place-holders between two events, so the MIDI files only select such patches (and
// never change the drum kit): blank keys still occur (unused drum keys), but never on a key that
// still has a pedal-held user.
static std::vector<uint8_t> soundingPatches(OPN2_MIDIPlayer *dev)
{
    std::vector<uint8_t> out;
    OPN2_BankId id; id.percussive = 0; id.msb = 0; id.lsb = 0;
    OPN2_Bank bank;
    if(opn2_getBank(dev, &id, 0, &bank) == 0)
    {
        for(unsigned i = 0; i < 128; ++i)
        {
            OPN2_Instrument ins;
            if(opn2_getInstrument(dev, &bank, i, &ins) == 0 && (ins.inst_flags & OPNMIDI_Ins_IsBlank) == 0)
                out.push_back(static_cast<uint8_t>(i));
        }
    }
    if(out.empty()) out.push_back(0);
    return out;
}

static std::vector<uint8_t> makeSmf(Rng &rng, unsigned caseNo, const std::vector<uint8_t> &patches)
{
    std::vector<uint8_t> trk;
    const unsigned events = 120 + rng.range(200);
    for(unsigned e = 0; e < events; ++e)
    {
        putVlq(trk, rng.chance(40) ? 0 : rng.range(60));
        const uint8_t ch = static_cast<uint8_t>(pickChannel(rng, caseNo) & 0x0F);
        const unsigned op = rng.range(100);
        if(op < 45) { trk.push_back(0x90 | ch); trk.push_back(pickNote(rng, caseNo) & 0x7F); trk.push_back(rng.chance(10) ? 0 : static_cast<uint8_t>(1 + rng.range(127))); }
        else if(op < 65) { trk.push_back(0x80 | ch); trk.push_back(pickNote(rng, caseNo) & 0x7F); trk.push_back(0); }
        else if(op < 75) { trk.push_back(0xB0 | ch); trk.push_back(64); trk.push_back(rng.chance(50) ? 127 : 0); }
        else if(op < 80) { trk.push_back(0xB0 | ch); trk.push_back(66); trk.push_back(rng.chance(50) ? 127 : 0); }
        else if(op < 85) { trk.push_back(0xB0 | ch); trk.push_back(rng.chance(50) ? 65 : 5); trk.push_back(pickVal(rng) & 0x7F); }
        else if(op < 90)
        {
            const uint8_t mch = (ch == 9) ? 8 : ch; // keep the drum kit
            trk.push_back(0xC0 | mch); trk.push_back(patches[rng.range(static_cast<uint32_t>(patches.size()))]);
        }
        else if(op < 95) { trk.push_back(0xE0 | ch); trk.push_back(pickVal(rng) & 0x7F); trk.push_back(pickVal(rng) & 0x7F); }
        else { trk.push_back(0xB0 | ch); trk.push_back(rng.chance(50) ? 123 : 1); trk.push_back(pickVal(rng) & 0x7F); }
    }
    putVlq(trk, 10);
    trk.push_back(0xFF); trk.push_back(0x2F); trk.push_back(0x00);

    std::vector<uint8_t> f;
    static const uint8_t head[] = { 'M','T','h','d', 0,0,0,6, 0,0, 0,1, 0,96, 'M','T','r','k' };
    f.insert(f.end(), head, head + sizeof(head));
    const uint32_t n = static_cast<uint32_t>(trk.size());
    f.push_back(static_cast<uint8_t>(n >> 24)); f.push_back(static_cast<uint8_t>(n >> 16));
    f.push_back(static_cast<uint8_t>(n >> 8)); f.push_back(static_cast<uint8_t>(n));
    f.insert(f.end(), trk.begin(), trk.end());
    return f;
}

static void sequencerCase(unsigned caseNo, const std::string &bankDir)
{
    Rng rng(500000 + caseNo);
    OPN2_MIDIPlayer *dev = makeDevice(rng, bankDir, caseNo + 2, 0);
    const std::vector<uint8_t> patches = soundingPatches(dev);
    hu64(patches.size());
    std::vector<uint8_t> smf = makeSmf(rng, caseNo, patches);
    int r = opn2_openData(dev, &smf[0], static_cast<unsigned long>(smf.size()));
    hi64(r);
    hstr(opn2_errorInfo(dev));
    after(dev);
    if(r == 0)
    {
        for(int k = 0; k < 60 && !opn2_atEnd(dev); ++k)
        {
            render(dev, 256 + static_cast<int>(rng.range(3000)), true);
            after(dev);
            if(k == 20 && (caseNo % 4 == 1)) { opn2_positionSeek(dev, 0.5); after(dev); }
            if(k == 30 && (caseNo % 4 == 2)) { opn2_positionRewind(dev); after(dev); }
        }
        hdbl(opn2_positionTell(dev));
    }
    opn2_close(dev);
}

int main(int argc, char **argv)
{
    const std::string bankDir = argc > 1 ? argv[1] : "fm_banks";
    unsigned nRt = 320, nChord = 120, nSeq = 80;
    if(argc > 2) { nRt = static_cast<unsigned>(atoi(argv[2])); nChord = nRt / 3; nSeq = nRt / 4; }
    const bool trace = getenv("DT_TRACE") != NULL; // per-case running hash, to locate a divergence
    for(unsigned i = 0; i < nRt; ++i)
    {
        if(getenv("DT_ONLY") && static_cast<unsigned>(atoi(getenv("DT_ONLY"))) != i) continue;
        realtimeCase(i, bankDir);
        if(trace) fprintf(stderr, "rt %u %016llx\n", i, (unsigned long long)g_hash);
    }
    const uint64_t h1 = g_hash;
    for(unsigned i = 0; i < nChord; ++i)
    {
        chordCase(i, bankDir);
        if(trace) fprintf(stderr, "chord %u %016llx\n", i, (unsigned long long)g_hash);
    }
    const uint64_t h2 = g_hash;
    for(unsigned i = 0; i < nSeq; ++i)
    {
        sequencerCase(i, bankDir);
        if(trace) fprintf(stderr, "seq %u %016llx\n", i, (unsigned long long)g_hash);
    }
    fprintf(stderr, "cases: %u realtime + %u chord + %u sequencer, events: %lu, C04 invariant violations: %lu\n",
            nRt, nChord, nSeq, g_events, g_violations);
    hu64(g_violations);
    printf("partial %016llx %016llx\n", (unsigned long long)h1, (unsigned long long)h2);
    printf("HASH %016llx\n", (unsigned long long)g_hash);
    return 0;
}
