#include "f49_f50_h.hpp"
int main(){
  { std::vector<Trk> t(1); t[0].tempo(0,500000); t[0].ev(480,0xB0,0,127);
    unsigned char gs[]={0x41,0x10,0x42,0x12,0x40,0x00,0x7F,0x00,0x41,0xF7}; t[0].sysex(960,Bytes(gs,gs+10)); t[0].ev(1920,0x90,60,100); t[0].ev(2400,0x80,60,0); t[0].end(3840);
    Bytes f=smf(t,480,0);
    OPN2_MIDIPlayer *a=mk(f); run(a,0.75); std::string lin=dump(a); printf("mode lin %d\n",(int)P(a)->m_synthMode);
    OPN2_MIDIPlayer *b=mk(f); run(b,1.5); opn2_positionSeek(b,0.75); std::string sk=dump(b); printf("mode seek %d\n",(int)P(b)->m_synthMode);
    printf("(c) GS: %s\nlin: %.80s\nseek: %.80s\n", lin==sk?"same":"DIFF",lin.c_str(),sk.c_str());
  }
  return 0; }
