#define OPNMIDI_UNSTABLE_API
#include "opnmidi.h"
#include <cstdio>
#include <cstdlib>
#include <cstring>
#include <vector>
#include <string>
#include <unistd.h>
#include <signal.h>
static int loopStartCnt=0;
static void lsHook(void*){ loopStartCnt++; }
static std::vector<unsigned char> smf(const std::vector<unsigned char>&trk){
  std::vector<unsigned char> f; const unsigned char h[]={'M','T','h','d',0,0,0,6,0,0,0,1,0,96,'M','T','r','k'};
  f.insert(f.end(),h,h+18); unsigned n=trk.size(); f.push_back(n>>24);f.push_back(n>>16);f.push_back(n>>8);f.push_back(n);
  f.insert(f.end(),trk.begin(),trk.end()); return f; }
int main(int argc,char**argv){
  std::string t=argv[1];
  alarm(10);
  OPN2_MIDIPlayer*d=opn2_init(44100);
  opn2_openBankFile(d,"/repo/fm_banks/gm.wopn");
  char txt[64],attr[64];
  if(t=="sysexlen"){ unsigned char m[]={0xF0,0x7E,0x7F,0x09,0x01,0x55,0x66,0xF7}; printf("GM-on with 2 junk bytes accepted=%d\n",opn2_rt_systemExclusive(d,m,sizeof m)); }
  if(t=="resetstuck"){ opn2_rt_noteOn(d,0,60,100); opn2_rt_controllerChange(d,0,64,127); opn2_rt_noteOff(d,0,60); opn2_describeChannels(d,txt,attr,64); printf("before reset: %s\n",txt); opn2_rt_resetState(d); short b[8820]; opn2_generate(d,8820,b); opn2_describeChannels(d,txt,attr,64); printf("after resetState+100ms: %s\n",txt); opn2_rt_controllerChange(d,0,121,0);opn2_describeChannels(d,txt,attr,64); printf("after CC121: %s\n",txt);}
  if(t=="numchips"){ printf("set(0)=%d get=%d\n",opn2_setNumChips(d,0),opn2_getNumChips(d)); printf("set(101)=%d get=%d obtained=%d\n",opn2_setNumChips(d,101),opn2_getNumChips(d),opn2_getNumChipsObtained(d)); opn2_reset(d); printf("after reset obtained=%d\n",opn2_getNumChipsObtained(d)); short b[64]; printf("gen=%d\n",opn2_generate(d,64,b)); }
  if(t=="emu32"){ printf("switch(32)=...\n"); fflush(stdout); int r=opn2_switchEmulator(d,32); printf("ret=%d\n",r);}
  if(t=="emuneg"){ printf("switch(-1)=...\n"); fflush(stdout); int r=opn2_switchEmulator(d,-1); printf("ret=%d\n",r);}
  if(t=="u16"){ OPNMIDI_AudioFormat f; f.type=OPNMIDI_SampleType_U16; f.containerSize=4; f.sampleOffset=8; opn2_rt_noteOn(d,0,60,127); int32_t buf[2000]; int n=opn2_generateFormat(d,2000,(OPN2_UInt8*)buf,(OPN2_UInt8*)(buf+1),&f); int neg=0; for(int i=0;i<n;i++) if(buf[i]<0) neg++; printf("U16/4: n=%d negatives=%d first=%d\n",n,neg,buf[600]); }
  if(t=="hook"){ opn2_setLoopStartHook(d,lsHook,0); opn2_setLoopEnabled(d,1);
     std::vector<unsigned char> trk={0,0xFF,0x06,9,'l','o','o','p','S','t','a','r','t', 0,0x90,60,100, 96,0x80,60,0, 0,0xFF,0x06,7,'l','o','o','p','E','n','d', 0,0xFF,0x2F,0};
     std::vector<unsigned char> f=smf(trk); int r=opn2_openData(d,f.data(),f.size()); printf("open=%d %s\n",r,opn2_errorInfo(d)); for(int i=0;i<50;i++) opn2_tickEvents(d,0.1,0.001); printf("loopStart hook calls (registered before load)=%d\n",loopStartCnt);
     loopStartCnt=0; opn2_setLoopStartHook(d,lsHook,0); for(int i=0;i<50;i++) opn2_tickEvents(d,0.1,0.001); printf("registered after load=%d\n",loopStartCnt);
     loopStartCnt=0; opn2_reset(d); for(int i=0;i<50;i++) opn2_tickEvents(d,0.1,0.001); printf("after opn2_reset=%d\n",loopStartCnt); }
  if(t=="devid"){ opn2_setDeviceIdentifier(d,5); unsigned char m[]={0xF0,0x7F,0x05,0x04,0x01,0x00,0x40,0xF7}; printf("mastervol dev5 accepted=%d\n",opn2_rt_systemExclusive(d,m,sizeof m)); opn2_reset(d); printf("after reset accepted=%d\n",opn2_rt_systemExclusive(d,m,sizeof m)); }
  if(t=="infhang"){ OPN2_BankId id={0,0,0}; OPN2_Bank b; printf("getBank=%d\n",opn2_getBank(d,&id,0,&b)); OPN2_Instrument ins; opn2_getInstrument(d,&b,0,&ins); ins.note_offset=20000; opn2_setInstrument(d,&b,0,&ins); printf("noteOn...\n"); fflush(stdout); int r=opn2_rt_noteOn(d,0,60,100); printf("ret=%d\n",r);}
  if(t=="patch200"){ opn2_rt_patchChange(d,0,200); printf("noteOn=%d\n",opn2_rt_noteOn(d,0,60,100)); }
  if(t=="cc7"){ opn2_setVolumeRangeModel(d,OPNMIDI_VolumeModel_DMX); opn2_rt_controllerChange(d,0,7,255); opn2_rt_controllerChange(d,0,11,255); printf("noteOn=%d\n",opn2_rt_noteOn(d,0,60,100)); }
  if(t=="ff"){ std::vector<unsigned char> trk={0,0x90,60,100,0,0xFF}; std::vector<unsigned char> f=smf(trk); int r=opn2_openData(d,f.data(),f.size()); printf("open=%d\n",r);}
  if(t=="hugelen"){ std::vector<unsigned char> trk={0,0x90,60,100, 0,0xF0, 0x81,0xFF,0xFF,0xFF,0xFF,0xFF,0xFF,0xFF,0xFF,0x70, 1,2,3}; std::vector<unsigned char> f=smf(trk); printf("open...\n"); fflush(stdout); int r=opn2_openData(d,f.data(),f.size()); printf("open=%d\n",r);}
  if(t=="hugemeta"){ std::vector<unsigned char> trk={0,0x90,60,100, 0,0xFF,0x01, 0x81,0xFF,0xFF,0xFF,0xFF,0xFF,0xFF,0xFF,0xFF,0x70, 1,2,3}; std::vector<unsigned char> f=smf(trk); printf("open...\n"); fflush(stdout); int r=opn2_openData(d,f.data(),f.size()); printf("open=%d\n",r);}
  if(t=="trklen"){ std::vector<unsigned char> f={'M','T','h','d',0,0,0,6,0,0,0,1,0,96,'M','T','r','k',0xFF,0xFF,0xFF,0xF0,0,0}; printf("open...\n"); fflush(stdout); int r=opn2_openData(d,f.data(),f.size()); printf("open=%d %s\n",r,opn2_errorInfo(d));}
  if(t=="dev16"){ std::vector<unsigned char> trk; for(int i=0;i<17;i++){ trk.push_back(0);trk.push_back(0xFF);trk.push_back(0x09);trk.push_back(1);trk.push_back('a'+i);} trk.push_back(0);trk.push_back(0x90);trk.push_back(60);trk.push_back(100); trk.push_back(96);trk.push_back(0xFF);trk.push_back(0x2F);trk.push_back(0);
     std::vector<unsigned char> f=smf(trk); int r=opn2_openData(d,f.data(),f.size()); printf("open=%d\n",r); for(int i=0;i<5;i++) opn2_tickEvents(d,0.01,0.001); printf("panic...\n"); fflush(stdout); opn2_panic(d); printf("panic returned\n"); }
  if(t=="songneg"){ opn2_selectSongNum(d,-1); FILE*fp=fopen(argv[2],"rb"); std::vector<unsigned char> f(1<<20); size_t n=fread(f.data(),1,f.size(),fp); fclose(fp); printf("open...\n"); fflush(stdout); int r=opn2_openData(d,f.data(),n); printf("open=%d\n",r);}

  if(t=="chan16"){ opn2_rt_controllerChange(d,16,7,100); opn2_rt_noteOn(d,16,60,100); printf("chan16 ok\n"); }
  if(t=="mus"){ std::vector<unsigned char> f={'M','U','S',0x1A, 3,0, 16,0, 1,0, 0,0, 0,0, 0,0, 0x10, 0x3C, 0x10}; /* scoreLen=3 scoreStart=16: events end exactly at buffer end; last byte KEYON w/o data */ unsigned char*p=(unsigned char*)malloc(f.size()); memcpy(p,f.data(),f.size()); int r=opn2_openData(d,p,f.size()); printf("open=%d\n",r); free(p);}
  if(t=="xmi"){ FILE*fp=fopen(argv[2],"rb"); std::vector<unsigned char> f(1<<20); size_t n=fread(f.data(),1,f.size(),fp); fclose(fp); unsigned char*p=(unsigned char*)malloc(n); memcpy(p,f.data(),n); if(argc>3) opn2_selectSongNum(d,atoi(argv[3])); int r=opn2_openData(d,p,n); printf("open=%d songs=%d\n",r,opn2_getSongsCount(d)); free(p);}
  opn2_close(d); return 0; }
