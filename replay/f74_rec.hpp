// Recording chip used by the demos: replaces the emulators of a player so that
// every register write can be inspected.
#ifndef REC_HPP
#define REC_HPP
#include <vector>
#include <cstdio>
#include <cstring>
#define OPNMIDI_UNSTABLE_API
#include "opnmidi.h"
#include "opnmidi_midiplay.hpp"
#include "opnmidi_opn2.hpp"
#include "opnmidi_private.hpp"
#include "chips/opn_chip_base.h"

struct RegWrite { unsigned chip, port, addr, data; };
static std::vector<RegWrite> g_log;

class RecChip : public OPNChipBase
{
public:
    uint8_t regs[2][256];
    explicit RecChip(OPNFamily f) : OPNChipBase(f) { std::memset(regs, 0, sizeof(regs)); }
    OPNFamily family() const { return m_family; }
    uint32_t nativeClockRate() const { return 7670454; }
    bool canRunAtPcmRate() const { return false; }
    bool isRunningAtPcmRate() const { return false; }
    bool setRunningAtPcmRate(bool) { return false; }
    void setRate(uint32_t, uint32_t) {}
    uint32_t effectiveRate() const { return 44100; }
    uint32_t nativeRate() const { return 53267; }
    void reset() {}
    void writeReg(uint32_t port, uint16_t addr, uint8_t data)
    {
        regs[port & 1][addr & 255] = data;
        RegWrite w = { chipId(), port, addr, data };
        g_log.push_back(w);
    }
    void nativePreGenerate() {}
    void nativePostGenerate() {}
    void nativeGenerate(int16_t *f) { f[0] = f[1] = 0; }
    void generate(int16_t *o, size_t n) { std::memset(o, 0, n * 4); }
    void generateAndMix(int16_t *, size_t) {}
    void generate32(int32_t *o, size_t n) { std::memset(o, 0, n * 8); }
    void generateAndMix32(int32_t *, size_t) {}
    const char *emulatorName() { return "recorder"; }
};

static inline OPNMIDIplay *playerOf(OPN2_MIDIPlayer *dev)
{
    return reinterpret_cast<OPNMIDIplay *>(dev->opn2_midiPlayer);
}

// Put recording chips in place of the emulators
static inline void installRecorders(OPN2_MIDIPlayer *dev)
{
    OPN2 &synth = *playerOf(dev)->m_synth;
    for(size_t i = 0; i < synth.m_chips.size(); ++i)
    {
        RecChip *c = new RecChip(synth.chipFamily());
        c->setChipId(static_cast<uint32_t>(i));
        synth.m_chips[i].reset(c);
    }
    g_log.clear();
}

static inline RecChip *chipOf(OPN2_MIDIPlayer *dev, size_t i)
{
    return static_cast<RecChip *>(playerOf(dev)->m_synth->m_chips[i].get());
}
#endif
