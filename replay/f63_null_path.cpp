#include <opnmidi.h>
#include <cstdio>
int main(){ OPN2_MIDIPlayer*d=opn2_init(44100); int r=opn2_openFile(d,NULL); printf("openFile(NULL)=%d\n",r); opn2_close(d);}
