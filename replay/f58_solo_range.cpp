// F58: opn2_setTrackOptions(dev, 9999, OPNMIDI_TrackOption_Solo) returned 0 and muted every track
#include <opnmidi.h>
#include <cstdio>
#include <vector>
int main()
{
    std::vector<unsigned char> t = {0x00,0x90,60,100, 0x60,0x80,60,0, 0x00,0xFF,0x2F,0x00};
    std::vector<unsigned char> f = {'M','T','h','d',0,0,0,6,0,0,0,1,0,96,'M','T','r','k',0,0,0,(unsigned char)t.size()};
    f.insert(f.end(), t.begin(), t.end());
    OPN2_MIDIPlayer *d = opn2_init(44100);
    opn2_openBankFile(d, "/repo/fm_banks/gm.wopn");
    if(opn2_openData(d, f.data(), f.size()) < 0) { std::printf("midi? %s\n", opn2_errorInfo(d)); return 2; }
    int r = opn2_setTrackOptions(d, 9999, OPNMIDI_TrackOption_Solo);
    int r2 = opn2_setTrackOptions(d, 9999, OPNMIDI_TrackOption_Off);
    int r3 = opn2_setTrackOptions(d, 0, OPNMIDI_TrackOption_Solo);
    int r4 = opn2_setTrackOptions(d, ~(size_t)0, OPNMIDI_TrackOption_Solo);
    std::printf("solo 9999 -> %d, off 9999 -> %d, solo 0 -> %d, solo max (cancel) -> %d\n", r, r2, r3, r4);
    bool ok = r < 0 && r2 < 0 && r3 == 0 && r4 == 0;
    std::printf(ok ? "PASS\n" : "FAIL: a solo track that does not exist was accepted\n");
    opn2_close(d);
    return ok ? 0 : 1;
}
