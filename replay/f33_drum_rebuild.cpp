// F33 replay: a drum note younger than 30 ms survives panic(); a chip-count change then rebuilds the chip-channel table under it
#include <opnmidi.h>
#include <stdio.h>
int main(){
  OPN2_MIDIPlayer*d=opn2_init(44100); if(opn2_openBankFile(d,"/repo/fm_banks/xg.wopn")<0){printf("bank: %s\n",opn2_errorInfo(d));return 2;}
  opn2_setNumChips(d,4);
  for(int k=0;k<23;k++) opn2_rt_noteOn(d,0,30+k,100);       // occupy 23 of the 24 chip channels
  opn2_rt_noteOn(d,9,38,120);                                  // snare: lands on the last free chip channel, ttl = 30 ms
  opn2_setNumChips(d,1);                                       // partialReset(): panic() only *defers* the young drum note
  short buf[4410*2]; opn2_generate(d,4410*2,buf);              // 100 ms: TickIterators() ends the deferred note
  char s[64],a[64]; opn2_describeChannels(d,s,a,64); printf("channels after: %s\n",s);
  opn2_close(d); printf("finished normally\n"); return 0; }
