// F47/F48: DMX MUS system events (type 3) have ONE data byte; the pitch wheel keeps its low bit.
//   g++ -I/repo/include f47_mus_events.cpp <build>/libOPNMIDI.a -o f47 && ./f47 /repo/fm_banks/gm.wopn
#include <opnmidi.h>
#include <cstdio>
#include <cstdint>
#include <vector>
typedef std::vector<uint8_t> Bytes;
struct Ev { int type, ch; Bytes d; };
static std::vector<Ev> g_evs;
static void rawHook(void *, OPN2_UInt8 type, OPN2_UInt8, OPN2_UInt8 ch, const OPN2_UInt8 *data, size_t len)
{ Ev e; e.type = type; e.ch = ch; e.d.assign(data, data + len); g_evs.push_back(e); }
static Bytes makeMus(const Bytes &score, unsigned channels)
{
    Bytes f; f.push_back('M'); f.push_back('U'); f.push_back('S'); f.push_back(0x1A);
    const unsigned start = 16, len = (unsigned)score.size();
    f.push_back(len & 255); f.push_back(len >> 8); f.push_back(start & 255); f.push_back(start >> 8);
    f.push_back(channels & 255); f.push_back(channels >> 8);
    for(int i = 0; i < 6; ++i) f.push_back(0);
    f.insert(f.end(), score.begin(), score.end());
    return f;
}
static int run(const Bytes &score, const char *bank, const char *what)
{
    g_evs.clear();
    OPN2_MIDIPlayer *d = opn2_init(44100);
    if(opn2_openBankFile(d, bank) < 0) { std::printf("bank?\n"); return 2; }
    opn2_setLoopEnabled(d, 0);
    opn2_setRawEventHook(d, rawHook, NULL);
    Bytes mus = makeMus(score, 1);
    if(opn2_openData(d, mus.data(), (unsigned long)mus.size()) < 0)
    { std::printf("FAIL (%s): well-formed MUS rejected: %s\n", what, opn2_errorInfo(d)); opn2_close(d); return 1; }
    double w = 0.0; int guard = 0;
    while(!opn2_atEnd(d) && guard++ < 100000) w = opn2_tickEvents(d, w, 1e-9);
    opn2_close(d);
    return 0;
}
int main(int argc, char **argv)
{
    const char *bank = argc > 1 ? argv[1] : "/repo/fm_banks/gm.wopn";
    int fail = 0;
    // note 60; system event 11 (all notes off) with delay 5; note 62; release; end
    { Bytes s = {0x10, 0x80 | 60, 100,  0x80 | 0x30, 11, 5,  0x10, 62,  0x00, 62,  0x60};
      int r = run(s, bank, "system event"); if(r) fail = 1; else {
        int cc123 = 0, n62 = 0;
        for(auto &e : g_evs) { if(e.type == 0x0B && e.d.size() == 2 && e.d[0] == 123) ++cc123; if(e.type == 0x09 && e.d[0] == 62) ++n62; }
        if(cc123 != 1 || n62 != 1) { std::printf("FAIL: system event 11 delivered as CC123 %d time(s), following note-on 62 %d time(s) (expected 1 / 1)\n", cc123, n62); fail = 1; } } }
    // pitch wheel 129 -> 14-bit 129 * 64 = 8256 = LSB 0x40, MSB 0x40
    { Bytes s = {0x20, 129, 0x10, 60, 0x00, 60, 0x60};
      int r = run(s, bank, "pitch wheel"); if(r) fail = 1; else {
        int ok = 0; for(auto &e : g_evs) if(e.type == 0x0E && e.d.size() == 2) { std::printf("wheel LSB %02X MSB %02X\n", e.d[0], e.d[1]); if(e.d[0] == 0x40 && e.d[1] == 0x40) ok = 1; }
        if(!ok) { std::printf("FAIL: MUS pitch wheel 129 not delivered as LSB 40 / MSB 40\n"); fail = 1; } } }
    std::printf(fail ? "FAIL\n" : "PASS\n");
    return fail;
}
