// Pre-existing behaviour probe (ORIGINAL code): re-striking a pedal-held key makes the held
// instance look like a key-down note to calculateChipChannelGoodness().
#include <opnmidi.h>
#include <cstdio>
#include <cstring>
#include <vector>
static int last_on_ch = -1;
static void hook(void*, int ch, int note, int, int vol, double)
{ std::printf("   hook: chip-ch %d note %d vol %d\n", ch, note, vol); if(vol > 0) last_on_ch = ch; }
static void show(OPN2_MIDIPlayer *p, const char *w)
{ char t[64], a[64]; opn2_describeChannels(p, t, a, sizeof(t)); std::printf("%-28s [%s]\n", w, t); }
static void run(OPN2_MIDIPlayer *p, int ms)
{
    std::vector<short> b(2*44100*ms/1000);
    OPNMIDI_AudioFormat f; f.type = OPNMIDI_SampleType_S16; f.containerSize = 2; f.sampleOffset = 4;
    opn2_generateFormat(p, (int)b.size(), (OPN2_UInt8*)b.data(), (OPN2_UInt8*)(b.data()+1), &f);
}
static int scenario(bool restrike)
{
    OPN2_MIDIPlayer *p = opn2_init(44100);
    opn2_setNumChips(p, 1);
    if(opn2_openBankFile(p, "/repo/fm_banks/gm.wopn") < 0) { std::puts(opn2_errorInfo(p)); return -2; }
    opn2_setNoteHook(p, hook, 0);
    opn2_rt_controllerChange(p, 0, 64, 127);            // sustain pedal down
    opn2_rt_noteOn(p, 0, 61, 100); run(p, 100);         // chip-ch 0, key stays down
    opn2_rt_noteOn(p, 0, 60, 100); run(p, 100);         // chip-ch 1
    opn2_rt_noteOff(p, 0, 60);     run(p, 100);         // chip-ch 1: released, pedal-held
    opn2_rt_noteOn(p, 0, restrike ? 60 : 65, 100); run(p, 100); // chip-ch 2
    opn2_rt_noteOn(p, 0, 62, 100); run(p, 100);
    opn2_rt_noteOn(p, 0, 63, 100); run(p, 100);
    opn2_rt_noteOn(p, 0, 64, 100); run(p, 100); show(p, "all six busy");
    std::puts(" note-on 70:");
    opn2_rt_noteOn(p, 0, 70, 100); show(p, "after 70");
    opn2_close(p);
    return last_on_ch;
}
int main()
{
    std::puts("== control: third key is 65");
    int a = scenario(false);
    std::puts("== same, but third key re-strikes the pedal-held key 60");
    int b = scenario(true);
    std::printf("control: note 70 took chip channel %d (1 = the pedal-held one)\n", a);
    std::printf("restrike: note 70 took chip channel %d\n", b);
    return (a == 1 && b == 1) ? 0 : 1;
}
