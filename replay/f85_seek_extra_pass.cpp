// F85 (C08 / C09): a seek in a song WITHOUT a (valid) loop end marker sets LoopState::temporaryBroken, because the loop end time is
// the -1.0 place holder and every target is >= -1.0.  The next arrival at the song end then jumps back without counting the pass:
// with loop count N >= 2 the song plays N+1 times after a seek (linear playback: N times).
//   c++ -I/repo/include f85_seek_extra_pass.cpp <build>/libOPNMIDI.a -o f85s && ./f85s /repo/fm_banks/xg.wopn
// exit 0: a seek does not change the number of passes; exit 1: it does
#include <opnmidi.h>
#include <cstdio>
#include <cstring>
#include <vector>
#include <initializer_list>

static int g_on[3];
static void raw(void *, OPN2_UInt8 type, OPN2_UInt8, OPN2_UInt8, const OPN2_UInt8 *d, size_t len)
{
    if(type == 0x9 && len >= 2 && d[1])
        for(int i = 0; i < 3; i++)
            if(d[0] == 60 + 2 * i)
                g_on[i]++;
}

static std::vector<unsigned char> song()
{
    std::vector<unsigned char> t;
    auto ev = [&](int delta, std::initializer_list<int> b) { t.push_back((unsigned char)delta); for(int x : b) t.push_back((unsigned char)x); };
    ev(0, {0x90, 60, 100}); ev(48, {0x80, 60, 0});
    ev(0, {0x90, 62, 100}); ev(48, {0x80, 62, 0});
    ev(0, {0x90, 64, 100}); ev(48, {0x80, 64, 0});
    ev(0, {0xFF, 0x2F, 0});
    std::vector<unsigned char> f = {'M','T','h','d',0,0,0,6,0,0,0,1,0,96,'M','T','r','k',0,0,0,(unsigned char)t.size()};
    f.insert(f.end(), t.begin(), t.end());
    return f;
}

static void run(const char *bank, int count, int seek, int out[3])
{
    OPN2_MIDIPlayer *p = opn2_init(44100);
    opn2_openBankFile(p, bank);
    opn2_setRawEventHook(p, raw, 0);
    opn2_setLoopEnabled(p, 1);
    opn2_setLoopCount(p, count);
    std::vector<unsigned char> s = song();
    opn2_openData(p, s.data(), s.size());
    g_on[0] = g_on[1] = g_on[2] = 0;
    if(seek)
        opn2_positionSeek(p, 0.1);       // inside the first note: key 60 was struck before the target
    for(int i = 0; i < 100000 && !opn2_atEnd(p); i++)
        opn2_tickEvents(p, 0.01, 0.01);
    std::memcpy(out, g_on, sizeof(g_on));
    opn2_close(p);
}

int main(int argc, char **argv)
{
    const char *bank = argc > 1 ? argv[1] : "/repo/fm_banks/xg.wopn";
    int bad = 0;
    for(int count = 1; count <= 3; count++)
    {
        int lin[3], sk[3];
        run(bank, count, 0, lin);
        run(bank, count, 1, sk);
        // after the seek the first strike of key 60 lies before the target: one strike less; the other keys as in linear playback
        bool ok = sk[0] == lin[0] - 1 && sk[1] == lin[1] && sk[2] == lin[2];
        std::printf("count=%d linear: %d %d %d   after seek to 0.1 s: %d %d %d   %s\n", count, lin[0], lin[1], lin[2], sk[0], sk[1], sk[2], ok ? "ok" : "ONE PASS TOO MANY");
        bad |= !ok;
    }
    std::puts(bad ? "VIOLATED: the events delivered after a seek are not those a linear playback delivers after the target" : "holds");
    return bad;
}
