#include "f74_rec.hpp"
static int g_c = -1;
static void hook(void *, int c, int, int, int p, double) { if(p > 0) g_c = c; }
int main()
{
    OPN2_MIDIPlayer *dev = opn2_init(44100);
    OPN2_BankId id = {0, 0, 0}; OPN2_Bank bank;
    opn2_getBank(dev, &id, OPNMIDI_Bank_Create, &bank);
    OPN2_Instrument ins; std::memset(&ins, 0, sizeof(ins));
    ins.fbalg = 0;
    unsigned tls[4] = { 0x94, 30, 40, 5 };
    for(int op = 0; op < 4; ++op) { ins.operators[op].dtfm_30 = 1; ins.operators[op].level_40 = tls[op]; ins.operators[op].rsatk_50 = 0x1F; ins.operators[op].susrel_80 = 0xF; }
    ins.delay_on_ms = 1000; ins.delay_off_ms = 100;
    opn2_setInstrument(dev, &bank, 0, &ins);
    opn2_setNoteHook(dev, hook, NULL);
    installRecorders(dev);

    // 1. TL byte with bit 7 set on a modulator
    opn2_rt_noteOn(dev, 0, 60, 100);
    std::printf("1) chip channel %d; TL writes of the note:\n", g_c);
    for(size_t i = 0; i < g_log.size(); ++i)
        if(g_log[i].addr >= 0x40 && g_log[i].addr < 0x50)
            std::printf("   chip %u port %u reg %02X <- %u%s\n", g_log[i].chip, g_log[i].port, g_log[i].addr, g_log[i].data, g_log[i].data > 127 ? "   <-- above 127" : "");
    opn2_rt_noteOff(dev, 0, 60);

    // 2. -1 = "bank default" switches scaling on
    opn2_setScaleModulators(dev, -1);
    g_log.clear();
    opn2_rt_controllerChange(dev, 1, 7, 60);
    opn2_rt_noteOn(dev, 1, 62, 100);
    {
        RecChip *chip = chipOf(dev, g_c / 6); unsigned port = (g_c % 6) < 3 ? 0 : 1, cc = (g_c % 6) % 3;
        std::printf("2) after opn2_setScaleModulators(dev, -1): modulators TL %u %u %u (instrument: %u %u %u)\n",
                    chip->regs[port][0x40 + cc], chip->regs[port][0x44 + cc], chip->regs[port][0x48 + cc], tls[0], tls[1], tls[2]);
    }
    opn2_rt_noteOff(dev, 1, 62);
    opn2_setScaleModulators(dev, 0);

    // 3. zero channel volume: carrier TL writes of a new note
    opn2_rt_controllerChange(dev, 2, 7, 0);
    g_log.clear();
    opn2_rt_noteOn(dev, 2, 64, 100);
    {
        unsigned port = (g_c % 6) < 3 ? 0 : 1, cc = (g_c % 6) % 3;
        std::printf("3) CC7=0, carrier (reg %02X) writes in order:", 0x4C + cc);
        for(size_t i = 0; i < g_log.size(); ++i)
            if(g_log[i].chip == unsigned(g_c / 6) && g_log[i].port == port && g_log[i].addr == 0x4C + cc)
                std::printf(" %u", g_log[i].data);
        std::printf("\n");
    }
    opn2_close(dev);
    return 0;
}
