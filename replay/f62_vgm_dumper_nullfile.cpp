#include <opnmidi.h>
#include <cstdio>
extern "C" void opn2_set_vgm_out_path(const char *path);
int main(){ setvbuf(stdout,NULL,_IONBF,0); OPN2_MIDIPlayer*d=opn2_init(44100); opn2_set_vgm_out_path("/nonexistent-dir/out.vgm"); int r=opn2_switchEmulator(d,OPNMIDI_VGM_DUMPER); printf("switchEmulator(VGM)=%d\n",r); short b[512]; opn2_generate(d,512,b); opn2_close(d); puts("done");}
