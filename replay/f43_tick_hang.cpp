// Pre-existing (ORIGINAL code): opn2_play() never returns.
//   g++ -I/repo/include f43_tick_hang.cpp /repo/_b/libOPNMIDI.a -o pre_hang && ./pre_hang
// A 10 s watchdog reports the hang.
#include <opnmidi.h>
#include <cstdio>
#include <cstdlib>
#include <cstring>
#include <csignal>
#include <vector>
#include <stdint.h>
#include <unistd.h>
typedef std::vector<uint8_t> Bytes;
static void marker(Bytes &t, int delta, const char *s)
{
    t.push_back((uint8_t)delta); t.push_back(0xFF); t.push_back(6); t.push_back((uint8_t)strlen(s));
    while(*s) t.push_back((uint8_t)*s++);
}
static void ev(Bytes &t, uint8_t a, uint8_t b, uint8_t c, uint8_t d) { t.push_back(a); t.push_back(b); t.push_back(c); t.push_back(d); }
static void onAlarm(int)
{
    const char m[] = "HANG: opn2_play() did not return within 10 s\n";
    ssize_t r = write(1, m, sizeof(m) - 1); (void)r;
    _exit(1);
}
int main(int argc, char **argv)
{
    double tempo = argc > 1 ? atof(argv[1]) : 0.5;
    OPN2_MIDIPlayer *p = opn2_init(44100);
    opn2_openBankFile(p, "/repo/fm_banks/gm.wopn");
    Bytes t;
    ev(t, 0, 0x90, 60, 100); ev(t, 48, 0x80, 60, 0);
    marker(t, 0, "loopStart=0"); marker(t, 0, "loopEnd=0");   // loop begin and end in the same row
    ev(t, 10, 0x90, 64, 100); ev(t, 10, 0x80, 64, 0);
    marker(t, 10, "loopStart=0"); marker(t, 10, "loopEnd=0"); // a later, well-formed loop keeps the loop data "valid"
    ev(t, 10, 0x90, 62, 100); ev(t, 10, 0x80, 62, 0);
    t.push_back(0); t.push_back(0xFF); t.push_back(0x2F); t.push_back(0);
    const uint8_t h[] = {'M','T','h','d',0,0,0,6,0,0,0,1,0,96,'M','T','r','k',0,0,0,(uint8_t)t.size()};
    Bytes f(h, h + sizeof(h)); f.insert(f.end(), t.begin(), t.end());
    opn2_setLoopEnabled(p, 1);
    std::printf("open=%d (%u bytes)\n", opn2_openData(p, &f[0], (unsigned long)f.size()), (unsigned)f.size());
    opn2_setTempo(p, tempo);
    std::signal(SIGALRM, onAlarm);
    alarm(10);
    short buf[8192];
    for(int i = 0; i < 40; i++)
    {
        int n = opn2_play(p, 8192, buf);
        std::printf("i=%d n=%d tell=%f\n", i, n, opn2_positionTell(p)); std::fflush(stdout);
    }
    opn2_close(p);
    std::printf("finished\n");
    return 0;
}
