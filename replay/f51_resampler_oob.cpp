// Pre-existing check (ASan): MAME YM2608 at PCM rate with a very high sample rate: PSG LinearResampler reads past the source buffer.
#include <opnmidi.h>
#include <cstdio>
#include <cstdlib>
#include <vector>
int main(int argc, char **argv)
{
    long rate = argc > 1 ? std::atol(argv[1]) : 499200;
    OPN2_MIDIPlayer *p = opn2_init(rate);
    opn2_setNumChips(p, 1);
    opn2_switchEmulator(p, OPNMIDI_EMU_MAME_2608);
    opn2_openBankFile(p, "/repo/fm_banks/xg.wopn");
    opn2_setRunAtPcmRate(p, 1);
    std::vector<short> out(2 * 1024);
    opn2_generate(p, (int)out.size(), out.data());
    long nz = 0; for(size_t i = 0; i < out.size(); ++i) nz += out[i] != 0;
    std::printf("rate %ld: non-zero samples in silence: %ld\n", rate, nz);
    for(size_t i = 500; i < 520; ++i) std::printf("%d ", out[i]);
    std::printf("\n");
    opn2_close(p);
    return 0;
}
