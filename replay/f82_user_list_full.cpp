#define main dt_main
#include "f82_c04_invariant_checker.inc.cpp"
#undef main
int main(int, char **argv)
{
    Rng rng(1);
    OPN2_MIDIPlayer *dev = makeDevice(rng, argv[1], 1*0+6, 1); // caseNo 6: gm.wopn, arpeggio on
    opn2_setAutoArpeggio(dev, 1);
    for(int ch = 0; ch < 16; ++ch) if(ch != 9) opn2_rt_patchChange(dev, ch, 0);
    unsigned long before = g_violations;
    for(int ch = 0; ch < 16; ++ch)
    {
        if(ch == 9) continue;
        for(int k = 0; k < 127; ++k)
        {
            opn2_rt_noteOn(dev, ch, k, 100);
            after(dev);
            if(g_violations != before) { fprintf(stderr, "first violation at ch %d key %d\n", ch, k); before = g_violations; goto out; }
        }
    }
out:
    {
        OPNMIDIplay *p = reinterpret_cast<OPNMIDIplay *>(dev->opn2_midiPlayer);
        for(size_t c = 0; c < p->m_chipChannels.size(); ++c) fprintf(stderr, "chip %lu users %lu\n", (unsigned long)c, (unsigned long)p->m_chipChannels[c].users.size());
    }
    // now release everything and look again
    for(int ch = 0; ch < 16; ++ch) for(int k = 0; k < 128; ++k) opn2_rt_noteOff(dev, ch, k);
    after(dev);
    fprintf(stderr, "violations total %lu\n", g_violations);
    opn2_close(dev);
    return 0;
}
