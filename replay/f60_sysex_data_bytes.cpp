// F60: SysEx strings with a data byte >= 0x80 were accepted (the handlers mask with 0x7F)
#include <opnmidi.h>
#include <cstdio>
int main()
{
    OPN2_MIDIPlayer *d = opn2_init(44100);
    const unsigned char gm_bad[]  = {0xF0, 0x7E, 0x7F, 0x89, 0x81, 0xF7};
    const unsigned char gm_good[] = {0xF0, 0x7E, 0x7F, 0x09, 0x01, 0xF7};
    const unsigned char mv_bad[]  = {0xF0, 0x7F, 0x7F, 0x84, 0x81, 0xFF, 0xA0, 0xF7};
    int a = opn2_rt_systemExclusive(d, gm_bad, sizeof(gm_bad));
    int b = opn2_rt_systemExclusive(d, mv_bad, sizeof(mv_bad));
    int c = opn2_rt_systemExclusive(d, gm_good, sizeof(gm_good));
    std::printf("malformed GM on -> %d, malformed master volume -> %d, well-formed GM on -> %d\n", a, b, c);
    bool ok = a == 0 && b == 0 && c == 1;
    std::printf(ok ? "PASS\n" : "FAIL: a SysEx string with status bytes inside was accepted\n");
    opn2_close(d);
    return ok ? 0 : 1;
}
