#include <opnmidi.h>
#include <cstdio>
#include <cstring>
#include <climits>
#include <vector>
static std::vector<unsigned char> makeBank(unsigned char flags)
{
    std::vector<unsigned char> b;
    const char magic[11] = {'W','O','P','N','2','-','B','2','N','K','\0'};
    b.insert(b.end(), magic, magic + 11);
    b.push_back(2); b.push_back(0);
    b.push_back(0); b.push_back(1);
    b.push_back(0); b.push_back(1);
    b.push_back(flags);
    b.resize(b.size() + 2 * 34, 0);
    b.resize(b.size() + 2 * 128 * 69, 0);
    return b;
}
static const unsigned char s_midi[] =
{
    'M','T','h','d', 0,0,0,6, 0,0, 0,1, 0,96,
    'M','T','r','k', 0,0,0,13,
    0x00, 0x90, 0x3C, 0x64,
    0x83, 0x00, 0x80, 0x3C, 0x00,
    0x00, 0xFF, 0x2F, 0x00
};
static int g_notes = 0;
static void noteHook(void *, int, int, int, int vol, double) { if(vol > 0) ++g_notes; }
static long render(OPN2_MIDIPlayer *dev, double seconds)
{
    short buf[2048]; long want = (long)(seconds * 44100.0), got = 0;
    while(got < want) { int n = opn2_play(dev, 2048, buf); if(n <= 0) break; got += n / 2; }
    return got;
}
int main()
{
    std::vector<unsigned char> bank = makeBank(0x0B);
    {
        OPN2_MIDIPlayer *d = opn2_init(44100);
        opn2_openBankData(d, bank.data(), bank.size());
        printf("setNumChips(4)=%d\n", opn2_setNumChips(d, 4));
        printf("  get=%d obtained=%d\n", opn2_getNumChips(d), opn2_getNumChipsObtained(d));
        printf("switch VGM=%d emu=%s\n", opn2_switchEmulator(d, OPNMIDI_VGM_DUMPER), opn2_chipEmulatorName(d));
        printf("  get=%d obtained=%d\n", opn2_getNumChips(d), opn2_getNumChipsObtained(d));
        printf("switch MAME=%d emu=%s\n", opn2_switchEmulator(d, OPNMIDI_EMU_MAME), opn2_chipEmulatorName(d));
        printf("  get=%d obtained=%d\n", opn2_getNumChips(d), opn2_getNumChipsObtained(d));
        opn2_reset(d);
        printf("  after reset get=%d obtained=%d\n", opn2_getNumChips(d), opn2_getNumChipsObtained(d));
        opn2_close(d);
    }
    {
        // loopHooksOnly after VGM round trip
        for(int vgm = 0; vgm < 2; ++vgm)
        {
            OPN2_MIDIPlayer *d = opn2_init(44100);
            opn2_openBankData(d, bank.data(), bank.size());
            opn2_setLoopEnabled(d, 1);
            if(vgm) { opn2_switchEmulator(d, OPNMIDI_VGM_DUMPER); opn2_switchEmulator(d, OPNMIDI_EMU_MAME); }
            opn2_openData(d, s_midi, sizeof(s_midi));
            long f = render(d, 10.0);
            printf("vgm roundtrip=%d: loop enabled, rendered %.2f s atEnd=%d\n", vgm, f / 44100.0, opn2_atEnd(d));
            opn2_close(d);
        }
    }
    {
        // channel enable across file load
        OPN2_MIDIPlayer *d = opn2_init(44100);
        opn2_openBankData(d, bank.data(), bank.size());
        opn2_setNoteHook(d, noteHook, NULL);
        opn2_openData(d, s_midi, sizeof(s_midi));
        printf("setChannelEnabled(0,0)=%d\n", opn2_setChannelEnabled(d, 0, 0));
        g_notes = 0; render(d, 1.0); printf("  notes after mute: %d\n", g_notes);
        opn2_openData(d, s_midi, sizeof(s_midi));
        g_notes = 0; render(d, 1.0); printf("  notes after mute + reload: %d\n", g_notes);
        printf("setChannelEnabled(16,0)=%d (256)=%d\n", opn2_setChannelEnabled(d, 16, 0), opn2_setChannelEnabled(d, 256, 0));
        printf("setTrackOptions(1,Off)=%d  (0,Off)=%d\n", opn2_setTrackOptions(d, 1, OPNMIDI_TrackOption_Off), opn2_setTrackOptions(d, 0, OPNMIDI_TrackOption_Off));
        opn2_close(d);
    }
    {
        OPN2_MIDIPlayer *d = opn2_init(44100);
        opn2_openBankData(d, bank.data(), bank.size());
        opn2_setLfoFrequency(d, 300); printf("lfoFreq(300) -> %d\n", opn2_getLfoFrequency(d));
        opn2_setLfoFrequency(d, 9); printf("lfoFreq(9) -> %d\n", opn2_getLfoFrequency(d));
        opn2_setLfoEnabled(d, 7); printf("lfoEnabled(7) -> %d\n", opn2_getLfoEnabled(d));
        opn2_setVolumeRangeModel(d, OPNMIDI_VolumeModel_DMX); printf("vol DMX -> %d\n", opn2_getVolumeRangeModel(d));
        opn2_setVolumeRangeModel(d, 100); printf("vol 100 -> %d\n", opn2_getVolumeRangeModel(d));
        opn2_openData(d, s_midi, sizeof(s_midi)); printf("  after load -> %d\n", opn2_getVolumeRangeModel(d));
        opn2_setVolumeRangeModel(d, INT_MIN); printf("vol INT_MIN -> %d\n", opn2_getVolumeRangeModel(d));
        opn2_setChipType(d, 1); printf("chipType(1) -> %d\n", opn2_getChipType(d));
        opn2_setChipType(d, 5); printf("chipType(5) -> %d\n", opn2_getChipType(d));
        opn2_setChipType(d, INT_MAX); printf("chipType(INT_MAX) -> %d\n", opn2_getChipType(d));
        opn2_setChipType(d, -1); printf("chipType(-1) -> %d\n", opn2_getChipType(d));
        opn2_setChannelAllocMode(d, 2); printf("alloc(2) -> %d\n", opn2_getChannelAllocMode(d));
        opn2_openBankData(d, bank.data(), bank.size()); printf("  alloc after bank -> %d\n", opn2_getChannelAllocMode(d));
        printf("switchEmu(-1)=%d (%s) (10)=%d (INT_MAX)=%d (INT_MIN)=%d\n", opn2_switchEmulator(d, -1), opn2_errorInfo(d), opn2_switchEmulator(d, 10), opn2_switchEmulator(d, INT_MAX), opn2_switchEmulator(d, INT_MIN));
        printf("openData(NULL,0)=%d err='%s'\n", opn2_openData(d, NULL, 0), opn2_errorInfo(d));
        printf("openBankData(NULL,0)=%d err='%s'\n", opn2_openBankData(d, NULL, 0), opn2_errorInfo(d));
        unsigned char junk[40] = {1,2,3};
        printf("openBankData(junk)=%d err='%s'\n", opn2_openBankData(d, junk, 40), opn2_errorInfo(d));
        printf("  lfo after rejected bank: %d\n", opn2_getLfoFrequency(d));
        printf("setDeviceIdentifier(16)=%d (15)=%d (UINT_MAX)=%d\n", opn2_setDeviceIdentifier(d, 16), opn2_setDeviceIdentifier(d, 15), opn2_setDeviceIdentifier(d, UINT_MAX));
        opn2_close(d);
    }
    return 0;
}
