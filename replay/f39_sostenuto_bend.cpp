// F39 replay: a key that is down while the sostenuto pedal is pressed no longer follows the pitch wheel
#include <opnmidi.h>
#include <stdio.h>
static int repitched=0; static double lastbend=0;
static void hook(void*,int c,int note,int ins,int pressure,double bend){ if(pressure>0){ repitched++; lastbend=bend; } }
int main(){ OPN2_MIDIPlayer*d=opn2_init(44100); opn2_openBankFile(d,"/repo/fm_banks/xg.wopn"); opn2_setNoteHook(d,hook,0);
  opn2_rt_noteOn(d,0,60,100);
  repitched=0; opn2_rt_pitchBend(d,0,8192+2048); int a=repitched; double ba=lastbend;
  opn2_rt_controllerChange(d,0,66,127);                      // sostenuto pressed, key still down
  repitched=0; opn2_rt_pitchBend(d,0,8192+4096); int b=repitched; double bb=lastbend;
  printf("bend without sostenuto: %d re-pitch(es), bend %.3f; with sostenuto pressed: %d re-pitch(es), bend %.3f\n",a,ba,b,bb);
  opn2_close(d); if(a>=1 && b>=1){ printf("PASS\n"); return 0;} printf("FAIL: the held key ignores the pitch wheel while sostenuto is down\n"); return 1; }
