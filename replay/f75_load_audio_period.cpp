// Reproducer for the observations of PREEXISTING.md (unchanged library).
// Build: g++ -std=c++11 -I/repo/include preexisting.cpp /repo/_b/libOPNMIDI.a -o preexisting
#include <opnmidi.h>
#include <cstdio>
#include <cstdlib>
#include <vector>
#include <initializer_list>

typedef std::vector<unsigned char> Bytes;
static void be32(Bytes &b, unsigned v) { b.push_back(v >> 24); b.push_back(v >> 16); b.push_back(v >> 8); b.push_back(v); }
static void be16(Bytes &b, unsigned v) { b.push_back(v >> 8); b.push_back(v); }
static void vlq(Bytes &b, unsigned v) { unsigned char t[5]; int n = 0; t[n++] = v & 0x7F; while(v >>= 7) t[n++] = 0x80 | (v & 0x7F); while(n) b.push_back(t[--n]); }
static void ev(Bytes &t, unsigned d, std::initializer_list<int> l) { vlq(t, d); for(int x : l) t.push_back((unsigned char)x); }
static Bytes smf(unsigned fmt, unsigned div, const std::vector<Bytes> &trk)
{
    Bytes f; const char *h = "MThd"; f.insert(f.end(), h, h + 4); be32(f, 6); be16(f, fmt); be16(f, (unsigned)trk.size()); be16(f, div);
    for(size_t i = 0; i < trk.size(); ++i) { const char *m = "MTrk"; f.insert(f.end(), m, m + 4); be32(f, (unsigned)trk[i].size()); f.insert(f.end(), trk[i].begin(), trk[i].end()); }
    return f;
}
struct Rec { double t; int type, sub; };
static std::vector<Rec> g; static double now = 0;
static void hook(void *, OPN2_UInt8 type, OPN2_UInt8 sub, OPN2_UInt8, const OPN2_UInt8 *, size_t) { Rec r = {now, type, sub}; g.push_back(r); }
static OPN2_MIDIPlayer *mk(const Bytes &f)
{
    OPN2_MIDIPlayer *p = opn2_init(44100);
    if(opn2_openBankFile(p, "/repo/fm_banks/xg.wopn") < 0) { std::printf("bank\n"); std::exit(3); }
    opn2_setNumChips(p, 1);
    if(opn2_openData(p, f.data(), (unsigned long)f.size()) < 0) { std::printf("load\n"); std::exit(3); }
    opn2_setRawEventHook(p, hook, NULL); g.clear(); now = 0;
    return p;
}
static int firstNonZero(const short *b, int frames) { for(int i = 0; i < frames; ++i) if(b[2 * i] || b[2 * i + 1]) return i; return -1; }

int main()
{
    // P1: lone End-of-Track on track 1, tempo change of track 0 inside the skipped silence
    {
        std::vector<Bytes> tr(2);
        ev(tr[0], 0, {0xFF, 0x51, 3, 0x07, 0xA1, 0x20}); ev(tr[0], 500, {0xFF, 0x51, 3, 0x03, 0xD0, 0x90}); ev(tr[0], 0, {0xFF, 0x2F, 0});
        ev(tr[1], 0, {0x90, 60, 100}); ev(tr[1], 100, {0x80, 60, 0}); ev(tr[1], 900, {0xFF, 0x2F, 0});
        OPN2_MIDIPlayer *p = mk(smf(1, 100, tr));
        double len = opn2_totalTimeLength(p), last = 0;
        while(!opn2_atEnd(p)) { opn2_tickEvents(p, 0.001, 0.001); now += 0.001; }
        for(size_t i = 0; i < g.size(); ++i) last = g[i].t;
        std::printf("P1: last event delivered at %.3f s, reported length %.3f s (expected %.3f)\n", last, len, 2.5 + 1.0);
        opn2_close(p);
    }
    // P2: file B loaded after file A was partly rendered through opn2_play
    {
        std::vector<Bytes> a(1), b(1);
        ev(a[0], 0, {0xC0, 0}); ev(a[0], 4000, {0x80, 60, 0}); ev(a[0], 0, {0xFF, 0x2F, 0});
        ev(b[0], 0, {0x90, 70, 127}); ev(b[0], 2000, {0x80, 70, 0}); ev(b[0], 0, {0xFF, 0x2F, 0});
        Bytes fa = smf(0, 1000, a), fb = smf(0, 1000, b);
        static short buf[2 * 4096];
        for(int pre = 0; pre <= 100; pre += 100)
        {
            OPN2_MIDIPlayer *p = mk(fa);
            if(pre) opn2_play(p, 2 * pre, buf);
            opn2_openData(p, fb.data(), (unsigned long)fb.size());
            opn2_play(p, 2 * 4096, buf);
            std::printf("P2: %d frames of A rendered before B is loaded: B's first note sounds from frame %d of the first request\n", pre, firstNonZero(buf, 4096));
            opn2_close(p);
        }
    }
    // P3: tempo multiplier changed during audio-driven playback (1-frame requests)
    {
        std::vector<Bytes> tr(1);
        ev(tr[0], 0, {0x90, 60, 100}); ev(tr[0], 4000, {0x80, 60, 0}); ev(tr[0], 0, {0xFF, 0x2F, 0});
        Bytes f = smf(0, 1000, tr);
        const double m0s[] = {0.5, 2.0, 4.0}, m1s[] = {1.0, 0.5, 0.25}; const long sws[] = {66150, 22050, 11300};
        for(int k = 0; k < 3; ++k)
        {
            OPN2_MIDIPlayer *p = mk(f); opn2_setTempo(p, m0s[k]);
            short buf[4]; long frames = 0; bool sw = false;
            for(;;)
            {
                if(!sw && frames >= sws[k]) { opn2_setTempo(p, m1s[k]); sw = true; }
                now = (double)frames; int got = opn2_play(p, 2, buf); if(got <= 0) break; frames += got / 2;
            }
            double e = sws[k] + (2.0 - sws[k] / 44100.0 * m0s[k]) / m1s[k] * 44100.0;
            for(size_t i = 0; i < g.size(); ++i)
                if(g[i].type == 0x08)
                    std::printf("P3: x%g -> x%g at frame %ld: note-off at frame %.0f, expected %.0f (%+.0f frames)\n", m0s[k], m1s[k], sws[k], g[i].t, e, g[i].t - e);
            opn2_close(p);
        }
    }
    return 0;
}
