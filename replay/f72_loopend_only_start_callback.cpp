// F72: a song with only a loopEnd marker loops from its begin; the loop-start callback fires once per pass
#include <opnmidi.h>
#include <cstdio>
#include <string>
#include <vector>
static std::string g_log;
static void onS(void *) { g_log += "S "; }
static void onE(void *) { g_log += "E "; }
static void note(void *, int, int n, int, int p, double) { if(p > 0) g_log += "N" + std::to_string(n) + " "; }
int main()
{
    std::vector<unsigned char> t;
    auto ev = [&](std::initializer_list<int> l){ for(int x : l) t.push_back((unsigned char)x); };
    ev({0x00,0x90,60,100}); ev({0x60,0x80,60,0}); ev({0x00,0x90,61,100}); ev({0x60,0x80,61,0});
    ev({0x00,0xFF,0x06,7,'l','o','o','p','E','n','d'});
    ev({0x00,0x90,62,100}); ev({0x60,0x80,62,0}); ev({0x00,0xFF,0x2F,0x00});
    std::vector<unsigned char> f = {'M','T','h','d',0,0,0,6,0,0,0,1,0,96,'M','T','r','k',0,0,0,(unsigned char)t.size()};
    f.insert(f.end(), t.begin(), t.end());
    OPN2_MIDIPlayer *d = opn2_init(44100);
    opn2_openBankFile(d, "/repo/fm_banks/gm.wopn");
    opn2_setLoopEnabled(d, 1); opn2_setLoopCount(d, 3);
    opn2_setLoopStartHook(d, onS, NULL); opn2_setLoopEndHook(d, onE, NULL); opn2_setNoteHook(d, note, NULL);
    if(opn2_openData(d, f.data(), f.size()) < 0) { std::printf("midi? %s\n", opn2_errorInfo(d)); return 2; }
    double w = 0; int guard = 0;
    while(!opn2_atEnd(d) && guard++ < 100000) w = opn2_tickEvents(d, w, 1e-9);
    std::printf("%s\n", g_log.c_str());
    int s = 0; for(size_t i = 0; i + 1 < g_log.size(); ++i) if(g_log[i] == 'S' && g_log[i+1] == ' ') ++s;
    bool ok = s == 3;
    std::printf(ok ? "PASS\n" : "FAIL: %d loop-start callbacks for 3 passes\n", s);
    opn2_close(d);
    return ok ? 0 : 1;
}
