// F37 replay: the tempo in force before the first Set Tempo event is not restored by a backward seek / rewind
#include <opnmidi.h>
#include <stdio.h>
#include <vector>
static double now=0; static std::vector<double> ons;
static void hook(void*,int c,int note,int ins,int pressure,double){ if(pressure>0) ons.push_back(now); }
static void vlq(std::vector<unsigned char>&v, unsigned x){ unsigned char b[4]; int n=0; do{ b[n++]=x&0x7F; x>>=7; }while(x); while(n--) v.push_back(b[n] | (n?0x80:0)); }
int main(){
  std::vector<unsigned char> t;   // division 480, default 120 bpm: 960 ticks = 1 s
  vlq(t,480); t.insert(t.end(),{0x90,60,100}); vlq(t,240); t.insert(t.end(),{0x80,60,0});      // note at 0.5 s
  vlq(t,240); t.insert(t.end(),{0xFF,0x51,0x03,0x0F,0x42,0x40});                               // at 1.0 s: tempo 1000000 us/quarter (half speed)
  vlq(t,480); t.insert(t.end(),{0x90,62,100}); vlq(t,240); t.insert(t.end(),{0x80,62,0});      // note at 2.0 s
  vlq(t,480); t.insert(t.end(),{0xFF,0x2F,0x00});
  std::vector<unsigned char> f={'M','T','h','d',0,0,0,6,0,0,0,1,0x01,0xE0,'M','T','r','k',0,0,(unsigned char)(t.size()>>8),(unsigned char)t.size()};
  f.insert(f.end(),t.begin(),t.end());
  OPN2_MIDIPlayer*d=opn2_init(44100); opn2_openBankFile(d,"/repo/fm_banks/xg.wopn"); opn2_setNoteHook(d,hook,0);
  if(opn2_openData(d,f.data(),f.size())<0){ printf("load: %s\n",opn2_errorInfo(d)); return 2; }
  for(int i=0;i<2500;i++){ now=i*0.001; opn2_tickEvents(d,0.001,0.0001);}              // play 2.5 s
  printf("first pass note-ons at %.2f and %.2f s\n", ons.size()>0?ons[0]:-1, ons.size()>1?ons[1]:-1);
  ons.clear(); opn2_positionSeek(d,0.1);
  for(int i=0;i<1500;i++){ now=0.1+i*0.001; opn2_tickEvents(d,0.001,0.0001);}
  double t1 = ons.empty()? -1 : ons[0];
  printf("after seeking back to 0.10 s the first note arrives at song time %.2f s (linear playback: 0.50)\n", t1);
  opn2_close(d); if(t1>0.45 && t1<0.55){ printf("PASS\n"); return 0;} printf("FAIL\n"); return 1; }
