// F42 replay: opn2_positionRewind keeps the pending delay of the audio path: the first events after a rewind come late
#include <opnmidi.h>
#include <stdio.h>
#include <vector>
static long frames=0; static long first_on=-1;
static void hook(void*,int c,int note,int ins,int pressure,double){ if(pressure>0 && first_on<0) first_on=frames; }
static void vlq(std::vector<unsigned char>&v, unsigned x){ unsigned char b[4]; int n=0; do{ b[n++]=x&0x7F; x>>=7; }while(x); while(n--) v.push_back(b[n] | (n?0x80:0)); }
int main(){ std::vector<unsigned char> t; vlq(t,0); t.insert(t.end(),{0x90,60,100}); vlq(t,96); t.insert(t.end(),{0x80,60,0}); vlq(t,960*3); t.insert(t.end(),{0x90,62,100}); vlq(t,96); t.insert(t.end(),{0x80,62,0}); vlq(t,0); t.insert(t.end(),{0xFF,0x2F,0});
  std::vector<unsigned char> f={'M','T','h','d',0,0,0,6,0,0,0,1,0x01,0xE0,'M','T','r','k',0,0,(unsigned char)(t.size()>>8),(unsigned char)t.size()}; f.insert(f.end(),t.begin(),t.end());
  OPN2_MIDIPlayer*d=opn2_init(44100); opn2_openBankFile(d,"/repo/fm_banks/xg.wopn"); opn2_setNoteHook(d,hook,0); opn2_openData(d,f.data(),f.size());
  short buf[256]; for(int i=0;i<40;i++){ opn2_play(d,200,buf); }            // 4000 frames: 416 frames into a 512-frame period
  first_on=-1; frames=0; opn2_positionRewind(d);
  for(int i=0;i<100 && first_on<0;i++){ opn2_play(d,20,buf); if(first_on<0) frames+=10; }
  printf("first note-on %ld frames after the rewind (it is due at frame 0)\n", first_on);
  opn2_close(d); if(first_on>=0 && first_on<=0){ printf("PASS\n"); return 0;} printf("FAIL\n"); return 1; }
