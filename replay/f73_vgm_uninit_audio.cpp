// F73: with the VGM dumper as emulator the second chip (and a dumper without a file) returned from nativeGenerateN before
// clearing the block: the buffered chip base handed uninitialised heap memory out as audio.
#include <opnmidi.h>
#include <cstdio>
#include <cstdlib>
#include <cstring>
#include <vector>
static long run()
{
    OPN2_MIDIPlayer *d = opn2_init(44100);
    opn2_setNumChips(d, 2);
    opn2_openBankFile(d, "/repo/fm_banks/gm.wopn");
    if(opn2_switchEmulator(d, OPNMIDI_VGM_DUMPER) < 0) { std::printf("no VGM dumper in this build\n"); opn2_close(d); return -1; }
    std::vector<short> out(8192);
    opn2_generate(d, (int)out.size(), out.data());
    long nz = 0; for(short s : out) nz += s != 0;
    opn2_close(d);
    return nz;
}
int main()
{
    // dirty the heap so that recycled blocks are not zero
    for(int i = 0; i < 64; ++i) { void *p = std::malloc(1500 + i * 16); std::memset(p, 0x5A, 1500 + i * 16); std::free(p); }
    long a = run();
    for(int i = 0; i < 64; ++i) { void *p = std::malloc(1000 + i * 24); std::memset(p, 0x37, 1000 + i * 24); std::free(p); }
    long b = run();
    std::printf("non-zero samples of a silent VGM-dumper session: %ld, %ld\n", a, b);
    bool ok = a <= 0 && b <= 0;
    std::printf(ok ? "PASS\n" : "FAIL: uninitialised memory in the audio\n");
    return ok ? 0 : 1;
}
