// F35 replay: program (and bank) of a channel survive the state reset of a backward seek
#include <opnmidi.h>
#include <stdio.h>
#include <vector>
static std::vector<int> ins_seen;
static void hook(void*,int c,int note,int ins,int pressure,double){ if(pressure>0){ ins_seen.push_back(ins); } }
static void vlq(std::vector<unsigned char>&v, unsigned x){ unsigned char b[4]; int n=0; do{ b[n++]=x&0x7F; x>>=7; }while(x); while(n--) v.push_back(b[n] | (n?0x80:0)); }
int main(){
  std::vector<unsigned char> t;   // division 480, tempo default 120 bpm: 960 ticks = 1 s
  vlq(t,240); t.insert(t.end(),{0x90,60,100}); vlq(t,240); t.insert(t.end(),{0x80,60,0});     // note at 0.25 s .. 0.5 s
  vlq(t,480); t.insert(t.end(),{0xC0,40});                                                    // program change at 1.0 s
  vlq(t,480); t.insert(t.end(),{0x90,62,100}); vlq(t,240); t.insert(t.end(),{0x80,62,0});     // note at 1.5 s
  vlq(t,960); t.insert(t.end(),{0xFF,0x2F,0x00});
  std::vector<unsigned char> f={'M','T','h','d',0,0,0,6,0,0,0,1,0x01,0xE0,'M','T','r','k',0,0,(unsigned char)(t.size()>>8),(unsigned char)t.size()};
  f.insert(f.end(),t.begin(),t.end());
  OPN2_MIDIPlayer*d=opn2_init(44100); opn2_openBankFile(d,"/repo/fm_banks/xg.wopn"); opn2_setNoteHook(d,hook,0);
  if(opn2_openData(d,f.data(),f.size())<0){ printf("load: %s\n",opn2_errorInfo(d)); return 2; }
  for(int i=0;i<200;i++) opn2_tickEvents(d,0.01,0.001);          // play to 2.0 s
  printf("first pass: programs of the two notes: %d %d\n", ins_seen.size()>0?ins_seen[0]:-1, ins_seen.size()>1?ins_seen[1]:-1);
  ins_seen.clear(); opn2_positionSeek(d,0.1);
  for(int i=0;i<40;i++) opn2_tickEvents(d,0.01,0.001);           // 0.1 s .. 0.5 s: the first note again
  int p = ins_seen.empty()? -1 : ins_seen[0];
  printf("after seeking back to 0.1 s the first note plays program %d (linear playback: 0)\n", p);
  opn2_close(d); if(p==0){ printf("PASS\n"); return 0;} printf("FAIL\n"); return 1; }
