// F36 replay: raw meta event FF E4 00 (the internal "loop stack begin" subtype, without its count byte) in an SMF
#include <opnmidi.h>
#include <stdio.h>
#include <vector>
int main(){
  std::vector<unsigned char> t={0x00,0xFF,0xE4,0x00, 0x00,0x90,60,100, 0x60,0x80,60,0, 0x00,0xFF,0x2F,0x00};
  std::vector<unsigned char> f={'M','T','h','d',0,0,0,6,0,0,0,1,0x01,0xE0,'M','T','r','k',0,0,0,(unsigned char)t.size()};
  f.insert(f.end(),t.begin(),t.end());
  OPN2_MIDIPlayer*d=opn2_init(44100); opn2_openBankFile(d,"/repo/fm_banks/xg.wopn");
  int r=opn2_openData(d,f.data(),f.size()); printf("open=%d %s\n",r,opn2_errorInfo(d));
  for(int i=0;i<50;i++) opn2_tickEvents(d,0.01,0.001);
  opn2_close(d); printf("finished normally\n"); return 0; }
