// Pre-existing behaviour check: a sostenuto-marked key-down note is preferred over a released pedal-held note (clause 2)
#define OPNMIDI_UNSTABLE_API
#include <opnmidi.h>
#include <cstdio>
#include <cstring>
#include <vector>
#include <string>

struct Ev { int chn, note, ins, pressure; };
static std::vector<Ev> g_ev;
static void hook(void *, int chn, int note, int ins, int pressure, double)
{
    Ev e = {chn, note, ins, pressure};
    g_ev.push_back(e);
}

static void mkins(OPN2_Instrument &ins, unsigned char seed, unsigned on_ms, unsigned off_ms)
{
    memset(&ins, 0, sizeof(ins));
    ins.version = 0;
    ins.fbalg = 0x07;
    ins.lfosens = 0;
    for(int op = 0; op < 4; ++op)
    {
        ins.operators[op].dtfm_30 = 0x01;
        ins.operators[op].level_40 = (unsigned char)(0x10 + seed);
        ins.operators[op].rsatk_50 = 0x1F;
        ins.operators[op].amdecay1_60 = 0x05;
        ins.operators[op].decay2_70 = 0x02;
        ins.operators[op].susrel_80 = 0x27;
    }
    ins.delay_on_ms = (unsigned short)on_ms;
    ins.delay_off_ms = (unsigned short)off_ms;
}

static std::string chans(OPN2_MIDIPlayer *p)
{
    char s[64], a[64];
    opn2_describeChannels(p, s, a, sizeof(s));
    return s;
}

static void tick(OPN2_MIDIPlayer *p, double sec)
{
    static short buf[2048];
    long n = (long)(sec * 44100.0);
    while(n > 0)
    {
        long k = n > 1024 ? 1024 : n;
        opn2_generate(p, (int)k * 2, buf);
        n -= k;
    }
}

int main()
{
    OPN2_MIDIPlayer *p = opn2_init(44100);
    opn2_setNumChips(p, 1);
    OPN2_BankId id = {0, 0, 0};
    OPN2_Bank bank;
    if(opn2_getBank(p, &id, OPNMIDI_Bank_Create, &bank) < 0) { puts("bank fail"); return 2; }
    for(unsigned i = 0; i < 128; ++i)
    {
        OPN2_Instrument ins;
        mkins(ins, (unsigned char)i, 5000, 500);
        opn2_setInstrument(p, &bank, i, &ins);
    }
    opn2_setNoteHook(p, hook, NULL);

    // A on ch0, sostenuto-marked, key stays down
    opn2_rt_noteOn(p, 0, 40, 100);
    tick(p, 0.5);
    opn2_rt_controllerChange(p, 0, 66, 127);
    // B on ch1, pedal-held, released
    opn2_rt_noteOn(p, 1, 50, 100);
    opn2_rt_controllerChange(p, 1, 64, 127);
    opn2_rt_noteOff(p, 1, 50);
    // fill the rest with key-down notes
    for(int k = 0; k < 4; ++k)
        opn2_rt_noteOn(p, 2, (OPN2_UInt8)(60 + k), 100);
    printf("before: %s\n", chans(p).c_str());
    g_ev.clear();
    opn2_rt_noteOn(p, 3, 70, 100);
    for(size_t i = 0; i < g_ev.size(); ++i)
        printf("  hook chn=%d note=%d pressure=%d\n", g_ev[i].chn, g_ev[i].note, g_ev[i].pressure);
    printf("after:  %s\n", chans(p).c_str());
    opn2_close(p);
    return 0;
}
