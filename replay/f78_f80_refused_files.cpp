// F78 (case 2: MUS delay of five groups), F79 (case 1: play after two refused files), F80 (case 4: CMF music offset behind the end of a file on disk);
// case 3 = quadratic XMI load time (noted, not repaired). Written by the round-6 C01 sub-agent.  Usage: prog <bank.wopn> <1|2|3|4> [scratch path]
#include <stdio.h>
#include <stdlib.h>
#include <string.h>
#include <time.h>
#include <vector>
#include "opnmidi.h"
static OPN2_MIDIPlayer *dev(const char *bank)
{
    OPN2_MIDIPlayer *d = opn2_init(44100);
    opn2_switchEmulator(d, OPNMIDI_EMU_MAME);
    if(opn2_openBankFile(d, bank) != 0) { printf("bank?\n"); exit(2); }
    return d;
}
int main(int argc, char **argv)
{
    const char *bank = argv[1];
    int which = atoi(argv[2]);
    short pcm[512];
    if(which == 1)
    {
        // A: SMF whose only track ends inside a meta event -> buildSmfTrackData() fails after buildSmfSetupReset(1)
        static const unsigned char A[] = { 'M','T','h','d',0,0,0,6, 0,0, 0,1, 0,96, 'M','T','r','k',0,0,0,2, 0x00,0xFF };
        // B: anything that is refused after loadMIDI() has set m_atEnd = false (here: shorter than a header)
        static const unsigned char B[] = { 'X','X','X','X' };
        OPN2_MIDIPlayer *d = dev(bank);
        int ra = opn2_openData(d, A, sizeof(A));
        printf("load A: %d (%s)\n", ra, opn2_errorInfo(d));
        int rb = opn2_openData(d, B, sizeof(B));
        printf("load B: %d (%s)\n", rb, opn2_errorInfo(d));
        printf("atEnd=%d tracks=%u\n", opn2_atEnd(d), (unsigned)opn2_trackCount(d));
        fflush(stdout);
        printf("play: %d\n", opn2_play(d, 512, pcm));
        opn2_close(d);
    }
    else if(which == 2)
    {
        // MUS: key-on with a delay of five 7-bit groups (>= 2^28), then the end event
        static const unsigned char M[] = { 'M','U','S',0x1A, 8,0, 16,0, 1,0, 0,0, 0,0, 0,0,
                                           0x90, 0x40, 0x81, 0x80, 0x80, 0x80, 0x00, 0x60 };
        OPN2_MIDIPlayer *d = dev(bank);
        fflush(stdout);
        int rm = opn2_openData(d, M, sizeof(M));
        printf("load MUS: %d (%s)\n", rm, opn2_errorInfo(d));
        opn2_close(d);
    }
    else if(which == 4)
    {
        // CMF on disk whose music offset (0x0200) lies behind the end of the file
        unsigned char C[64]; memset(C, 0, sizeof(C));
        memcpy(C, "CTMF", 4); C[4] = 1; C[5] = 1; C[6] = 40; C[7] = 0; C[8] = 0x00; C[9] = 0x02; C[10] = 192; C[12] = 96;
        const char *path = argc > 3 ? argv[3] : "/tmp/f80_cmf.bin";
        FILE *fp = fopen(path, "wb"); fwrite(C, 1, sizeof(C), fp); fclose(fp);
        OPN2_MIDIPlayer *d = dev(bank);
        int rm = opn2_openData(d, C, sizeof(C));
        printf("load CMF from memory: %d (%s)\n", rm, opn2_errorInfo(d));
        fflush(stdout);
        rm = opn2_openFile(d, path);
        printf("load CMF from file: %d (%s)\n", rm, opn2_errorInfo(d));
        opn2_close(d);
        remove(path);
    }
    else if(which == 3)
    {
        // XMI: N note-ons at the same time with growing durations -> sorted list insertion walks O(N) each
        for(unsigned n = 4000; n <= 64000; n *= 2)
        {
            std::vector<unsigned char> ev;
            for(unsigned i = 0; i < n; ++i)
            {
                ev.push_back(0x90); ev.push_back(60); ev.push_back(100);
                unsigned v = i + 1; unsigned char tmp[5]; int k = 0; tmp[k++] = v & 0x7F; while((v >>= 7)) tmp[k++] = (v & 0x7F) | 0x80;
                while(k > 0) ev.push_back(tmp[--k]);
            }
            ev.push_back(0xFF); ev.push_back(0x2F); ev.push_back(0);
            if(ev.size() & 1) ev.push_back(0);
            std::vector<unsigned char> f;
            #define TAG(s) f.insert(f.end(), s, s + 4)
            #define BE32(x) do { unsigned q = (unsigned)(x); f.push_back(q >> 24); f.push_back(q >> 16); f.push_back(q >> 8); f.push_back(q); } while(0)
            TAG("FORM"); BE32(14); TAG("XDIR"); TAG("INFO"); BE32(2); f.push_back(1); f.push_back(0);
            TAG("CAT "); BE32(4 + 8 + 4 + 8 + ev.size()); TAG("XMID");
            TAG("FORM"); BE32(4 + 8 + ev.size()); TAG("XMID"); TAG("EVNT"); BE32(ev.size());
            f.insert(f.end(), ev.begin(), ev.end());
            OPN2_MIDIPlayer *d = dev(bank);
            clock_t t0 = clock();
            int ret = opn2_openData(d, &f[0], (unsigned long)f.size());
            double dt = (double)(clock() - t0) / CLOCKS_PER_SEC;
            printf("notes=%u bytes=%u load=%d time=%.3fs\n", n, (unsigned)f.size(), ret, dt);
            fflush(stdout);
            opn2_close(d);
        }
    }
    return 0;
}
