// F68: opn2_init(rate <= 52) followed by opn2_generate() never returned (resampler ratio rounds to 0)
#include <opnmidi.h>
#include <cstdio>
#include <unistd.h>
#include <signal.h>
static void onalarm(int){ const char m[]="FAIL: opn2_generate() did not return within 10 s\n"; write(1,m,sizeof(m)-1); _exit(1);}
int main()
{
    signal(SIGALRM, onalarm); alarm(10);
    const long rates[] = {0, 1, 52, 53};
    for(long r : rates)
    {
        OPN2_MIDIPlayer *d = opn2_init(r);
        if(!d) { std::printf("rate %ld refused\n", r); continue; }
        short buf[64]; int n = opn2_generate(d, 64, buf);
        std::printf("rate %ld: generated %d\n", r, n);
        opn2_close(d);
    }
    std::printf("PASS\n");
    return 0;
}
