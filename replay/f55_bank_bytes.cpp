// F55: 8-bit bank numbers through the real-time API (opn2_rt_bankChangeMSB / LSB / bankChange)
//   g++ -I/repo/include f55_bank_bytes.cpp <build>/libOPNMIDI.a -o f55 && ./f55
#define OPNMIDI_UNSTABLE_API
#include <opnmidi.h>
#include <cstdio>
#include <cstring>
static int g_tone = -1;
static void noteHook(void *, int, int tone, int, int, double) { if(tone >= 0) g_tone = tone; }
static void putIns(OPN2_MIDIPlayer *d, int perc, int msb, int lsb, int prog, int fixedKey)
{
    OPN2_BankId id; id.percussive = perc; id.msb = msb; id.lsb = lsb;
    OPN2_Bank b;
    if(opn2_getBank(d, &id, OPNMIDI_Bank_Create, &b) < 0) { std::printf("getBank failed\n"); return; }
    OPN2_Instrument ins; std::memset(&ins, 0, sizeof(ins));
    ins.version = OPNMIDI_InstrumentVersion;
    ins.percussion_key_number = (unsigned char)fixedKey;
    ins.fbalg = 7;
    for(int o = 0; o < 4; ++o) { ins.operators[o].rsatk_50 = 0x1F; ins.operators[o].susrel_80 = 0x0F; ins.operators[o].dtfm_30 = 1; }
    opn2_setInstrument(d, &b, prog, &ins);
}
int main()
{
    int fail = 0;
    OPN2_MIDIPlayer *d = opn2_init(44100);
    opn2_setNumChips(d, 2);
    opn2_setNoteHook(d, noteHook, NULL);
    putIns(d, 0, 0, 0, 10, 51);     // melodic 0:0 program 10 -> key 51
    putIns(d, 0, 2, 0, 10, 62);     // melodic 2:0 program 10 -> key 62
    putIns(d, 1, 3, 0, 10, 77);     // percussion msb 3 entry 10 -> key 77
    // 1) MSB 131 on a melodic channel must not read percussion bank 3
    opn2_rt_resetState(d);
    opn2_rt_bankChangeMSB(d, 0, 131); opn2_rt_patchChange(d, 0, 10);
    g_tone = -1; opn2_rt_noteOn(d, 0, 60, 100); opn2_rt_noteOff(d, 0, 60);
    std::printf("MSB 131, program 10: tone %d\n", g_tone);
    if(g_tone == 77) { std::printf("FAIL: a melodic channel with bank MSB 131 played the PERCUSSION bank 3 entry\n"); fail = 1; }
    // 2) LSB 200 under MSB 2 falls back to bank 2:0, not 0:0
    opn2_rt_resetState(d);
    opn2_rt_bankChangeMSB(d, 0, 2); opn2_rt_bankChangeLSB(d, 0, 200); opn2_rt_patchChange(d, 0, 10);
    g_tone = -1; opn2_rt_noteOn(d, 0, 60, 100); opn2_rt_noteOff(d, 0, 60);
    std::printf("MSB 2 LSB 200, program 10: tone %d\n", g_tone);
    if(g_tone != 62) { std::printf("FAIL: the LSB-cleared fallback did not reach bank 2:0 (tone %d, expected 62)\n", g_tone); fail = 1; }
    opn2_close(d);
    std::printf(fail ? "FAIL\n" : "PASS\n");
    return fail;
}
