// Reproduces the behaviours of the ORIGINAL code described in PREEXISTING.md (prints observations only).
// g++ -I/repo/include preexisting.cpp /repo/_b/libOPNMIDI.a -o preexisting && ./preexisting
// Legend: N<key> note-on delivered, S loop-start hook, E loop-end hook.  Note: case P4 writes ./kek.vgm
#include <opnmidi.h>
#include <cstdio>
#include <cstdlib>
#include <cstring>
#include <string>
#include <vector>

typedef std::vector<unsigned char> Bytes;

static void putVar(Bytes &b, unsigned v)
{
    unsigned char tmp[5]; int n = 0;
    tmp[n++] = v & 0x7F;
    while((v >>= 7)) tmp[n++] = 0x80 | (v & 0x7F);
    while(n) b.push_back(tmp[--n]);
}

struct Ev { unsigned tick; Bytes raw; };

static Ev note(unsigned tick, int ch, int key, int vel) { Ev e; e.tick = tick; e.raw.push_back(0x90 | ch); e.raw.push_back(key); e.raw.push_back(vel); return e; }
static Ev cc(unsigned tick, int ch, int c, int v) { Ev e; e.tick = tick; e.raw.push_back(0xB0 | ch); e.raw.push_back(c); e.raw.push_back(v); return e; }
static Ev marker(unsigned tick, const char *txt) { Ev e; e.tick = tick; e.raw.push_back(0xFF); e.raw.push_back(0x06); putVar(e.raw, strlen(txt)); for(const char *p = txt; *p; ++p) e.raw.push_back(*p); return e; }

static Bytes track(const std::vector<Ev> &evs, unsigned endTick)
{
    Bytes d; unsigned t = 0;
    for(size_t i = 0; i < evs.size(); i++)
    {
        putVar(d, evs[i].tick - t); t = evs[i].tick;
        d.insert(d.end(), evs[i].raw.begin(), evs[i].raw.end());
    }
    putVar(d, endTick - t); d.push_back(0xFF); d.push_back(0x2F); d.push_back(0);
    Bytes o; o.push_back('M'); o.push_back('T'); o.push_back('r'); o.push_back('k');
    o.push_back(d.size() >> 24); o.push_back(d.size() >> 16); o.push_back(d.size() >> 8); o.push_back(d.size());
    o.insert(o.end(), d.begin(), d.end());
    return o;
}

static Bytes smf(const std::vector<Bytes> &tracks, int division = 96)
{
    Bytes o; const char h[] = "MThd\0\0\0\6";
    o.insert(o.end(), h, h + 8);
    o.push_back(0); o.push_back(tracks.size() > 1 ? 1 : 0);
    o.push_back(0); o.push_back(tracks.size());
    o.push_back(division >> 8); o.push_back(division);
    for(size_t i = 0; i < tracks.size(); i++) o.insert(o.end(), tracks[i].begin(), tracks[i].end());
    return o;
}

static Bytes bank()
{
    Bytes b; const char m[] = "WOPN2-BANK";
    b.insert(b.end(), m, m + 11);
    b.push_back(0); b.push_back(1); b.push_back(0); b.push_back(1); b.push_back(0);
    b.resize(b.size() + 256 * 65, 0);
    return b;
}

struct Log
{
    std::string s; // N<key> note-on, f<key> note-off, S loop start, E loop end
    int starts, ends;
    Log() : starts(0), ends(0) {}
};

static void onRaw(void *ud, OPN2_UInt8 type, OPN2_UInt8 sub, OPN2_UInt8 ch, const OPN2_UInt8 *d, size_t len)
{
    Log *l = (Log *)ud; char buf[32];
    (void)sub; (void)ch;
    if(type == 0x9 && len >= 2) { snprintf(buf, 32, "N%d ", d[0]); l->s += buf; }
    else if(type == 0x8 && len >= 2) { snprintf(buf, 32, "f%d ", d[0]); l->s += buf; }
    else if(type == 0xB && len >= 2) { snprintf(buf, 32, "C%d=%d ", d[0], d[1]); l->s += buf; }
}
static void onLS(void *ud) { Log *l = (Log *)ud; l->s += "S "; l->starts++; }
static void onLE(void *ud) { Log *l = (Log *)ud; l->s += "E "; l->ends++; }

static bool runSong(OPN2_MIDIPlayer *p, double maxSeconds)
{
    double t = 0;
    while(!opn2_atEnd(p) && t < maxSeconds)
    {
        opn2_tickEvents(p, 0.01, 0.0001);
        t += 0.01;
    }
    return opn2_atEnd(p) != 0;
}

enum { CountAfterLoad = 1, RewindFirst = 2, ViaVgmDumper = 4, MarkerTrackOff = 8 };

static void run(const char *title, const Bytes &mid, int count, int flags, double maxSec)
{
    Bytes bk = bank();
    OPN2_MIDIPlayer *p = opn2_init(44100);
    opn2_openBankData(p, bk.data(), (long)bk.size());
    Log log;
    opn2_setLoopStartHook(p, onLS, &log); opn2_setLoopEndHook(p, onLE, &log); opn2_setRawEventHook(p, onRaw, &log);
    if(flags & ViaVgmDumper) { opn2_switchEmulator(p, OPNMIDI_VGM_DUMPER); opn2_switchEmulator(p, OPNMIDI_EMU_MAME); }
    opn2_setLoopEnabled(p, 1);
    if(!(flags & CountAfterLoad)) opn2_setLoopCount(p, count);
    opn2_openData(p, mid.data(), (unsigned long)mid.size());
    if(flags & CountAfterLoad) opn2_setLoopCount(p, count);
    if(flags & RewindFirst) opn2_positionRewind(p);
    if(flags & MarkerTrackOff) opn2_setTrackOptions(p, 1, OPNMIDI_TrackOption_Off);
    bool end = runSong(p, maxSec);
    printf("%-58s %s%s\n", title, log.s.c_str(), end ? "<END>" : "<still running>");
    opn2_close(p);
}

int main()
{
    std::vector<Ev> e; std::vector<Bytes> t;

    // P1: note-on 63 shares tick 288 with the loopEnd marker
    e.push_back(note(0, 0, 60, 100)); e.push_back(marker(96, "loopStart")); e.push_back(note(96, 0, 61, 100));
    e.push_back(note(192, 0, 62, 100)); e.push_back(marker(288, "loopEnd")); e.push_back(note(288, 0, 63, 100));
    e.push_back(note(384, 0, 64, 100));
    t.push_back(track(e, 480));
    Bytes withEnd = smf(t);
    run("P1 loopEnd@288 + note 63@288, count 2:", withEnd, 2, 0, 30);
    run("P1 same, count 1:", withEnd, 1, 0, 30);

    // P2: no markers at all
    e.clear(); t.clear();
    e.push_back(note(0, 0, 60, 100)); e.push_back(note(96, 0, 61, 100));
    t.push_back(track(e, 192));
    Bytes plain = smf(t);
    run("P2 no markers, count 3:", plain, 3, 0, 30);
    run("P2 no markers, count 3, opn2_positionRewind first:", plain, 3, RewindFirst, 30);

    // P3: loop count given after the file has been opened
    run("P3 no markers, count 2 set AFTER opn2_openData (8 s):", plain, 2, CountAfterLoad, 8);
    run("P3 same + opn2_positionRewind:", plain, 2, CountAfterLoad | RewindFirst, 8);

    // P4: VGM dumper chip selected once and left again
    e.clear(); t.clear();
    e.push_back(note(0, 0, 60, 100)); e.push_back(marker(96, "loopStart")); e.push_back(note(96, 0, 61, 100)); e.push_back(note(192, 0, 62, 100));
    t.push_back(track(e, 288));
    Bytes startOnly = smf(t);
    run("P4 loopStart@96, count 3:", startOnly, 3, 0, 30);
    run("P4 same after switchEmulator(VGM_DUMPER) and back:", startOnly, 3, ViaVgmDumper, 30);

    // P5: the markers live in a track that is switched off
    std::vector<Ev> a, b; t.clear();
    a.push_back(note(0, 0, 60, 100)); a.push_back(note(96, 0, 61, 100)); a.push_back(note(192, 0, 62, 100)); a.push_back(note(240, 0, 63, 100));
    b.push_back(marker(96, "loopStart")); b.push_back(marker(192, "loopEnd"));
    t.push_back(track(a, 288)); t.push_back(track(b, 288));
    Bytes twoTracks = smf(t);
    run("P5 markers in track 1, count 3:", twoTracks, 3, 0, 30);
    run("P5 same, track 1 switched off:", twoTracks, 3, MarkerTrackOff, 30);
    return 0;
}
