// F61: a Roland GS reset addressed to the broadcast device id 7F was rejected
#include <opnmidi.h>
#include <cstdio>
int main()
{
    OPN2_MIDIPlayer *d = opn2_init(44100);
    const unsigned char gs_bcast[] = {0xF0, 0x41, 0x7F, 0x42, 0x12, 0x40, 0x00, 0x7F, 0x00, 0x41, 0xF7};
    const unsigned char gs_dev10[] = {0xF0, 0x41, 0x10, 0x42, 0x12, 0x40, 0x00, 0x7F, 0x00, 0x41, 0xF7};
    const unsigned char gs_dev25[] = {0xF0, 0x41, 0x25, 0x42, 0x12, 0x40, 0x00, 0x7F, 0x00, 0x41, 0xF7};
    int a = opn2_rt_systemExclusive(d, gs_bcast, sizeof(gs_bcast));
    int b = opn2_rt_systemExclusive(d, gs_dev10, sizeof(gs_dev10));
    int c = opn2_rt_systemExclusive(d, gs_dev25, sizeof(gs_dev25));
    std::printf("GS reset to 7F -> %d, to 10 -> %d, to 25 (foreign) -> %d\n", a, b, c);
    bool ok = a == 1 && b == 1 && c == 0;
    std::printf(ok ? "PASS\n" : "FAIL\n");
    opn2_close(d);
    return ok ? 0 : 1;
}
