// Probe for a PRE-EXISTING defect (unmodified libOPNMIDI checkout): loop-stack underflow.
// Format-1 SMF, two tracks. Load-time loop validation walks track by track (begin seen before end => "valid"),
// playback is time-ordered, so the stack "loopend=" of track 1 (t=0) is met before the "loopstart=1" of track 0 (t=100).
// The sticky caughtStackEnd flag is then consumed together with the global "loopEnd" (t=50) while stackLevel == -1:
// processEvents() does stackDown() -> stackLevel == -2.  At t=100 handleEvent() computes
// slevel = size_t(stackLevel + 1) = SIZE_MAX and 'while(slevel >= m_loop.stack.size()) push_back(e)' never ends
// -> unbounded memory growth, finally std::bad_alloc escaping through the C API (opn2_tickEvents).
// Run under a memory cap (ulimit -v) so that it ends quickly.
#include <opnmidi.h>
#include <cstdio>
#include <string>
#include <vector>

typedef std::vector<unsigned char> Bytes;

static void vlq(Bytes &v, unsigned long x)
{
    unsigned char b[5]; int n = 0;
    b[n++] = x & 0x7F;
    while(x >>= 7) b[n++] = (x & 0x7F) | 0x80;
    while(n) v.push_back(b[--n]);
}
static void marker(Bytes &t, unsigned long delta, const std::string &s)
{
    vlq(t, delta); t.push_back(0xFF); t.push_back(0x06); vlq(t, s.size());
    t.insert(t.end(), s.begin(), s.end());
}
static void ev3(Bytes &t, unsigned long delta, int a, int b, int c)
{
    vlq(t, delta); t.push_back(a); t.push_back(b); t.push_back(c);
}
static void chunk(Bytes &f, const char *id, const Bytes &d)
{
    f.insert(f.end(), id, id + 4);
    f.push_back((d.size() >> 24) & 0xFF); f.push_back((d.size() >> 16) & 0xFF);
    f.push_back((d.size() >> 8) & 0xFF);  f.push_back(d.size() & 0xFF);
    f.insert(f.end(), d.begin(), d.end());
}

int main(int argc, char **argv)
{
    if(argc < 2) { std::fprintf(stderr, "usage: %s bank.wopn\n", argv[0]); return 2; }

    Bytes t0, t1;
    marker(t0, 10, "loopStart");            // tick 10   global loop start
    marker(t0, 40, "loopEnd");              // tick 50   global loop end
    marker(t0, 50, "loopstart=1");          // tick 100  stack loop begin, 1 pass
    ev3(t0, 10, 0x90, 60, 64);
    ev3(t0, 10, 0x80, 60, 0);
    ev3(t0, 10, 0xFF, 0x2F, 0x00);
    marker(t1, 0, "loopend=0");             // tick 0    stack loop end (other track)
    ev3(t1, 200, 0xFF, 0x2F, 0x00);

    const unsigned char hd[] = {0,1, 0,2, 0,96};   // format 1, 2 tracks, 96 PPQN
    Bytes f;
    chunk(f, "MThd", Bytes(hd, hd + 6));
    chunk(f, "MTrk", t0);
    chunk(f, "MTrk", t1);

    setvbuf(stdout, NULL, _IONBF, 0);
    OPN2_MIDIPlayer *d = opn2_init(44100);
    if(!d || opn2_openBankFile(d, argv[1]) != 0) { std::fprintf(stderr, "setup failed\n"); return 2; }
    opn2_setLoopEnabled(d, 1);

    int rc = opn2_openData(d, f.data(), (unsigned long)f.size());
    std::printf("file size %zu, load rc=%d\n", f.size(), rc);
    if(rc != 0) { std::printf("load error: %s\n", opn2_errorInfo(d)); return 0; }

    for(int i = 0; i < 200 && !opn2_atEnd(d); ++i)
    {
        std::printf("tick %d at %.2f s\n", i, opn2_positionTell(d));
        opn2_tickEvents(d, 0.05, 0.001);
    }
    std::printf("finished normally, atEnd=%d\n", opn2_atEnd(d));
    opn2_close(d);
    return 0;
}
