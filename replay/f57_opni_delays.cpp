// F57: WOPN_LoadInstFromMem left delay_on_ms / delay_off_ms of the caller's struct untouched
//   g++ -I/repo/src f57_opni_delays.cpp <build>/libOPNMIDI.a -o f57 && ./f57
#include <cstdio>
#include <cstring>
#include <vector>
extern "C" {
#include "wopn/wopn_file.h"
}
int main()
{
    OPNIFile src; std::memset(&src, 0, sizeof(src));
    src.version = 2; src.inst.fbalg = 0x22;
    size_t sz = WOPN_CalculateInstFileSize(&src, 2);
    std::vector<unsigned char> img(sz);
    if(WOPN_SaveInstToMem(&src, img.data(), sz, 2) != 0) { std::printf("save failed\n"); return 2; }
    OPNIFile a, b; std::memset(&a, 0xAA, sizeof(a)); std::memset(&b, 0x55, sizeof(b));
    int ra = WOPN_LoadInstFromMem(&a, img.data(), img.size()), rb = WOPN_LoadInstFromMem(&b, img.data(), img.size());
    std::printf("load rc %d %d; delays %u/%u and %u/%u\n", ra, rb, a.inst.delay_on_ms, a.inst.delay_off_ms, b.inst.delay_on_ms, b.inst.delay_off_ms);
    bool same = a.inst.delay_on_ms == b.inst.delay_on_ms && a.inst.delay_off_ms == b.inst.delay_off_ms;
    std::printf(same ? "PASS: the loaded instrument is a function of the file\n" : "FAIL: the loaded delays depend on what the caller's struct held before\n");
    return same ? 0 : 1;
}
