#include <opnmidi.h>
#include <cstdio>
#include <vector>
#include <unistd.h>
#include <signal.h>
static void onalarm(int){ const char m[]="TIMEOUT: opn2_play() did not return within 20 s\n"; write(1,m,sizeof(m)-1); _exit(3);}
int main(){
  std::vector<unsigned char> t;
  auto ev=[&](std::initializer_list<int> l){for(int x:l)t.push_back((unsigned char)x);};
  ev({0x00,0xFF,0x06,9,'l','o','o','p','S','t','a','r','t'});
  ev({0x30,0x90,60,100}); ev({0x60,0x80,60,0}); ev({0x00,0x90,64,100}); ev({0x60,0x80,64,0});
  ev({0x10,0xFF,0x06,7,'l','o','o','p','E','n','d'});
  ev({0x00,0xFF,0x2F,0x00});
  std::vector<unsigned char> f={'M','T','h','d',0,0,0,6,0,0,0,1,0,96,'M','T','r','k',0,0,0,(unsigned char)t.size()};
  f.insert(f.end(),t.begin(),t.end());
  setvbuf(stdout,NULL,_IONBF,0); signal(SIGALRM,onalarm); alarm(20);
  OPN2_MIDIPlayer*d=opn2_init(44100); opn2_setNumChips(d,1);
  if(opn2_openBankFile(d,"/repo/fm_banks/xg.wopn")){puts("bank?");return 2;}
  if(opn2_openData(d,f.data(),f.size())){printf("midi? %s\n",opn2_errorInfo(d));return 2;}
  opn2_setLoopEnabled(d,1);
  printf("song length %g s, loop %g..%g\n",opn2_totalTimeLength(d),opn2_loopStartTime(d),opn2_loopEndTime(d));
  double r=opn2_tickEvents(d,1e300,0.001); printf("tickEvents(10 s) returned %g, position %g\n",r,opn2_positionTell(d));
  short buf[1024]; int g=opn2_play(d,1024,buf); printf("play returned %d\n",g);
  opn2_close(d); puts("done");
}
