// F66: opn2_getBankId(dev, &bank, NULL), opn2_getFirstBank(dev, NULL), opn2_getNextBank(dev, NULL) dereferenced the NULL argument
#define OPNMIDI_UNSTABLE_API
#include <opnmidi.h>
#include <cstdio>
int main()
{
    OPN2_MIDIPlayer *d = opn2_init(44100);
    opn2_openBankFile(d, "/repo/fm_banks/gm.wopn");
    OPN2_Bank b;
    int r0 = opn2_getFirstBank(d, &b);
    int r1 = opn2_getBankId(d, &b, NULL);
    int r2 = opn2_getFirstBank(d, NULL);
    int r3 = opn2_getNextBank(d, NULL);
    std::printf("first=%d getBankId(NULL id)=%d getFirstBank(NULL)=%d getNextBank(NULL)=%d\n", r0, r1, r2, r3);
    bool ok = r0 == 0 && r1 < 0 && r2 < 0 && r3 < 0;
    std::printf(ok ? "PASS\n" : "FAIL\n");
    opn2_close(d);
    return ok ? 0 : 1;
}
