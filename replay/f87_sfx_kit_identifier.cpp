// F87 (C16 / C12): LoadBank keeps all 8 bits of the LSB of a percussion set (sets 128..255 are the XG SFX kits), but the bank API
// carried 7-bit identifiers: opn2_getBankId reported LSB & 127 and opn2_getBank refused LSB > 127.  A loaded SFX kit read back with
// the identifier of the drum kit of the same number and could not be looked up ("a lookup finds a bank exactly if it was created or
// loaded", "identifiers read back equal ..").
//   c++ -I/repo/include -I/repo/src/wopn f87_sfx_kit_identifier.cpp <build>/libOPNMIDI.a -o f87 && ./f87
// exit 0: every loaded bank is found under the identifier it reports; exit 1: not
#define OPNMIDI_UNSTABLE_API
#include <opnmidi.h>
#include <cstdio>
#include <cstring>
#include <vector>
extern "C" {
#include "wopn_file.h"
}

int main()
{
    // a version-2 bank file: one melodic bank, two percussion sets with LSB 0x05 (drum kit 5) and 0x85 (SFX kit 5)
    WOPNFile *w = WOPN_Init(1, 2);
    w->version = 2;
    w->banks_percussive[0].bank_midi_lsb = 0x05;
    w->banks_percussive[1].bank_midi_lsb = 0x85;
    for(int b = 0; b < 2; b++)
        for(int i = 0; i < 128; i++)
        {
            WOPNInstrument &ins = w->banks_percussive[b].ins[i];
            ins.delay_on_ms = 100; ins.delay_off_ms = 100;      // not blank
            ins.fbalg = (uint8_t)(b ? 0x3F : 0x07);             // tells the two sets apart
        }
    for(int i = 0; i < 128; i++) { w->banks_melodic[0].ins[i].delay_on_ms = 100; w->banks_melodic[0].ins[i].delay_off_ms = 100; }
    std::vector<unsigned char> img(WOPN_CalculateBankFileSize(w, 2));
    if(WOPN_SaveBankToMem(w, img.data(), img.size(), 2, 0) != 0) { std::puts("save failed"); return 2; }
    WOPN_Free(w);

    OPN2_MIDIPlayer *p = opn2_init(44100);
    if(opn2_openBankData(p, img.data(), (unsigned long)img.size()) != 0) { std::printf("load failed: %s\n", opn2_errorInfo(p)); return 2; }

    int bad = 0, n = 0;
    OPN2_Bank it;
    for(int rc = opn2_getFirstBank(p, &it); rc == 0; rc = opn2_getNextBank(p, &it))
    {
        OPN2_BankId id;
        opn2_getBankId(p, &it, &id);
        OPN2_Instrument a, b;
        opn2_getInstrument(p, &it, 0, &a);
        OPN2_Bank found;
        int frc = opn2_getBank(p, &id, 0, &found);
        bool same = false;
        if(frc == 0)
        {
            opn2_getInstrument(p, &found, 0, &b);
            same = a.fbalg == b.fbalg;
        }
        std::printf("bank %d: reports (perc %u, msb %u, lsb %u), fb_alg %02X -> lookup by that identifier: %s\n", n, id.percussive, id.msb, id.lsb, a.fbalg,
                    frc != 0 ? "NOT FOUND" : (same ? "this bank" : "ANOTHER BANK"));
        bad |= (frc != 0 || !same);
        n++;
    }
    opn2_close(p);
    std::puts(bad ? "VIOLATED: a loaded bank cannot be reached under the identifier it reports" : "holds");
    return bad;
}
