// F34 replay: releasing the sostenuto pedal silences a note whose key is still down
#include <opnmidi.h>
#include <stdio.h>
#include <string.h>
static int offs=0;
static void hook(void*,int c,int tone,int ins,int pressure,double){ if(pressure==0){ offs++; printf("  hook: chip ch %d keyed off\n",c);} }
static int owned(OPN2_MIDIPlayer*d){ char s[64],a[64]; opn2_describeChannels(d,s,a,64); int n=0; for(char*p=s;*p;p++) if(*p!='-') n++; printf("  channels: %s\n",s); return n; }
int main(){ OPN2_MIDIPlayer*d=opn2_init(44100); if(opn2_openBankFile(d,"/repo/fm_banks/xg.wopn")<0) return 2; opn2_setNoteHook(d,hook,0);
  opn2_rt_noteOn(d,0,60,100); printf("key down:\n"); int a=owned(d);
  opn2_rt_controllerChange(d,0,66,127); opn2_rt_controllerChange(d,0,66,0); printf("sostenuto pressed and released, key still down:\n"); int b=owned(d);
  short buf[882]; opn2_generate(d,882,buf);
  opn2_rt_noteOff(d,0,60); printf("key released:\n"); int c=owned(d);
  opn2_close(d);
  if(a>=1 && b==a && c==0 && offs==a){ printf("PASS\n"); return 0; }
  printf("FAIL: owned chip channels %d -> %d -> %d, key-off events %d\n",a,b,c,offs); return 1; }
