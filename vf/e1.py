"""E1 — byte-budget (cursor discipline) engine.

An abstract interpreter over the *structured* body of a parsing / serialising function.  The abstract state holds,
for the parse cursor, a lower bound on the number of bytes known to be available at the cursor, as a polynomial with
integer coefficients over non-negative symbols (unknown unsigned quantities such as bank counts).  Handled checks
raise the bound on the surviving edge, cursor moves lower it, every access through the cursor is an obligation
`offset + size <= bound`.  Counted loops are summarised (self-guarding body, or constant per-iteration consumption
times trip count); small constant loops are unrolled; variables that select layouts are forked over a finite set of
representatives and the engine checks that they are only ever compared against constants inside that set.
`assert` is never a check (it is not even visible: NDEBUG builds drop it, and in the -UNDEBUG view it is a call).

Two dialects:
  count   (cursor, length): `if(length < K) fail;` ... `cursor += n; length -= n;`       (WOPN reader/writer)
  pair    (ptr, end):       `if(ptr + K > end) fail;` / `ptr >= end`, `*ptr++`, `ptr += n` (SMF parser)
"""
import itertools
from .core import *
from .logic import const_of

INF = 10 ** 12


class Poly:
    __slots__ = ('t',)

    def __init__(self, t=None):
        self.t = {k: v for k, v in (t or {}).items() if v != 0}

    @staticmethod
    def const(c):
        return Poly({(): int(c)})

    @staticmethod
    def sym(name):
        return Poly({(name,): 1})

    def __add__(self, o):
        o = _p(o)
        t = dict(self.t)
        for k, v in o.t.items():
            t[k] = t.get(k, 0) + v
        return Poly(t)

    def __neg__(self):
        return Poly({k: -v for k, v in self.t.items()})

    def __sub__(self, o):
        return self + (-_p(o))

    def __mul__(self, o):
        o = _p(o)
        t = {}
        for k1, v1 in self.t.items():
            for k2, v2 in o.t.items():
                k = tuple(sorted(k1 + k2))
                t[k] = t.get(k, 0) + v1 * v2
        return Poly(t)

    def is_const(self):
        return all(k == () for k in self.t)

    def cval(self):
        return self.t.get((), 0)

    def nonneg(self):
        """provably >= 0 for all non-negative symbol values"""
        return all(v >= 0 for v in self.t.values())

    def symbols(self):
        return {s for k in self.t for s in k}

    def subst(self, name, val):
        out = Poly()
        for k, v in self.t.items():
            term = Poly.const(v)
            for s in k:
                term = term * (val if s == name else Poly.sym(s))
            out = out + term
        return out

    def __eq__(self, o):
        return isinstance(o, Poly) and self.t == o.t

    def __hash__(self):
        return hash(tuple(sorted(self.t.items())))

    def __repr__(self):
        if not self.t:
            return '0'
        parts = []
        for k, v in sorted(self.t.items()):
            if k == ():
                parts.append(str(v))
            else:
                parts.append(('%d*' % v if v != 1 else '') + '*'.join(k))
        return ' + '.join(parts)


def _p(x):
    return x if isinstance(x, Poly) else Poly.const(x)


def geq(a, b):
    return (_p(a) - _p(b)).nonneg()


class Obligation:
    """need <= have must hold, together with every (n, h) pair in `extra` (enclosing counted-loop totals)"""
    def __init__(self, fn, ln, construct, need, have, ctx, extra=None):
        self.fn, self.ln, self.construct, self.needp, self.havep, self.ctx = fn, ln, construct, need, have, ctx
        self.extra = list(extra or [])

    @property
    def ok(self):
        if self.needp is None or self.havep is None:
            return False
        return geq(self.havep, self.needp) and all(geq(h, n) for n, h in self.extra)

    @property
    def need(self):
        return 'unbounded' if self.needp is None else repr(self.needp)

    @property
    def have(self):
        s = repr(self.havep)
        for n, h in self.extra:
            s += ' [enclosing loop needs %r, has %r]' % (n, h)
        return s

    def subst(self, name, val):
        if self.needp is not None:
            self.needp = self.needp.subst(name, val)
        if self.havep is not None:
            self.havep = self.havep.subst(name, val)
        self.extra = [(n.subst(name, val), h.subst(name, val)) for n, h in self.extra]


class State:
    __slots__ = ('avail', 'env', 'ctx', 'consumed', 'inloop')

    def __init__(self, avail, env=None, ctx=None, consumed=None, inloop=0):
        self.avail = avail          # Poly: lower bound on bytes available at the cursor
        self.env = env or {}
        self.ctx = ctx or {}
        self.consumed = consumed if consumed is not None else Poly.const(0)   # bytes the cursor has advanced (None inside summarised loops)
        self.inloop = inloop

    def copy(self):
        return State(self.avail, dict(self.env), dict(self.ctx), self.consumed, self.inloop)

    def key(self):
        return (self.avail, self.consumed, tuple(sorted(((k, v) for k, v in self.env.items() if v is not None), key=repr)))


class Engine:
    def __init__(self, facts, dialect, cursor_names=None, forks=None, mem_funcs=None, max_unroll=8, fail_returns=None):
        self.facts = facts
        self.dialect = dialect                  # 'count' | 'pair'
        self.forks = forks or {}                # var name -> list of representative values
        self.obl = []
        self.fresh = itertools.count()
        self.sym_max = {}
        self.truncations = []
        self.max_unroll = max_unroll
        self.summary_cache = {}
        self.fork_compares = {}                 # var name -> set of constants it was compared with
        self.notes = []
        self.escaped = None       # set when the cursor or its budget is handed to a callee by address
        self.depth = 0
        self.on_expr = None
        self.handles = set()      # ids of pointer-to-cursor variables (`const uint8_t **pptr`): a callee receiving one moves the cursor
        self.handle_exprs = []    # predicate list: expression is the address of the cursor (`&trackPtr`)
        self.returns = []      # (return expression value or None, state) of every return reached
        self.moved_by = []
        self.overflow_prone = []
        self.cursor_deref_of = None

    # ---------------------------------------------------------------- expression evaluation
    def sym(self, hint, t=None):
        name = '%s#%d' % (hint, next(self.fresh))
        self.note_max(name, t)
        return Poly.sym(name)

    def note_max(self, name, t):
        if t and t.get('u') and t.get('w') and not t.get('p') and not t.get('f'):
            self.sym_max[name] = (1 << t['w']) - 1

    def poly_max(self, p):
        """largest value of p when every symbol ranges over its type (None: unbounded or possibly negative)"""
        if not p.nonneg():
            return None
        tot = 0
        for k, v in p.t.items():
            term = v
            for s_ in k:
                m = self.sym_max.get(s_)
                if m is None:
                    return None
                term *= m
            tot += term
        return tot

    def fit(self, p, t):
        """value of p after conversion to the integer type t: unchanged when it provably fits, otherwise an unknown value of that type
        (a sum of two 16-bit fields stored in a 16-bit variable is NOT the sum any more)"""
        if p is None or not t or not t.get('w') or t.get('p') or t.get('f') or t.get('w', 64) >= 64:
            return p
        w = t['w']
        tmax = (1 << w) - 1 if t.get('u') else (1 << (w - 1)) - 1
        if p.is_const():
            c = p.cval()
            if t.get('u'):
                return p if 0 <= c <= tmax else Poly.const(c % (1 << w))
            return p
        if not t.get('u') and w >= 32 and not p.nonneg():
            return p            # signed int arithmetic: differences stay as they are (overflow is not modelled for signed values)
        m = self.poly_max(p)
        if m is not None and m <= tmax:
            return p
        self.truncations.append(repr(p))
        return self.sym('trunc', t if t.get('u') else None)

    def ev(self, e, st):
        if e is None:
            return None
        k = e.get('k')
        if k == 'DeclRefExpr':
            key = ('v', e.get('id'))
            if key in st.env:
                return st.env[key]
            if 'c' in e:
                return Poly.const(e['c'])
            return None
        if 'c' in e and k not in ('CallExpr', 'CXXMemberCallExpr'):
            return Poly.const(e['c'])
        if k in ('BinaryOperator',):
            op = e['op']
            if op in ('+', '-', '*'):
                l, r = self.ev(e['l'], st), self.ev(e['r'], st)
                if l is None or r is None:
                    return None
                return l + r if op == '+' else (l - r if op == '-' else l * r)
            if op == '<<':
                l, r = self.ev(e['l'], st), self.ev(e['r'], st)
                if l is not None and r is not None and r.is_const() and 0 <= r.cval() < 31:
                    return l * Poly.const(1 << r.cval())
                return None
            if op in ('/', '%', '&', '|', '>>'):
                l, r = self.ev(e['l'], st), self.ev(e['r'], st)
                if l is not None and r is not None and l.is_const() and r.is_const() and r.cval() != 0:
                    a, b = l.cval(), r.cval()
                    return Poly.const({'/': a // b if a >= 0 and b > 0 else int(a / b), '%': a % b if b > 0 and a >= 0 else 0,
                                       '&': a & b, '|': a | b, '>>': a >> b if b >= 0 else 0}[op])
                return None
            return None
        if k and k.endswith('CastExpr') and 'e' in e:
            return self.fit(self.ev(e['e'], st), e.get('t'))
        if k == 'ArraySubscriptExpr':
            i = self.ev(e['i'], st)
            key = ('a', show(e['b']), repr(i) if i is not None else '?%d' % next(self.fresh))
            if key in st.env:
                return st.env[key]
            if e.get('t', {}).get('u'):
                v = self.sym(show(e['b']), e.get('t'))
                st.env[key] = v
                return v
            return None
        if k == 'MemberExpr':
            key = ('m', show(e))
            if key in st.env:
                return st.env[key]
            if e.get('t', {}).get('u'):
                v = Poly.sym(show(e))          # deterministic: the same member reads as the same symbol until it is stored to
                self.note_max(show(e), e.get('t'))
                st.env[key] = v
                return v
            return None
        if k == 'ConditionalOperator':
            c = self.cond(e['cnd'], st)
            if c is True:
                return self.ev(e['l'], st)
            if c is False:
                return self.ev(e['r'], st)
            if e.get('t', {}).get('u') or e.get('ot', {}).get('u'):
                return self.sym('sel', e.get('t'))
            return None
        if k == 'UnaryExprOrTypeTraitExpr' and 'c' in e:
            return Poly.const(e['c'])
        if 'callee' in e:
            v = self._inline_pure(e, st)
            if v is not None:
                return v
            if e.get('ot', {}).get('u') or e.get('t', {}).get('u'):
                return self.sym(short(e['callee']), e.get('t'))
            return None
        return None

    def _inline_pure(self, e, st):
        """value of a call of a repository function whose whole body is `return <expression over its parameters and constants>`
        (a helper extracted from a size computation): the expression evaluated with the arguments of this call"""
        fl = self.facts.fns.get(e.get('callee'))
        if not fl or fl[0].tree is None or not fl[0].file.startswith(build.REPO):
            return None
        cf = fl[0]
        body = cf.tree.get('body') if cf.tree.get('k') == 'CompoundStmt' else None
        if not body or len(body) != 1 or body[0].get('k') != 'ReturnStmt' or body[0].get('e') is None:
            return None
        ret = body[0]['e']
        pids = {p['id'] for p in cf.params}
        for y in walk(ret):
            if 'callee' in y or y.get('k') in ('MemberExpr', 'ArraySubscriptExpr', 'UnaryOperator'):
                return None
            if y.get('k') == 'DeclRefExpr' and y.get('id') not in pids and 'c' not in y:
                return None
        args = e.get('a') or []
        if len(args) != len(cf.params):
            return None
        s2 = State(Poly.const(0))
        for p_, a in zip(cf.params, args):
            v = self.ev(a, st)
            if v is not None:
                s2.env[('v', p_['id'])] = self.fit(v, p_.get('t'))
        return self.fit(self.ev(ret, s2), e.get('t'))

    def cond(self, c, st):
        """True / False / None"""
        c = strip(c)
        if c is None:
            return None
        k = c.get('k')
        if 'c' in c and k not in ('DeclRefExpr',):
            return bool(c['c'])
        if k == 'UnaryOperator' and c['op'] == '!':
            v = self.cond(c['e'], st)
            return None if v is None else (not v)
        if k == 'BinaryOperator':
            op = c['op']
            if op == '&&':
                l, r = self.cond(c['l'], st), self.cond(c['r'], st)
                if l is False or r is False:
                    return False
                if l is True and r is True:
                    return True
                return None
            if op == '||':
                l, r = self.cond(c['l'], st), self.cond(c['r'], st)
                if l is True or r is True:
                    return True
                if l is False and r is False:
                    return False
                return None
            if op in ('<', '>', '<=', '>=', '==', '!='):
                self._note_fork_compare(c)
                l, r = self.ev(c['l'], st), self.ev(c['r'], st)
                if l is None or r is None:
                    return None
                d = l - r
                if op == '<':
                    return True if (-d - 1).nonneg() else (False if d.nonneg() else None)
                if op == '>':
                    return True if (d - 1).nonneg() else (False if (-d).nonneg() else None)
                if op == '<=':
                    return True if (-d).nonneg() else (False if (d - 1).nonneg() else None)
                if op == '>=':
                    return True if d.nonneg() else (False if (-d - 1).nonneg() else None)
                if op == '==':
                    if d.is_const():
                        return d.cval() == 0
                    return False if ((d - 1).nonneg() or (-d - 1).nonneg()) else None
                if op == '!=':
                    if d.is_const():
                        return d.cval() != 0
                    return True if ((d - 1).nonneg() or (-d - 1).nonneg()) else None
        v = self.ev(c, st)
        if v is not None and v.is_const():
            return v.cval() != 0
        if v is not None and (v - 1).nonneg():
            return True
        return None

    def _note_fork_compare(self, c):
        for side, other in ((c['l'], c['r']), (c['r'], c['l'])):
            s = strip(side)
            if s.get('k') == 'DeclRefExpr' and short(s['n']) in self.forks:
                k = const_of(other)
                self.fork_compares.setdefault(short(s['n']), set()).add(k if k is not None else '?')

    # ---------------------------------------------------------------- dialect hooks (count dialect)
    def setup(self, fn, cursor_id, count_id=None, end_id=None):
        self.fn = fn
        self.cursor_id, self.count_id, self.end_id = cursor_id, count_id, end_id

    def is_cursor(self, e):
        e = strip(e)
        if e is None:
            return False
        if e.get('k') == 'DeclRefExpr' and e.get('id') == self.cursor_id:
            return True
        # cursor reached through a pointer-to-pointer parameter: `*pp`
        if self.cursor_deref_of is not None and e.get('k') == 'UnaryOperator' and e.get('op') == '*':
            i = strip(e['e'])
            return i.get('k') == 'DeclRefExpr' and i.get('id') == self.cursor_deref_of
        return False

    def cursor_off(self, e, st):
        """offset K (in bytes from the cursor's present position) if e is the cursor, `<such a pointer> + K`, `&<such a pointer>[K]`, or a
        pointer local that was bound to such an expression (a named view into the record: `regs = cursor + 37 + 7 * l`), else None"""
        e = strip(e)
        if e is None:
            return None
        if self.is_cursor(e):
            return Poly.const(0)
        if e.get('k') == 'DeclRefExpr' and ('alias', e.get('id')) in st.env:
            k0, c0 = st.env[('alias', e['id'])]
            if k0 is None or c0 is None or st.consumed is None:
                return None
            return k0 + c0 - st.consumed        # the cursor may have moved since the view was taken
        if e.get('k') == 'BinaryOperator' and e['op'] == '+':
            lo, ro = self.cursor_off(e['l'], st), self.cursor_off(e['r'], st)
            if lo is not None and ro is None:
                r = self.ev(e['r'], st)
                return (lo + r) if r is not None else None
            if ro is not None and lo is None:
                l = self.ev(e['l'], st)
                return (ro + l) if l is not None else None
        if e.get('k') == 'UnaryOperator' and e['op'] == '&':
            x = strip(e['e'])
            if x.get('k') == 'ArraySubscriptExpr':
                bo = self.cursor_off(x['b'], st)
                i = self.ev(x['i'], st)
                if bo is not None and i is not None:
                    return bo + i
        return None

    def record(self, ln, construct, need, st):
        self.obl.append(Obligation(self.fn.name, ln, construct, need, st.avail, dict(st.ctx)))

    MEMFUNCS = {'memcpy': (0, 1, 2), 'memcmp': (0, 1, 2), 'strncpy': (0, 1, 2), 'memmove': (0, 1, 2), 'memset': (0, None, 2),
                '__builtin_memcpy': (0, 1, 2), '__builtin_memcmp': (0, 1, 2), '__builtin_strncpy': (0, 1, 2), '__builtin_memset': (0, None, 2),
                'strncmp': (0, 1, 2), '__builtin___memcpy_chk': (0, 1, 2), '__builtin___strncpy_chk': (0, 1, 2), '__builtin___memset_chk': (0, None, 2)}

    def accesses(self, e, st):
        """record obligations for every access through the cursor inside expression e"""
        for x in walk(e):
            k = x.get('k')
            if k == 'ArraySubscriptExpr' and self.cursor_off(x['b'], st) is not None:
                i = self.ev(x['i'], st)
                bo = self.cursor_off(x['b'], st)
                self.record(x.get('ln'), show(x), (bo + i + 1) if i is not None else None, st)
            elif k == 'UnaryOperator' and x['op'] == '*':
                off = self.cursor_off(x['e'], st)
                if off is not None:
                    self.record(x.get('ln'), show(x), off + 1, st)
                else:
                    inner = strip(x['e'])
                    # *(T*)(&cursor[k]) / *(cursor++)
                    if inner.get('k') == 'UnaryOperator' and inner['op'] in ('++', '--') and self.is_cursor(inner['e']):
                        self.record(x.get('ln'), show(x), Poly.const(1), st)
            cal = short(x.get('callee', ''))
            if x.get('callee') == 'std::copy' and len(x.get('a', [])) >= 2:
                o1, o2 = self.cursor_off(x['a'][0], st), self.cursor_off(x['a'][1], st)
                if o1 is not None or o2 is not None:
                    self.record(x.get('ln'), 'std::copy(%s, %s, ..)' % (show(x['a'][0]), show(x['a'][1])), o2 if o2 is not None else None, st)
                continue
            if x.get('ctor') and 'basic_string' in x.get('callee', '') and len(x.get('a', [])) >= 2:
                src = x['a'][0]
                if mentions(src, lambda y: self.is_cursor(y)):
                    n = self.ev(x['a'][1], st)
                    self.record(x.get('ln'), 'std::string(%s, %s)' % (show(src)[:30], show(x['a'][1])), n, st)
                continue
            if cal:
                args = x.get('a', [])
                if cal in self.MEMFUNCS:
                    pa, pb, pn = self.MEMFUNCS[cal]
                    n = self.ev(args[pn], st) if pn < len(args) else None
                    for pi in (pa, pb):
                        if pi is None or pi >= len(args):
                            continue
                        off = self.cursor_off(args[pi], st)
                        if off is not None:
                            self.record(x.get('ln'), '%s(..%s.., %s)' % (cal, show(args[pi]), show(args[pn])), (off + n) if n is not None else None, st)
                else:
                    for pi, a in enumerate(args):
                        sa_ = strip(a)
                        # `f(&cursor, &length)`: the callee may move the cursor and spend the budget; this engine follows the cursor
                        # into callees by value only - whatever it would conclude afterwards is not a verdict
                        if isinstance(sa_, dict) and sa_.get('k') == 'UnaryOperator' and sa_.get('op') == '&' and \
                                (self.is_cursor(sa_['e']) or (self.count_id is not None and strip(sa_['e']).get('k') == 'DeclRefExpr' and strip(sa_['e']).get('id') == self.count_id)):
                            self.escaped = '%s at line %s' % (show(x)[:60], x.get('ln'))
                        off = self.cursor_off(a, st)
                        if off is None:
                            continue
                        need = self.callee_need(x, pi, args, st)
                        self.record(x.get('ln'), '%s(%s)' % (cal, show(a)), (off + need) if need is not None else None, st)

    def callee_need(self, call, pi, args, st):
        """bytes the callee touches through its pi-th (pointer) parameter, for the constant arguments of this call"""
        name = call.get('callee')
        fl = self.facts.fns.get(name)
        if not fl:
            self.notes.append('unknown callee %s receives the cursor' % name)
            return None
        cf = fl[0]
        consts = []
        for i, a in enumerate(args):
            v = self.ev(a, st)
            consts.append(v.cval() if (v is not None and v.is_const()) else None)
        key = (cf.name, pi, tuple(consts))
        if key in self.summary_cache:
            return self.summary_cache[key]
        if self.depth >= 2:
            return None
        sub = Engine(self.facts, self.dialect, forks={}, max_unroll=self.max_unroll)
        sub.depth = self.depth + 1
        sub.summary_cache = self.summary_cache
        sub.setup(cf, cf.params[pi]['id'])
        s0 = State(Poly.const(INF))
        for i, p in enumerate(cf.params):
            if i != pi and consts[i] is not None:
                s0.env[('v', p['id'])] = Poly.const(consts[i])
        sub.run_body(cf.tree, s0)
        need = 0
        bad = False
        for o in sub.obl:
            if o.needp is not None and o.needp.is_const():
                need = max(need, o.needp.cval())
            else:
                bad = True
        self.notes += sub.notes
        res = None if bad else Poly.const(need)
        self.summary_cache[key] = res
        return res

    # ---------------------------------------------------------------- statements
    def assign(self, x, st):
        """effects of an assignment / inc / dec expression node on the state"""
        ap = assign_parts_raw(x)
        if ap:
            tgt, rhs, op = ap
            t = strip(tgt)
            if self.is_cursor(t) and t.get('k') != 'DeclRefExpr':
                t = {'k': 'DeclRefExpr', 'id': self.cursor_id, 'n': 'cursor', 't': t.get('t', {})}
            if t.get('k') == 'DeclRefExpr':
                vid = t.get('id')
                if vid == self.cursor_id:
                    v = self.ev(rhs, st)
                    if op == '+=' and v is not None:
                        if self.dialect == 'pair':
                            self.record(x.get('ln'), show(x), v, st)       # moving the cursor past the end is itself an overrun
                        st.avail = st.avail - v if self.dialect == 'pair' else st.avail
                        if self.dialect == 'pair':
                            st.consumed = st.consumed + v
                        if self.dialect == 'count':
                            st.env[('skew',)] = st.env.get(('skew',), Poly.const(0)) + v
                    elif op == '-=' and v is not None and self.dialect == 'pair':
                        st.avail = st.avail + v
                    else:
                        st.avail = Poly.const(0)
                        self.notes.append('cursor reassigned at line %s' % x.get('ln'))
                    return
                if vid == self.count_id and self.dialect == 'count':
                    v = self.ev(rhs, st)
                    if op == '-=' and v is not None:
                        self.record(x.get('ln'), show(x), v, st)           # the unsigned remaining-length counter must not wrap
                        sk = st.env.get(('skew',), Poly.const(0))
                        # paired with the cursor move: bytes consumed = v
                        st.avail = st.avail - v
                        st.consumed = st.consumed + v
                        st.env[('skew',)] = sk - v
                    else:
                        st.avail = Poly.const(0)
                    return
                key = ('v', vid)
                if op == '=':
                    v = self.ev(rhs, st)
                    name = short(t['n'])
                    if name in self.forks and not (v is not None and v.is_const()):
                        st.env[key] = None
                        st.env[('fork',)] = (key, name)
                    elif v is not None:
                        st.env[key] = self.fit(v, t.get('t'))
                    elif t.get('t', {}).get('u'):
                        st.env[key] = self.sym(name, t.get('t'))
                    else:
                        st.env.pop(key, None)
                else:
                    cur = st.env.get(key)
                    v = self.ev(rhs, st)
                    if cur is not None and v is not None and op in ('+=', '-=', '*='):
                        st.env[key] = self.fit(cur + v if op == '+=' else (cur - v if op == '-=' else cur * v), t.get('t'))
                    else:
                        st.env.pop(key, None)
            elif t.get('k') == 'ArraySubscriptExpr':
                i = self.ev(t['i'], st)
                base = show(t['b'])
                if i is None:
                    for k2 in [k2 for k2 in st.env if k2[0] == 'a' and k2[1] == base]:
                        del st.env[k2]
                else:
                    v = self.ev(rhs, st) if op == '=' else None
                    key = ('a', base, repr(i))
                    if v is not None:
                        st.env[key] = v
                    elif t.get('t', {}).get('u'):
                        st.env[key] = self.sym(base)
                    else:
                        st.env.pop(key, None)
            elif t.get('k') == 'MemberExpr':
                st.env.pop(('m', show(t)), None)
            return
        if is_incdec(x):
            t = strip(x['e'])
            if self.is_cursor(t) and t.get('k') != 'DeclRefExpr':
                t = {'k': 'DeclRefExpr', 'id': self.cursor_id, 'n': 'cursor', 't': t.get('t', {})}
            if t.get('k') == 'DeclRefExpr':
                vid = t.get('id')
                d = 1 if x['op'] == '++' else -1
                if vid == self.cursor_id:
                    if self.dialect == 'pair':
                        st.avail = st.avail - d
                        st.consumed = st.consumed + d
                    else:
                        st.env[('skew',)] = st.env.get(('skew',), Poly.const(0)) + d
                    return
                if vid == self.count_id and self.dialect == 'count':
                    st.avail = st.avail + d
                    return
                key = ('v', vid)
                if st.env.get(key) is not None:
                    st.env[key] = st.env[key] + d
                else:
                    st.env.pop(key, None)

    def exec_expr(self, e, st):
        """evaluate an expression statement: accesses first (they use the state before the statement's own updates,
        except that `*cursor++` style is handled inside accesses), then updates in source order"""
        if self.on_expr is not None:
            self.on_expr(self, e, st)
        self.accesses(e, st)
        for x in self._updates(e):
            self.assign(x, st)
        # arguments bound to non-const references / passed by address may be changed by the callee
        for x in calls_in(e):
            for a, pt in zip(x.get('a', []), x.get('pt', [])):
                a2 = strip(a)
                if pt.get('ref') and not pt.get('const') and a2.get('k') == 'DeclRefExpr':
                    st.env.pop(('v', a2.get('id')), None)
                if a2.get('k') == 'UnaryOperator' and a2.get('op') == '&' and strip(a2['e']).get('k') == 'DeclRefExpr':
                    st.env.pop(('v', strip(a2['e']).get('id')), None)
        # a callee that receives the cursor by address checks and moves it itself (self-guarding helper): budget unknown afterwards
        for x in calls_in(e):
            for a in x.get('a', []):
                a2 = strip(a)
                if (a2.get('k') == 'DeclRefExpr' and a2.get('id') in self.handles) or \
                        (a2.get('k') == 'UnaryOperator' and a2.get('op') == '&' and self.is_cursor(a2['e'])):
                    st.avail = Poly.const(0)
                    self.moved_by.append((x.get('ln'), short(x.get('callee', '?'))))
        if self.dialect == 'count':
            sk = st.env.get(('skew',))
            if sk is not None and not (sk.is_const() and sk.cval() == 0):
                pass

    def _updates(self, e):
        out = []
        def rec(x):
            if isinstance(x, dict):
                for k, v in x.items():
                    if k in ('t', 'ot', 'ct', 'pt'):
                        continue
                    rec(v)
                if assign_parts_raw(x) or is_incdec(x):
                    out.append(x)
            elif isinstance(x, list):
                for v in x:
                    rec(v)
        rec(e)
        return out

    def refine(self, c, pol, st):
        """strengthen the state with `c` taken with polarity pol"""
        c = strip(c)
        if c is None:
            return
        k = c.get('k')
        if k == 'UnaryOperator' and c['op'] == '!':
            return self.refine(c['e'], not pol, st)
        if k == 'BinaryOperator' and c['op'] == '&&' and pol:
            self.refine(c['l'], True, st); self.refine(c['r'], True, st); return
        if k == 'BinaryOperator' and c['op'] == '||' and not pol:
            self.refine(c['l'], False, st); self.refine(c['r'], False, st); return
        if k == 'BinaryOperator' and c['op'] in ('<', '>', '<=', '>=', '==', '!='):
            op = c['op']
            if not pol:
                op = {'<': '>=', '>=': '<', '>': '<=', '<=': '>', '==': '!=', '!=': '=='}[op]
            l, r = c['l'], c['r']
            if self.dialect == 'count':
                ls, rs = strip(l), strip(r)
                if ls.get('k') == 'DeclRefExpr' and ls.get('id') == self.count_id:
                    kk = self.ev(r, st)
                elif rs.get('k') == 'DeclRefExpr' and rs.get('id') == self.count_id:
                    kk = self.ev(l, st)
                    op = {'<': '>', '>': '<', '<=': '>=', '>=': '<=', '==': '==', '!=': '!='}[op]
                else:
                    kk = None
                if kk is not None:
                    lb = None
                    if op == '>=' or op == '==':
                        lb = kk
                    elif op == '>':
                        lb = kk + 1
                    if lb is not None:
                        sk = st.env.get(('skew',), Poly.const(0))
                        cand = lb - sk
                        if not geq(st.avail, cand):
                            st.avail = cand
            else:   # pair: ptr + K > end (false) / ptr >= end (false) / ptr < end (true) / end - ptr < K (false)
                kk = self._pair_bound(l, r, op, st)
                if kk is not None and not geq(st.avail, kk):
                    st.avail = kk

    def _pair_bound(self, l, r, op, st):
        """lower bound on (end - cursor) implied by `l op r`, or None"""
        ls, rs = strip(l), strip(r)
        def is_end(e):
            return e.get('k') == 'DeclRefExpr' and e.get('id') == self.end_id
        off_l = self.cursor_off(l, st)
        off_r = self.cursor_off(r, st)
        if off_l is not None and is_end(rs):      # cursor + K  op  end
            if not off_l.is_const():
                self.overflow_prone.append((ls.get('ln'), show(ls), repr(off_l)))
                return None      # `ptr + V` with a file-derived 64-bit V can wrap: the comparison proves nothing
            if op == '<=':
                return off_l
            if op == '<':
                return off_l + 1
            return None
        if off_r is not None and is_end(ls):      # end op cursor + K
            if op == '>=':
                return off_r
            if op == '>':
                return off_r + 1
            return None
        if self.is_cursor(ls) and is_end(rs) and op == '<':
            return Poly.const(1)
        if self.is_cursor(rs) and is_end(ls) and op == '>':
            return Poly.const(1)
        # (end - cursor) op K
        def is_diff(e):
            return e.get('k') == 'BinaryOperator' and e['op'] == '-' and is_end(strip(e['l'])) and self.is_cursor(e['r'])
        if is_diff(ls):
            kk = self.ev(r, st)
            if kk is not None:
                if op == '>=':
                    return kk
                if op == '>':
                    return kk + 1
        if is_diff(rs):
            kk = self.ev(l, st)
            if kk is not None:
                if op == '<=':
                    return kk
                if op == '<':
                    return kk + 1
        return None

    # ---------------------------------------------------------------- structured interpretation
    def run_body(self, tree, st):
        self._body_tree = tree
        return self.block([tree], [st])

    def _label_tail(self, label, from_ln):
        t = getattr(self, '_body_tree', None)
        top = (t.get('body') or []) if isinstance(t, dict) and t.get('k') == 'CompoundStmt' else []
        for i, y in enumerate(top):
            if isinstance(y, dict) and y.get('k') == 'LabelStmt' and y.get('label') == label and (y.get('ln') or 0) > (from_ln or 0):
                return top[i:]
        return None

    def block(self, stmts, states):
        """run a statement list over a set of states; returns (fallthrough states, exits) where exits are
        (kind, state) with kind in return/break/continue"""
        exits = []
        cur = states
        for s in stmts:
            nxt = []
            for st in cur:
                f, ex = self.stmt(s, st)
                nxt += f
                exits += ex
            cur = self.dedupe(nxt)
            if not cur:
                break
        return cur, exits

    def dedupe(self, states):
        seen = {}
        for s in states:
            k = s.key()
            if k not in seen:
                seen[k] = s
        out = list(seen.values())
        if len(out) > 64:
            # join: keep per-env the minimum constant budget
            self.notes.append('state explosion: joined %d states' % len(out))
            out = out[:64]
        return out

    def fork_if_needed(self, st):
        f = st.env.pop(('fork',), None)
        if not f:
            return [st]
        key, name = f
        outs = []
        for v in self.forks[name]:
            s2 = st.copy()
            s2.env[key] = Poly.const(v)
            s2.ctx[name] = v
            outs.append(s2)
        return outs

    def stmt(self, s, st):
        if s is None:
            return [st], []
        k = s.get('k')
        if k == 'CompoundStmt':
            return self.block(s.get('body', []), [st])
        if k == 'IfStmt':
            st = st.copy()
            self.accesses(s['cond'], st)
            for x in self._updates(s['cond']):
                self.assign(x, st)
            v = self.cond(s['cond'], st)
            outs, exits = [], []
            if v is not False:
                s1 = st.copy()
                self.refine(s['cond'], True, s1)
                f, ex = self.stmt(s.get('then'), s1)
                outs += f; exits += ex
            if v is not True:
                s2 = st.copy()
                self.refine(s['cond'], False, s2)
                if s.get('else') is not None:
                    f, ex = self.stmt(s['else'], s2)
                    outs += f; exits += ex
                else:
                    outs.append(s2)
            return self.dedupe(outs), exits
        if k == 'ReturnStmt':
            st = st.copy()
            if s.get('e') is not None:
                self.exec_expr(s['e'], st)
            self.returns.append((s.get('e'), st))
            return [], [('return', st)]
        if k == 'BreakStmt':
            return [], [('break', st)]
        if k == 'ContinueStmt':
            return [], [('continue', st)]
        if k == 'DeclStmt':
            st = st.copy()
            for v in s['decls']:
                if 'init' in v:
                    self.exec_expr(v['init'], st)
                    val = self.ev(v['init'], st)
                    key = ('v', v['id'])
                    if v['n'] in self.forks and not (val is not None and val.is_const()):
                        st.env[key] = None
                        st.env[('fork',)] = (key, v['n'])
                    elif val is not None:
                        st.env[key] = self.fit(val, v['t'])
                    elif v['t'].get('u') and not v['t'].get('p'):
                        st.env[key] = self.sym(v['n'], v['t'])
                    # a pointer local bound to a place in the record: a view with a known offset (never reassigned), else a note
                    if v['t'].get('p') and v['id'] != self.cursor_id and self.cursor_deref_of is None:
                        ko = self.cursor_off(v['init'], st)
                        if ko is not None:
                            if v['id'] in single_defs(self.fn.d):
                                st.env[('alias', v['id'])] = (ko, st.consumed)
                            else:
                                self.notes.append('alias of cursor: %s (line %s)' % (v['n'], s.get('ln')))
            return self.fork_if_needed(st), []
        if k in ('ForStmt', 'WhileStmt', 'DoStmt'):
            return self.loop(s, st)
        if k == 'SwitchStmt':
            return self.switch(s, st)
        if k in ('NullStmt', 'LabelStmt', 'GotoStmt'):
            if k == 'LabelStmt':
                return self.stmt(s.get('sub'), st)
            if k == 'GotoStmt':
                # a forward jump to a label of the function's outermost block (the single-exit idiom `goto finish;`): continue with
                # the statements from the label on; whatever they return is this path's return
                tail = self._label_tail(s.get('label'), s.get('ln'))
                if tail is not None:
                    f, ex = self.block(tail, [st])
                    return [], [(k2, sx) for k2, sx in ex if k2 == 'return']
                self.notes.append('goto at line %s not modelled' % s.get('ln'))
                return [], []
            return [st], []
        if k in ('CaseStmt', 'DefaultStmt'):
            return self.stmt(s.get('sub'), st)
        # expression statement
        st = st.copy()
        self.exec_expr(s, st)
        return self.fork_if_needed(st), []

    def switch(self, s, st):
        st = st.copy()
        self.accesses(s['cond'], st)
        body = s.get('body') or {}
        items = body.get('body', []) if body.get('k') == 'CompoundStmt' else [body]
        # entry points: each case label; fallthrough is modelled by running the remainder of the list
        outs, exits = [], []
        val = self.ev(s['cond'], st)
        has_default = False
        for idx, it in enumerate(items):
            labels = []
            x = it
            while isinstance(x, dict) and x.get('k') in ('CaseStmt', 'DefaultStmt'):
                labels.append(x.get('value') if x.get('k') == 'CaseStmt' else 'default')
                x = x.get('sub')
            if not labels:
                continue
            if 'default' in labels:
                has_default = True
            if val is not None and val.is_const() and 'default' not in labels and val.cval() not in labels:
                continue
            f, ex = self.block(items[idx:], [st.copy()])
            outs += f
            for kind, s2 in ex:
                if kind == 'break':
                    outs.append(s2)
                else:
                    exits.append((kind, s2))
        if not has_default:
            outs.append(st)
        return self.dedupe(outs), exits

    def _assigned_in(self, node):
        ids = set()
        arrays = set()
        for x in walk(node):
            ap = assign_parts_raw(x)
            t = None
            if ap:
                t = strip(ap[0])
            elif is_incdec(x):
                t = strip(x['e'])
            if t is not None:
                if t.get('k') == 'DeclRefExpr':
                    ids.add(t.get('id'))
                elif t.get('k') == 'ArraySubscriptExpr':
                    arrays.add(show(t['b']))
            if x.get('k') == 'DeclStmt':
                for v in x['decls']:
                    ids.add(v['id'])
        return ids, arrays

    def loop(self, s, st):
        k = s['k']
        st = st.copy()
        if k == 'ForStmt' and s.get('init') is not None:
            f, _ = self.stmt(s['init'], st)
            st = f[0] if f else st
        cond = s.get('cond')
        inc = s.get('inc')
        body = s.get('body')
        # canonical counted loop?  i < N with i++ and constant start
        iv = None
        N = start = None
        if k == 'ForStmt' and cond is not None and strip(cond).get('k') == 'BinaryOperator' and strip(cond)['op'] in ('<', '!=') and inc is not None:
            c = strip(cond)
            l = strip(c['l'])
            # `j++, bank++`: the counter is advanced once, the other operands of the comma advance something else
            parts = []
            def flat_comma(e_):
                e_ = strip(e_)
                if isinstance(e_, dict) and e_.get('k') == 'BinaryOperator' and e_.get('op') == ',':
                    flat_comma(e_['l']); flat_comma(e_['r'])
                else:
                    parts.append(e_)
            flat_comma(inc)
            mine = [p_ for p_ in parts if isinstance(p_, dict) and is_incdec(p_) and strip(p_['e']).get('id') == l.get('id')]
            others_touch = any(isinstance(y, dict) and y.get('k') == 'DeclRefExpr' and y.get('id') == l.get('id') for p_ in parts if p_ not in mine for y in walk(p_))
            if l.get('k') == 'DeclRefExpr' and len(mine) == 1 and mine[0]['op'] == '++' and not others_touch:
                iv = ('v', l.get('id'))
                start = st.env.get(iv)
                ids, _ = self._assigned_in(body)
                if l.get('id') not in ids:
                    env2 = dict(st.env); env2.pop(iv, None)
                    tmp = State(st.avail, env2)
                    N = self.ev(c['r'], tmp)
        trips = None
        if N is not None and start is not None:
            trips = N - start
        # pointer walk: `for(; p != e; p++)` / `while(p != e) { ..; p++; }` where e is a local defined once as `p + N` before the loop and p
        # is advanced exactly once per round: N rounds (the counter form of the same loop)
        if trips is None and cond is not None and strip(cond).get('k') == 'BinaryOperator' and strip(cond)['op'] in ('!=', '<'):
            c = strip(cond)
            pl, pe = strip(c['l']), strip(c['r'])
            if pl.get('k') == 'DeclRefExpr' and pe.get('k') == 'DeclRefExpr' and (pl.get('t') or {}).get('p') and (pe.get('t') or {}).get('p'):
                e_def = single_defs(self.fn.d).get(pe.get('id'))
                e0 = strip(e_def) if e_def is not None else None
                steps = []
                for x in walk([body, inc]):
                    if isinstance(x, dict):
                        ap = assign_parts_raw(x)
                        if ap and strip(ap[0]).get('id') == pl.get('id'):
                            steps.append('+=1' if (ap[2] == '+=' and const_of(ap[1]) == 1) else 'other')
                        elif is_incdec(x) and strip(x['e']).get('id') == pl.get('id'):
                            steps.append('+=1' if x['op'] == '++' else 'other')
                # p is written nowhere else in the function (it still holds the value it had when e was computed)
                all_writes = 0
                for x in walk(self.fn.tree):
                    if isinstance(x, dict):
                        ap = assign_parts_raw(x)
                        if (ap and strip(ap[0]).get('id') == pl.get('id')) or (is_incdec(x) and strip(x['e']).get('id') == pl.get('id')):
                            all_writes += 1
                if e0 is not None and e0.get('k') == 'BinaryOperator' and e0.get('op') == '+' and strip(e0['l']).get('id') == pl.get('id') and steps == ['+=1'] and all_writes == 1 \
                        and (k != 'ForStmt' or s.get('init') is None):
                    n_ = self.ev(e0['r'], st)
                    if n_ is not None:
                        trips = n_
        # 1. small constant loop: unroll
        if trips is not None and trips.is_const() and 0 <= trips.cval() <= self.max_unroll:
            cur = [st]
            exits = []
            for it in range(trips.cval()):
                nxt = []
                for s0 in cur:
                    s1 = s0.copy()
                    s1.env[iv] = start + it
                    f, ex = self.stmt(body, s1)
                    for kind, sx in ex:
                        if kind == 'continue':
                            f.append(sx)
                        elif kind == 'break':
                            exits.append(('brk', sx))
                        else:
                            exits.append((kind, sx))
                    nxt += f
                cur = self.dedupe(nxt)
            outs = cur + [sx for kind, sx in exits if kind == 'brk']
            for s0 in outs:
                s0.env[iv] = start + trips.cval()
            return self.dedupe(outs), [(k2, sx) for k2, sx in exits if k2 != 'brk']
        # general loop: havoc what the body assigns
        ids, arrays = self._assigned_in({'b': body, 'i': inc, 'c': cond})
        def havoc(state, lo_iv=True):
            for i in ids:
                if i in (self.cursor_id, self.count_id):
                    continue
                key = ('v', i)
                if key in state.env:
                    del state.env[key]
            for k2 in [k2 for k2 in state.env if k2 and k2[0] == 'a' and k2[1] in arrays]:
                del state.env[k2]
            if iv is not None and lo_iv:
                state.env[iv] = self.sym('iter')
        # 2. self-guarding body: every access discharged with entry budget 0
        mark = len(self.obl)
        s_try = st.copy(); havoc(s_try)
        s_try.avail = Poly.const(0)
        s_try.inloop = st.inloop + 1
        if cond is not None:
            self.accesses(cond, s_try)
            self.refine(cond, True, s_try)
        f, ex = self.stmt(body, s_try)
        body_obl = self.obl[mark:]
        moves = self._moves_cursor(body) or self._moves_cursor(inc) or self._moves_cursor(cond)
        if all(o.ok for o in body_obl) or not moves:
            # sound fix-point: budget 0 at the head (pair dialect: the loop condition may re-establish a bound)
            if not moves:
                # the loop does not move the cursor: budget is invariant
                del self.obl[mark:]
                s_inv = st.copy(); havoc(s_inv)
                if cond is not None:
                    self.accesses(cond, s_inv)
                    self.refine(cond, True, s_inv)
                f, ex = self.stmt(body, s_inv)
                out = st.copy(); havoc(out, lo_iv=False)
                if iv is not None:
                    out.env.pop(iv, None)
                outs = [out] + [sx for kind, sx in ex if kind == 'break']
                for o in outs:
                    if not geq(o.avail, st.avail):
                        pass
                return self.dedupe(outs), [(k2, sx) for k2, sx in ex if k2 == 'return']
            for o in body_obl:
                o.ctx = dict(o.ctx); o.ctx['loop'] = 'self-guarding body (head budget 0)'
            out = st.copy(); havoc(out, lo_iv=False)
            out.avail = Poly.const(0)
            # total consumption of a self-guarding counted loop: trips x (uniform per-iteration consumption) when uniform
            per = {sx.consumed - s_try.consumed for sx in f + [sx for kind, sx in ex if kind == 'continue']}
            if trips is not None and len(per) == 1 and not any(kind == 'break' for kind, _ in ex):
                out.consumed = st.consumed + trips * next(iter(per))
            else:
                out.consumed = st.consumed + self.sym('loopbytes')
            if iv is not None:
                out.env.pop(iv, None)
            if cond is not None:
                self.refine(cond, False, out)
            outs = [out]
            for kind, sx in ex:
                if kind == 'break':
                    outs.append(sx)
            return self.dedupe(outs), [(k2, sx) for k2, sx in ex if k2 == 'return']
        # 3. counted loop with constant per-iteration consumption
        del self.obl[mark:]
        if trips is None:
            self.obl.append(Obligation(self.fn.name, s.get('ln'), 'loop: not counted and its body is not self-guarding', None, st.avail, dict(st.ctx)))
            out = st.copy(); havoc(out, lo_iv=False); out.avail = Poly.const(0)
            return [out], []
        Lname = 'L#%d' % next(self.fresh)
        s_sym = st.copy(); havoc(s_sym)
        s_sym.avail = Poly.sym(Lname)
        s_sym.inloop = st.inloop + 1
        mark = len(self.obl)
        f, ex = self.stmt(body, s_sym)
        conts = f + [sx for kind, sx in ex if kind == 'continue']
        body_obl = self.obl[mark:]
        del self.obl[mark:]
        cs = set()
        for sx in conts:
            cs.add(Poly.sym(Lname) - sx.avail)
        if len(cs) != 1 or Lname in next(iter(cs)).symbols() or any(kind == 'break' for kind, _ in ex):
            self.obl.append(Obligation(self.fn.name, s.get('ln'), 'loop: paths of the body consume different amounts', None, st.avail, dict(st.ctx)))
            out = st.copy(); havoc(out, lo_iv=False); out.avail = Poly.const(0)
            return [out], [(k2, sx) for k2, sx in ex if k2 == 'return']
        c = next(iter(cs))
        total = trips * c
        for o in body_obl:
            # budget at the access = entry budget of the iteration (>= c once the total is covered) minus what the body consumed so far
            o.subst(Lname, c)
            o.extra.append((total, st.avail))
            o.ctx = dict(o.ctx); o.ctx['loop'] = '%s iteration(s) x %s byte(s)' % (trips, c)
            self.obl.append(o)
        out = st.copy(); havoc(out, lo_iv=False)
        out.avail = st.avail - total
        out.consumed = st.consumed + total
        if iv is not None:
            out.env.pop(iv, None)
        return [out], [(k2, sx) for k2, sx in ex if k2 == 'return']

    def _moves_cursor(self, node):
        if node is None:
            return False
        for x in walk(node):
            ap = assign_parts_raw(x)
            t = strip(ap[0]) if ap else (strip(x['e']) if is_incdec(x) else None)
            if t is not None and t.get('k') == 'DeclRefExpr' and t.get('id') in (self.cursor_id, self.count_id):
                return True
            if 'callee' in x:
                for a in x.get('a', []):
                    a2 = strip(a)
                    if a2.get('k') == 'UnaryOperator' and a2['op'] == '&' and self.is_cursor(a2['e']):
                        return True
                    if a2.get('k') == 'DeclRefExpr' and a2.get('id') == self.cursor_id and a.get('ot', {}).get('ref'):
                        return True
        return False


