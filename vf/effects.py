"""Store / mutation facts derived from the AST: which statements write which objects,
alias roots of pointer/reference locals, and a transitive 'mutates its object' summary."""
import collections
from .core import *

# non-const std:: member functions that do not change the container's content when used as an rvalue
READERS = {'operator[]', 'begin', 'end', 'rbegin', 'rend', 'get', 'operator*', 'operator->', 'find', 'at', 'front', 'back', 'data',
           'c_str', 'size', 'empty', 'capacity', 'lower_bound', 'upper_bound', 'count', 'is_end', 'is_begin', 'operator bool',
           'operator==', 'operator!=', 'find_if', 'base'}


def local_aliases(fn):
    """pointer/reference locals with one definition -> the expression they alias"""
    sd = single_defs(fn.d)
    out = {}
    for b in fn.d['blocks']:
        for st in b['stmts']:
            s = st['s']
            if s.get('k') == 'DeclStmt':
                for v in s['decls']:
                    if 'init' in v and (v.get('ref') or v['t'].get('p')):
                        out[v['id']] = v['init']
    return out


def origin(fn, e, aliases=None, depth=0):
    """('this'|'param'|'local'|'global'|'call'|'other', detail) — the object a place expression lives in,
    following reference/pointer locals back to their initialiser"""
    if aliases is None:
        aliases = local_aliases(fn)
    r = root_object(e)
    if r is None:
        return ('other', None)
    k = r.get('k')
    if k == 'CXXThisExpr':
        return ('this', None)
    if k == 'DeclRefExpr':
        if r.get('id') in aliases and depth < 6:
            # reference or pointer local: the object is whatever it was bound to
            deref = True
            return origin(fn, aliases[r['id']], aliases, depth + 1)
        if r.get('parm'):
            return ('param', short(r['n']))
        if r.get('glob'):
            return ('global', r['n'])
        return ('local', short(r['n']))
    if 'callee' in r or 'callee_e' in r:
        # e.g. GET_MIDI_PLAYER(device) is a cast, but smart-pointer get()/operator* are calls on an object
        if r.get('obj') is not None:
            return origin(fn, r['obj'], aliases, depth + 1)
        if r.get('a'):
            return origin(fn, r['a'][0], aliases, depth + 1)
        return ('call', callee_name(r))
    return ('other', k)


def is_place_indirect(fn, e, aliases):
    """True when the place expression e is reached through a pointer/reference (i.e. is not a by-value local/param itself)"""
    x = e
    while isinstance(x, dict):
        k = x.get('k')
        if k == 'MemberExpr':
            if x.get('arrow'):
                return True
            x = x['b']
        elif k == 'ArraySubscriptExpr':
            b = x['b']
            if b.get('t', {}).get('p'):
                return True
            x = b
        elif k == 'UnaryOperator' and x['op'] == '*':
            return True
        elif k and k.endswith('CastExpr') and 'e' in x:
            x = x['e']
        elif k in ('CXXOperatorCallExpr', 'CXXMemberCallExpr'):
            return True
        elif k == 'DeclRefExpr':
            if x.get('id') in aliases:
                return True
            return bool(x.get('t', {}).get('ref')) or bool(x.get('glob'))
        elif k == 'CXXThisExpr':
            return True
        else:
            return False
    return False


def stores(fn):
    """every write in fn: (block, idx, stmt, target expr, rhs expr or None, op)"""
    for b, j, st in fn.cfg.stmts():
        s = st['s']
        if s.get('k') == 'CtorInit':
            continue
        for x in walk(s):
            ap = assign_parts_raw(x)
            if ap:
                yield b, j, st, ap[0], ap[1], ap[2]
            elif is_incdec(x):
                yield b, j, st, x['e'], None, x['op']


def field_of(target):
    """qualified field name written by a store target (outermost member), or None"""
    t = strip(target)
    while isinstance(t, dict):
        if t.get('k') == 'MemberExpr':
            return t['n']
        if t.get('k') == 'ArraySubscriptExpr':
            t = strip(t['b'])
            continue
        if t.get('k') == 'CXXOperatorCallExpr' and short(t.get('callee', '')) == 'operator[]' and t.get('a'):
            t = strip(t['a'][0])
            continue
        return None
    return None


class Mutation:
    """transitive summary: does a function write state through `this` / a pointer or reference parameter / a global"""
    def __init__(self, facts):
        self.facts = facts
        self.direct = {}
        self.calls = collections.defaultdict(list)
        for f in facts.all_fns():
            key = (f.name, f.sig)
            al = local_aliases(f)
            d = False
            for b, j, st, tgt, rhs, op in stores(f):
                o = origin(f, tgt, al)
                if o[0] in ('this', 'global') or (o[0] == 'param' and is_place_indirect(f, tgt, al)):
                    d = True
                    break
            self.direct[key] = d
            for b, j, st in f.cfg.stmts():
                for c in calls_in(st['s']):
                    self.calls[key].append(c)
        self.mut = dict(self.direct)
        changed = True
        while changed:
            changed = False
            for f in facts.all_fns():
                key = (f.name, f.sig)
                if self.mut[key]:
                    continue
                al = local_aliases(f)
                for c in self.calls[key]:
                    if self.call_mutates(f, c, al):
                        self.mut[key] = True
                        changed = True
                        break

    def fn_mutates(self, name):
        fl = self.facts.fns.get(name)
        if not fl:
            return None
        return any(self.mut.get((f.name, f.sig)) for f in fl)

    def call_mutates(self, fn, c, al=None):
        """does this call expression change state that outlives the caller's locals?"""
        if al is None:
            al = local_aliases(fn)
        name = callee_name(c)
        if not name:
            return False   # indirect call through a hook pointer: user callback, not library state
        sn = short(name)
        known = self.fn_mutates(name)
        obj = c.get('obj')
        if c.get('k') == 'CXXOperatorCallExpr' and c.get('a'):
            obj = c['a'][0]
        if obj is not None:
            o = origin(fn, obj, al)
            indirect = o[0] in ('this', 'global') or (o[0] in ('param',) and is_place_indirect(fn, obj, al)) or (o[0] == 'param')
            if o[0] == 'local' and not is_place_indirect(fn, obj, al):
                indirect = False
            if not indirect:
                return False
            if c.get('cmeth'):
                return False
            if known is not None:
                return known
            if sn in READERS:
                return False
            return True
        # free function / static: mutates if it is known to and receives a pointer/reference to outliving state
        if known:
            for a in c.get('a', []):
                if a.get('t', {}).get('p') or a.get('ot', {}).get('ref') or a.get('k') == 'CXXThisExpr':
                    o = origin(fn, a, al)
                    if o[0] in ('this', 'global', 'param'):
                        return True
            return False
        return False
