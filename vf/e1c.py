"""E1c — byte-budget dataflow on the CFG (goto-friendly sibling of E1).

For one function and one (cursor, end) pair — each given as a predicate over expressions, so that the pair can be two locals
(`cur`, `end`) or two fields (`ctx->src_ptr`, `ctx->src_end`), optionally with the buffer base and its size field — a forward
must-analysis computes, at every program point,

  a      lower bound of the number of bytes between cursor and end,
  snap   locals that hold exactly `end - cursor` (or `base - cursor`) since the cursor last moved,
  le     locals known to be <= end - cursor           (clamp `if (n > left) n = left;` or a comparison),
  ge     locals known to be >= base - cursor          (the backwards clamp of a signed skip),
  lesz   locals known to be <= the size field         (the clamp of an absolute seek),
  ub     an upper bound of the byte under the cursor  (`if (*cur >= N) goto fail;`).

meet = (min, intersection..., max).  Edges refine the state from the branch condition:
  cursor < end, !(cursor >= end)                   -> a >= 1
  end - cursor >= n, !(end - cursor < n), snapshot -> a >= n
  cursor + n <= end (n a small constant)           -> a >= n
  n <= end - cursor / !(n > snapshot)              -> n in le          (and the mirrored forms for ge, lesz)
Every dereference of the cursor (`*c`, `*c++`, `c[k]`, memcpy/memcmp source) is an obligation `need <= a`
(or `n in le` for a variable byte count); every cursor motion lowers the budget, unknown motion resets it to 0; every store
to the cursor is classified as staying inside [base, end] or not.  Paths are never pruned, so a discharged obligation
holds on every path of the CFG, feasible or not.
"""
import collections
from .core import *
from .logic import literals, const_of

INF = 1 << 30
SWAP = {'<': '>', '>': '<', '<=': '>=', '>=': '<=', '==': '==', '!=': '!='}
NEVER = lambda e: False


class S1c:
    __slots__ = ('a', 'snap', 'le', 'ge', 'lesz', 'ub')

    def __init__(self, a=0, snap=frozenset(), le=frozenset(), ge=frozenset(), lesz=frozenset(), ub=None):
        self.a, self.snap, self.le, self.ge, self.lesz, self.ub = a, frozenset(snap), frozenset(le), frozenset(ge), frozenset(lesz), ub

    def key(self):
        return (self.a, self.snap, self.le, self.ge, self.lesz, self.ub)

    def meet(self, o):
        snap = self.snap & o.snap
        ub = None if self.ub is None or o.ub is None else max(self.ub, o.ub)
        return S1c(min(self.a, o.a), snap, ((self.le | self.snap) & (o.le | o.snap)) - snap, ((self.ge | self.snap) & (o.ge | o.snap)) - snap,
                   self.lesz & o.lesz, ub)

    def with_(self, **kw):
        d = {k: getattr(self, k) for k in self.__slots__}
        d.update(kw)
        return S1c(**d)

    def moved(self, k=None):
        """cursor advanced by k bytes (None: unknown); facts relative to the cursor die, facts about the size field survive"""
        return S1c(max(0, self.a - k) if k is not None else 0, lesz=self.lesz)

    def forget(self, vid):
        return self.with_(snap=self.snap - {vid}, le=self.le - {vid}, ge=self.ge - {vid}, lesz=self.lesz - {vid})


class Obl1c:
    def __init__(self, fn, loc, ln, construct, need, have, ok):
        self.fn, self.loc, self.ln, self.construct, self.need, self.have, self.ok = fn, loc, ln, construct, need, have, ok


class Avail:
    def __init__(self, fn, is_cursor, is_end, is_base=NEVER, is_size=NEVER,
                 copy_fns=('memcpy', 'memcmp', 'memmove', 'std::memcpy', 'std::memcmp')):
        self.fn = fn
        self.cfg = fn.cfg
        self.is_cursor = lambda e: e is not None and is_cursor(strip(e))
        self.is_end = lambda e: e is not None and is_end(strip(e))
        self.is_base = lambda e: e is not None and is_base(strip(e))
        self.is_size = lambda e: e is not None and is_size(strip(e))
        self.copy_fns = copy_fns
        self.obl = {}
        self.notes = []
        self.stores = {}        # (ln, text) -> (inrange, reason)
        self.escapes = []
        self.deref_ub = {}

    # ---- expression helpers
    def _diff(self, e, lhs):
        e = strip(e)
        return e is not None and e.get('k') == 'BinaryOperator' and e.get('op') == '-' and lhs(e['l']) and self.is_cursor(e['r'])

    def is_dist(self, e, st):
        """e == end - cursor (possibly cast), or a snapshot local"""
        if self._diff(e, self.is_end):
            return True
        e = strip(e)
        return e is not None and e.get('k') == 'DeclRefExpr' and e.get('id') in st.snap

    def is_backdist(self, e, st):
        if self._diff(e, self.is_base):
            return True
        e = strip(e)
        return e is not None and e.get('k') == 'DeclRefExpr' and e.get('id') in st.snap

    def local_id(self, e):
        e = strip(e)
        if e is not None and e.get('k') == 'DeclRefExpr' and not e.get('glob'):
            return e.get('id')
        return None

    def unsigned(self, e):
        t = (strip(e) or {}).get('t') or {}
        return bool(t.get('u'))

    def touches(self, e):
        return any(self.is_cursor(x) for x in walk(e))

    # ---- edge refinement
    def refine(self, st, cond, pol):
        return self.apply_facts(st, literals(cond, pol))

    def apply_facts(self, st, facts):
        for f in facts:
            if f[0] == 'or':
                alts = [self.apply_facts(st, alt) for alt in f[1]]
                m = alts[0]
                for a in alts[1:]:
                    m = m.meet(a)
                st = m
                continue
            if f[0] != 'cmp':
                continue
            _, op, l, r = f
            for (o, a, b) in ((op, l, r), (SWAP[op], r, l)):
                sa = strip(a)
                cn = const_of(b)
                # cursor < end
                if o == '<' and self.is_cursor(a) and self.is_end(b):
                    st = st.with_(a=max(st.a, 1))
                # dist >= n / dist > n
                if self.is_dist(a, st) and cn is not None and o in ('>=', '>'):
                    st = st.with_(a=max(st.a, cn + (1 if o == '>' else 0)))
                # cursor + n <= end
                if o in ('<=', '<') and self.is_end(b) and sa is not None and sa.get('k') == 'BinaryOperator' and sa.get('op') == '+' and self.is_cursor(sa['l']):
                    k = const_of(sa['r'])
                    if k is not None and 0 <= k <= 4096:
                        st = st.with_(a=max(st.a, k + (1 if o == '<' else 0)))
                # *cursor < n: upper bound of the byte under the cursor (until the cursor moves)
                if o in ('<', '<=') and cn is not None and sa is not None and sa.get('k') == 'UnaryOperator' and sa.get('op') == '*' and self.is_cursor(sa['e']):
                    nb = cn - 1 if o == '<' else cn
                    st = st.with_(ub=nb if st.ub is None else min(st.ub, nb))
                vid = self.local_id(a)
                if vid is not None:
                    # n <= dist
                    if o in ('<=', '<') and self.is_dist(b, st):
                        st = st.with_(le=st.le | {vid})
                    # n >= base - cursor
                    if o in ('>=', '>') and self.is_backdist(b, st):
                        st = st.with_(ge=st.ge | {vid})
                    # n <= size
                    if o in ('<=', '<') and self.is_size(b):
                        st = st.with_(lesz=st.lesz | {vid})
        return st

    # ---- obligations
    def need(self, st, e, loc, n, what):
        ln = e.get('ln') if isinstance(e, dict) else None
        key = (ln, what)
        if isinstance(n, int):
            ok = n <= st.a
            have = st.a
        else:
            ok = n[1] in st.le or n[1] in st.snap
            have = 'clamped to the remaining bytes' if ok else 'no clamp against end - cursor'
        old = self.obl.get(key)
        if old is None or (old.ok and not ok) or (ok == old.ok and isinstance(have, int) and isinstance(old.have, int) and have < old.have):
            self.obl[key] = Obl1c(self.fn.name, '%s:%s' % (self.fn.file, ln), ln, what, n if isinstance(n, int) else 'variable', have, ok)

    def note_ub(self, e, st):
        k = (e.get('ln'), show(e))
        if k in self.deref_ub:
            o = self.deref_ub[k]
            self.deref_ub[k] = None if o is None or st.ub is None else max(o, st.ub)
        else:
            self.deref_ub[k] = st.ub

    def store(self, e, text, ok, why):
        k = (e.get('ln'), text)
        old = self.stores.get(k)
        if old is None or (old[0] and not ok):
            self.stores[k] = (ok, why)

    def check_escape(self, rhs, how, e):
        r = strip(rhs)
        if r is None:
            return
        if self.is_cursor(r) or (r.get('k') == 'BinaryOperator' and r.get('op') in ('+', '-') and self.is_cursor(r.get('l')) and (r.get('t') or {}).get('p')):
            self.escapes.append((e.get('ln'), how))

    # ---- transfer
    def eff(self, e, st, loc, top=False):
        """abstract effect of evaluating e; returns the new state"""
        if isinstance(e, list):
            for x in e:
                st = self.eff(x, st, loc)
            return st
        if not isinstance(e, dict):
            return st
        k = e.get('k')
        if k == 'DeclStmt':
            for v in e.get('decls', []):
                if v.get('init') is not None:
                    st = self.eff(v['init'], st, loc)
                    self.check_escape(v['init'], 'initialises %s' % v.get('n'), e)
                    st = self.assign_local(st, v.get('id'), v['init'])
            return st
        if k == 'ReturnStmt':
            if e.get('e') is not None:
                self.check_escape(e['e'], 'returned', e)
        if k in ('ConditionalOperator', 'BinaryConditionalOperator'):
            # the condition is a block terminator of its own (handled as an edge); arms are joined
            a = self.eff(e.get('l'), st, loc) if e.get('l') is not None else st
            b = self.eff(e.get('r'), st, loc) if e.get('r') is not None else st
            return a.meet(b)
        if k == 'BinaryOperator' and e.get('op') in ('&&', '||') and not top:
            if not self.touches(e):
                return st
            a = self.eff(e['l'], st, loc)
            b = self.eff(e['r'], a, loc)
            return a.meet(b)
        if k == 'UnaryOperator' and e.get('op') == '*':
            inner = strip(e['e'])
            if self.is_cursor(inner):
                self.need(st, e, loc, 1, show(e))
                self.note_ub(e, st)
                return st
            if is_incdec(inner) and self.is_cursor(inner['e']):
                d = 1 if inner['op'] == '++' else -1
                if d < 0:
                    self.store(e, show(inner), False, 'cursor decremented')
                if inner.get('post'):
                    self.need(st, e, loc, 1, show(e))
                    self.note_ub(e, st)
                    return st.moved(1) if d > 0 else st.moved(None)
                st = st.moved(1) if d > 0 else st.moved(None)
                self.need(st, e, loc, 1, show(e))
                return st
            if inner is not None and inner.get('k') == 'BinaryOperator' and inner.get('op') == '+' and self.is_cursor(inner['l']):
                kk = const_of(inner['r'])
                st = self.eff(inner['r'], st, loc)
                self.need(st, e, loc, kk + 1 if kk is not None and kk >= 0 else INF, show(e))
                return st
            return self.eff(e['e'], st, loc)
        if k == 'ArraySubscriptExpr' and self.is_cursor(e.get('b')):
            kk = const_of(e['i'])
            st = self.eff(e['i'], st, loc)
            self.need(st, e, loc, kk + 1 if kk is not None and kk >= 0 else INF, show(e))
            return st
        if is_incdec(e) and self.is_cursor(e['e']):
            d = 1 if e['op'] == '++' else -1
            if d < 0:
                self.store(e, show(e), False, 'cursor decremented')
            return st.moved(1) if d > 0 else st.moved(None)
        ap = assign_parts_raw(e)
        if ap:
            tgt, rhs, op = ap
            st = self.eff(rhs, st, loc)
            if self.is_cursor(tgt):
                return self.cursor_store(e, st, rhs, op)
            if self.is_end(tgt):
                return S1c(0)
            self.check_escape(rhs, 'assigned to %s' % show(tgt), e)
            vid = self.local_id(tgt)
            if vid is not None:
                if op == '=':
                    return self.assign_local(st, vid, rhs)
                return st.forget(vid)
            return self.eff(tgt, st, loc)
        if 'callee' in e or 'callee_e' in e:
            cn = callee_name(e)
            args = e.get('a', [])
            if cn in self.copy_fns and len(args) == 3:
                for a in args:
                    st = self.eff(a, st, loc) if not self.is_cursor(a) else st
                for i in (0, 1):
                    if self.is_cursor(args[i]):
                        n = const_of(args[2])
                        if n is None:
                            vid = self.local_id(args[2])
                            n = ('var', vid) if vid is not None else INF
                        self.need(st, e, loc, n, show(e)[:70])
                return st
            for a in args:
                sa = strip(a)
                if self.is_cursor(sa):
                    self.notes.append('cursor passed to %s at line %s' % (cn, e.get('ln')))
                    self.need(st, e, loc, INF, 'cursor passed to ' + cn)
                elif sa is not None and sa.get('k') == 'UnaryOperator' and sa.get('op') == '&' and self.is_cursor(sa['e']):
                    st = st.moved(None)
                    self.store(e, '&cursor -> ' + cn, None, 'the callee moves the cursor')
                else:
                    st = self.eff(a, st, loc)
            if e.get('obj') is not None:
                st = self.eff(e['obj'], st, loc)
            return st
        for kk, v in e.items():
            if kk in ('t', 'ot', 'ct', 'pt', 'argt', 'newt', 'cnd'):
                continue
            if isinstance(v, (dict, list)):
                st = self.eff(v, st, loc)
        return st

    def cursor_store(self, e, st, rhs, op):
        r = strip(rhs)
        text = '%s %s' % (op, show(rhs))
        if op == '+=':
            kk = const_of(rhs)
            vid = self.local_id(rhs)
            if kk is not None and kk >= 0:
                self.store(e, text, kk <= st.a, 'advance by %d with %d byte(s) known to remain' % (kk, st.a))
                return st.moved(kk)
            if vid is not None:
                up = vid in st.le or vid in st.snap
                down = vid in st.ge or vid in st.snap or self.unsigned(rhs)
                self.store(e, text, up and down, ('clamped to the remaining bytes' if up else 'no clamp against end - cursor') + ', ' +
                           ('cannot move before the base' if down else 'no clamp against base - cursor'))
                return st.moved(None)
            self.store(e, text, False, 'advance by an unclamped amount')
            return st.moved(None)
        if op == '=':
            if self.is_end(r):
                self.store(e, text, True, 'parked at the end')
                return st.moved(None)
            if self.is_base(r):
                self.store(e, text, True, 'reset to the base')
                return st.moved(None)
            if r is not None and r.get('k') == 'BinaryOperator' and r.get('op') == '+' and self.is_base(r['l']):
                vid = self.local_id(r['r'])
                ok = vid is not None and vid in st.lesz and self.unsigned(r['r'])
                self.store(e, text, ok, 'offset clamped to the size field' if ok else 'offset not clamped to the size field')
                return st.moved(None)
        self.store(e, text, False, 'cursor overwritten')
        return st.moved(None)

    def assign_local(self, st, vid, rhs):
        if vid is None:
            return st
        st = st.forget(vid)
        r = strip(rhs)
        if self._diff(rhs, self.is_end) or self._diff(rhs, self.is_base):
            return st.with_(snap=st.snap | {vid})
        if self.is_size(rhs):
            return st.with_(lesz=st.lesz | {vid})
        if r is not None and r.get('k') == 'DeclRefExpr':
            rid = r.get('id')
            if rid in st.snap:
                return st.with_(snap=st.snap | {vid})
            return st.with_(le=st.le | ({vid} if rid in st.le else set()), ge=st.ge | ({vid} if rid in st.ge else set()),
                            lesz=st.lesz | ({vid} if rid in st.lesz else set()))
        return st

    # ---- fixpoint
    def block(self, bid, st):
        b = self.cfg.blocks[bid]
        for s in b['stmts']:
            st = self.eff(s['s'], st, s['loc'], top=True)
        if 'cond' in b:
            st = self.eff(b['cond'], st, b.get('cloc'), top=True)
        return st

    def run(self, entry_state=None):
        cfg = self.cfg
        inn = {cfg.entry: entry_state or S1c(0)}
        work = collections.deque([cfg.entry])
        rounds = 0
        while work:
            rounds += 1
            if rounds > 200000:
                raise RuntimeError('E1c: no fixpoint in %s' % self.fn.name)
            bid = work.popleft()
            st = self.block(bid, inn[bid])
            b = cfg.blocks[bid]
            succ = b['succ']
            for k, t in enumerate(succ):
                if t is None:
                    continue
                out = st
                if 'cond' in b and len(succ) == 2 and b.get('term') != 'SwitchStmt':
                    out = self.refine(st, b['cond'], k == 0)
                old = inn.get(t)
                new = out if old is None else old.meet(out)
                if old is None or new.key() != old.key():
                    inn[t] = new
                    work.append(t)
        self.inn = inn
        # final pass with the fixpoint states: obligations, stores and escapes are recorded once per site
        self.obl, self.deref_ub, self.stores, self.escapes, self.notes = {}, {}, {}, [], []
        for bid, st in inn.items():
            self.block(bid, st)
        return sorted(self.obl.values(), key=lambda o: (o.ln or 0, o.construct))
