"""C16 — the bank API behaves as a map (percussive, MSB, LSB) -> 128 instruments (thin claim).

R1  real-time creation never allocates: the non-expanding insert reaches no allocation function (IR call graph); in opn2_getBank the
    expanding insert is used only when the create-RT flag is absent.
R2  the non-expanding insert fails only when no free slot is left; an existing key is returned, not duplicated.
R3  identifier codec: opn2_getBankId inverts the key of opn2_getBank on the validated domain (shared with C12.R1).
R4  new banks are blank: all 128 entries get Flag_NoSound before insertion.
R5  slot recycling: erase unlinks before freeing and decrements the size; free_slot resets the mapped value; clear frees every slot
    of every bucket and zeroes heads and size.
R6  list integrity: bucket_add / bucket_remove update both link directions on every path; reserve hands every new slot to the free list.
"""
from ..core import *
from ..logic import *
from ..report import Obl, Rule
from .. import build

PROP = 'C16'
RULES = [
    Rule('C16.R1', 'real-time bank creation reaches no allocation', 2),
    Rule('C16.R2', 'non-expanding insert fails only when the free list is empty and never duplicates a key', 3),
    Rule('C16.R3', 'bank identifiers read back equal those used at creation', 2),
    Rule('C16.R4', 'a created bank has 128 blank entries', 2),
    Rule('C16.R5', 'erase / free_slot / clear recycle slots completely', 5),
    Rule('C16.R7', 'the instrument converters behind opn2_setInstrument / opn2_getInstrument copy every field on every path', 2),
    Rule('C16.R8', 'LoadBank copies every bank the parsed file holds: its bank loops run to the parsed counts', 1),
    Rule('C16.R9', 'bank keys built from file bytes stay inside the (percussive, MSB, LSB) key space: the MSB is masked to 7 bits, the melodic LSB too', 2),
    Rule('C16.R6', 'bucket links are updated in both directions on every path; reserve adds every new slot', 4),
]
EXPLANATION = ('IR call-graph reachability (no allocation below the non-expanding insert) plus CFG order / post-dominance and AST shape rules over the '
               'BasicBankMap template (analysed on its OPN2::Bank instantiation) and the bank functions of the C API. Thin claim: necessary conditions '
               'of map behaviour; lookup/iteration semantics over histories are not decided.')
ASSUMPTIONS = ['the map is only instantiated for OPN2::Bank', 'handles passed to the API come from opn2_getBank / opn2_getFirstBank / opn2_getNextBank']
BM = 'BasicBankMap<OPN2::Bank>'


def slot_locals(fn):
    """ids of the locals that hold a slot obtained from the map: assigned from bucket_find / allocate_slot / ensure_allocate_slot"""
    ids = set()
    for x in walk(fn.tree):
        if not isinstance(x, dict):
            continue
        if x.get('k') == 'DeclStmt':
            for v in x.get('decls', []):
                if v.get('init') is not None and short(callee_name(strip(v['init']))) in ('bucket_find', 'allocate_slot', 'ensure_allocate_slot'):
                    ids.add(v['id'])
        ap = assign_parts_raw(x)
        if ap and strip(ap[0]).get('k') == 'DeclRefExpr' and short(callee_name(strip(ap[1]))) in ('bucket_find', 'allocate_slot', 'ensure_allocate_slot'):
            ids.add(strip(ap[0])['id'])
    return ids


def views(tier):
    return ['V0'] if tier == 'quick' else ['V0', 'V1', 'noSEQ']


def analyse(facts, tier):
    obls = []
    ins = facts.fns.get(BM + '::insert', [])
    rt = [f for f in ins if 'do_not_expand_t' in f.sig]
    ex = [f for f in ins if 'do_not_expand_t' not in f.sig]
    if not rt or not ex:
        raise build.AnalysisBroken('C16: the two BasicBankMap::insert overloads not found (%d)' % len(ins))
    rt, ex = rt[0], ex[0]
    # ---- R1 via IR
    ir = facts.ir
    cands = [f for f in ir.fns if f['defined'] and 'BasicBankMap' in f['dname'] and '::insert(' in f['dname'] and 'do_not_expand_t' in f['dname']]
    if not cands:
        raise build.AnalysisBroken('C16.R1: non-expanding insert not found in the linked IR')
    ALLOC = ('_Znwm', '_Znam', 'malloc', 'calloc', 'realloc')
    for f in cands:
        par = ir.reach([f], indirect=False)
        hits = []
        for i in par:
            for s in ir.fns[i]['special']:
                if s['callee'] in ALLOC:
                    hits.append('%s in %s' % (s['callee'], ir.fns[i]['dname'].split('(')[0][-50:]))
        obls.append(Obl('C16.R1', f['dname'].split('(')[0], 'no allocation reachable', '%s:%s' % (f.get('file', '?'), f.get('line', 0)), 'finding' if hits else 'discharged',
                        why='allocation reachable: %s' % hits[:3] if hits else '%d functions reachable, none allocates' % len(par), detail={'reachable': len(par)}))
    gb_api = facts.fn('opn2_getBank')
    E = facts.enums
    crt = E.get('OPNMIDI_Bank_CreateRt')
    # the creation code: in opn2_getBank itself, or in a local helper it calls (the function that holds the insert() calls); the
    # rules about creation read that function, and the API function must hand the helper's failure on
    gb = gb_api
    helper_call = None
    if not any(short(callee_name(x)) == 'insert' for x in calls_in(gb_api.tree)):
        for x in calls_in(gb_api.tree):
            for cf in facts.fns.get(callee_name(x), [])[:1]:
                if is_local_helper(gb_api, cf) and any(short(callee_name(y)) == 'insert' for y in calls_in(cf.tree)):
                    gb, helper_call = cf, callee_name(x)
    fail_consts = (-1,) if helper_call is None else (0, -1)
    for b, j, st in gb.cfg.stmts():
        for x in calls_in(st['s']):
            if short(callee_name(x)) == 'insert':
                gf = guard_facts(gb, b, st)
                txt = ' '.join(fact_str(f) for f in gf)
                nargs = len(x.get('a', []))
                if nargs == 1:
                    ok = ('& OPNMIDI_Bank_CreateRt) != OPNMIDI_Bank_CreateRt' in txt) or ('& %s) != %s' % (crt, crt) in txt)
                    obls.append(Obl('C16.R1', gb.name, 'expanding insert only without the RT flag', st['loc'], 'discharged' if ok else 'finding',
                                    why='guarded by (flags & CreateRt) != CreateRt' if ok else 'the allocating insert can run for a real-time creation request'))
                else:
                    ok = ('& OPNMIDI_Bank_CreateRt) == OPNMIDI_Bank_CreateRt' in txt)
                    obls.append(Obl('C16.R1', gb.name, 'RT request uses the non-expanding insert', st['loc'], 'discharged' if ok else 'finding', why='guarded by (flags & CreateRt) == CreateRt'))
    # failure of the RT insert is reported
    def _insert_result_is_end(f):
        # `<result of insert> == map.end()`, whatever the result is called: a local assigned from insert(..) / insert(..).first, or ir.first
        if f[0] == 'truth' and f[2] and short(strip(f[1]).get('callee', '')) == 'operator==' and len(strip(f[1]).get('a', [])) == 2:
            f = ('cmp', '==', strip(f[1])['a'][0], strip(f[1])['a'][1])       # iterator comparison
        if f[0] != 'cmp' or f[1] != '==':
            return False
        sides = [show(f[2]), show(f[3])]
        if not any('end()' in x for x in sides):
            return False
        other = [x for x in sides if 'end()' not in x]
        if not other:
            return False
        o = other[0]
        if 'insert(' in o:
            return True
        names = {short(y['n']) for y in walk([f[2], f[3]]) if y.get('k') == 'DeclRefExpr' and not y.get('parm')}
        for b3, j3, st3 in gb.cfg.stmts():
            for y in walk(st3['s']):
                ap3 = assign_parts(y)
                if ap3 and strip(ap3[0]).get('k') == 'DeclRefExpr' and short(strip(ap3[0])['n']) in names and 'insert(' in show(ap3[1]):
                    return True
            if st3['s'].get('k') == 'DeclStmt':
                for v3 in st3['s']['decls']:
                    if v3['n'] in names and v3.get('init') is not None and 'insert(' in show(v3['init']):
                        return True
        return False
    okf = any(const_of(st['s'].get('e')) in fail_consts and any(_insert_result_is_end(f) for f in guard_facts(gb, b, st)) for b, j, st in gb.cfg.returns())
    if helper_call is not None:
        # .. and the API function returns -1 when the helper reports the failure
        okf = okf and any(const_of(st['s'].get('e')) == -1 and any(f[0] == 'truth' and not f[2] and callee_name(strip(f[1])) == helper_call for f in guard_facts(gb_api, b, st))
                          for b, j, st in gb_api.cfg.returns())
    obls.append(Obl('C16.R2', gb.name, 'exhausted capacity is reported', gb.loc, 'discharged' if okf else 'finding', why='insert result == map.end() -> return -1' if okf else 'a failed real-time creation is not reported'))
    # creation keeps an existing bank: the entry is obtained through insert(), which returns the existing slot; an assignment through
    # operator[] would write the blank template over a bank that already exists
    over = [(st['loc'], show(x)[:60]) for b, j, st in gb.cfg.stmts() for x in walk(st['s'])
            if assign_parts(x) and short(strip(assign_parts(x)[0]).get('callee', '')) == 'operator[]' and 'BankMap' in (strip(assign_parts(x)[0]).get('callee', '') + show(assign_parts(x)[0]))]
    over += [(st['loc'], show(x)[:60]) for b, j, st in gb.cfg.stmts() for x in walk(st['s'])
             if short(x.get('callee', '')) == 'operator=' and x.get('a') and short(strip(x['a'][0]).get('callee', '')) == 'operator[]']
    obls.append(Obl('C16.R2', gb.name, 'creating an existing bank keeps its instruments', over[0][0] if over else gb.loc, 'finding' if over else 'discharged',
                    why=('%s overwrites the entry of a bank that already exists with the blank template: its 128 instruments are lost' % over[0][1]) if over else 'banks are created through insert(), which returns an existing entry unchanged'))

    # ---- R2
    def mutators(fn):
        """statements of an insert overload that take a slot or change the map"""
        for b, j, st in fn.cfg.stmts():
            hit = None
            for x in walk(st['s']):
                if not isinstance(x, dict):
                    continue
                if short(callee_name(x) or '') in ('allocate_slot', 'ensure_allocate_slot', 'reserve', 'bucket_add'):
                    hit = short(callee_name(x))
                elif 'callee' in x and callee_name(x):
                    # the common tail of the two overloads as a private helper: its call is the linking step
                    for cf in facts.fns.get(callee_name(x), [])[:1]:
                        if is_local_helper(fn, cf) and any(short(callee_name(y) or '') == 'bucket_add' for y in calls_in(cf.tree)):
                            hit = 'bucket_add'
                if is_incdec(x) and short(strip(x['e']).get('n', '')) == 'm_size':
                    hit = '++m_size'
            if hit:
                yield b, j, st, hit
    for fn, name in ((rt, 'non-expanding'), (ex, 'expanding')):
        # existing key: nothing is allocated or linked unless the bucket search came back empty (however the function leaves: an
        # early return with the found slot, or one exit with the insertion nested under `if(!slot)`)
        slot_ids = slot_locals(fn)
        ms = list(mutators(fn))
        bad = [(st['loc'], hit) for b, j, st, hit in ms
               if not any(f[0] == 'truth' and not f[2] and strip(f[1]).get('id') in slot_ids for f in guard_facts(fn, b, st))]
        found_first = bool(ms) and not bad
        obls.append(Obl('C16.R2', fn.name, '%s insert returns the existing entry' % name, bad[0][0] if bad else fn.loc, 'discharged' if found_first else 'finding',
                        why='allocation and linking only under a failed bucket_find (%d statements)' % len(ms) if found_first else
                        'an existing key is not returned before allocating: duplicate entries (%s is not guarded by the empty search result)' % (bad[0][1] if bad else 'nothing')))
    # the non-expanding insert fails only when allocate_slot() returned NULL: with a slot in hand the entry is linked - the only
    # conditions on the way to bucket_add are the two tests of the slot pointer
    slot_ids = slot_locals(rt)
    fail = None
    for b, j, st, hit in mutators(rt):
        if hit != 'bucket_add':
            continue
        gf = guard_facts(rt, b, st)
        def about_slot(f):
            es = [f[1]] if f[0] == 'truth' else ([f[2], f[3]] if f[0] == 'cmp' else None)
            if es is None:
                return False
            return any(isinstance(y, dict) and ((y.get('k') == 'DeclRefExpr' and y.get('id') in slot_ids) or short(callee_name(y) or '') == 'allocate_slot') for e_ in es for y in walk(e_)) and \
                not any(isinstance(y, dict) and y.get('k') == 'MemberExpr' for e_ in es for y in walk(e_) if short(callee_name(y) or '') != 'allocate_slot')
        foreign = [fact_str(f) for f in gf if not about_slot(f)]
        has_alloc_test = any(about_slot(f) and ((f[0] == 'truth' and f[2]) or (f[0] == 'cmp' and f[1] == '!=')) for f in gf)
        fail = (st, not foreign and has_alloc_test, foreign)
    obls.append(Obl('C16.R2', rt.name, 'fails only when allocate_slot() returned NULL', fail[0]['loc'] if fail else rt.loc, 'discharged' if fail and fail[1] else 'finding',
                    why='the entry is linked whenever allocate_slot() gave a slot' if fail and fail[1] else
                    'the failing return is not tied to an empty free list%s' % ((': linking also depends on ' + '; '.join(fail[2])[:80]) if fail and fail[2] else '')))
    for fn in (rt, ex):
        seq = []
        for b, j, st, s_, owner, bind in with_helpers(facts, fn):      # the common tail of the two overloads may be a private helper
            for x in walk(s_):
                if short(x.get('callee', '')) == 'bucket_add':
                    seq.append('add')
                if is_incdec(x) and x['op'] == '++' and short(strip(x['e']).get('n', '')) == 'm_size':
                    seq.append('size')
                ap = assign_parts(x)
                def slot_value(e_):
                    e_ = strip(e_)
                    return e_.get('k') == 'MemberExpr' and short(e_['n']) == 'value' and 'Slot' in e_['n']
                if (ap and slot_value(ap[0])) or (x.get('k') == 'CXXOperatorCallExpr' and short(x.get('callee', '')) == 'operator=' and x.get('a') and slot_value(x['a'][0])):
                    seq.append('value')
        ok = 'add' in seq and 'size' in seq and 'value' in seq
        obls.append(Obl('C16.R2', fn.name, 'store value, link into bucket, count', fn.loc, 'discharged' if ok else 'finding', why=','.join(seq)))

    # ---- R3 (codec)
    from . import c12
    for o in c12.analyse(facts, tier):
        if o.rule == 'C12.R1' and o.fn in ('opn2_getBank', 'opn2_getBankId'):
            o.rule = 'C16.R3'
            obls.append(o)

    # ---- R4
    loops = []
    def rec(t):
        if isinstance(t, dict):
            if t.get('k') == 'ForStmt':
                loops.append(t)
            for k2 in ('body', 'then', 'else', 'sub'):
                v = t.get(k2)
                if isinstance(v, list):
                    for y in v:
                        rec(y)
                elif isinstance(v, dict):
                    rec(v)
    # the blank template may be built by a local helper of the creating function
    fill_fns = [gb]
    for src_ in (gb, gb_api):
        for x in calls_in(src_.tree):
            for cf in facts.fns.get(callee_name(x), [])[:1]:
                if is_local_helper(src_, cf) and cf not in fill_fns:
                    fill_fns.append(cf)
    for ff in fill_fns:
        rec(ff.tree)
    okl = False
    for l in loops:
        c = strip(l['cond'])
        if c.get('k') == 'BinaryOperator' and c['op'] == '<' and const_of(c['r']) == 128:
            for x in walk(l.get('body')):
                ap = assign_parts(x)
                if ap and short(strip(ap[0]).get('n', '')) == 'flags' and const_of(ap[1]) == E.get('Flag_NoSound') and mentions(ap[0], lambda y: y.get('k') == 'ArraySubscriptExpr' and y.get('ext') == 128):
                    okl = True
    obls.append(Obl('C16.R4', gb.name, 'all 128 entries marked Flag_NoSound', gb.loc, 'discharged' if okl else 'finding', why='for i < 128: ins[i].flags = Flag_NoSound' if okl else 'a created bank is not filled with blank entries'))
    zero = any(short(callee_name(x)) in ('memset', '__builtin_memset') and const_of(x['a'][1]) == 0 for ff in fill_fns for b, j, st in ff.cfg.stmts() for x in calls_in(st['s']))
    obls.append(Obl('C16.R4', gb.name, 'new bank zero-initialised', gb.loc, 'discharged' if zero else 'finding', why='memset(&value.second, 0, sizeof)'))

    # ---- R5
    er = facts.fn(BM + '::erase')
    seq = []
    for b, j, st in er.cfg.stmts():
        for x in walk(st['s']):
            if short(x.get('callee', '')) in ('bucket_remove', 'free_slot'):
                seq.append(short(x['callee']))
            if is_incdec(x) and x['op'] == '--' and short(strip(x['e']).get('n', '')) == 'm_size':
                seq.append('--size')
    ok = seq[:2] == ['bucket_remove', 'free_slot'] and '--size' in seq
    obls.append(Obl('C16.R5', er.name, 'unlink, free, count', er.loc, 'discharged' if ok else 'finding', why=' ; '.join(seq)))
    fs = facts.fn(BM + '::free_slot')
    reset = any('value.second' in show(x['a'][0]) and short(x.get('callee', '')) == 'operator=' for b, j, st in fs.cfg.stmts() for x in walk(st['s']) if x.get('k') == 'CXXOperatorCallExpr' and x.get('a'))
    head = any(assign_parts(x) and short(strip(assign_parts(x)[0]).get('n', '')) == 'm_freeslots' and strip(assign_parts(x)[1]).get('id') == fs.params[0]['id'] for b, j, st in fs.cfg.stmts() for x in walk(st['s']))
    obls.append(Obl('C16.R5', fs.name, 'freed slot becomes the list head with a reset value', fs.loc, 'discharged' if (reset and head) else 'finding', why='m_freeslots = slot; value.second = T()' if (reset and head) else 'freed slots keep their old bank (reset=%s, head=%s)' % (reset, head)))
    cl = facts.fn(BM + '::clear')
    hb = None
    for b in cl.d['blocks']:
        c = b.get('cond')
        if c is not None and strip(c).get('k') == 'BinaryOperator' and strip(c)['op'] == '<' and strip(strip(c)['l']).get('k') == 'DeclRefExpr' and const_of(strip(c)['r']) is not None:
            hb = const_of(strip(c)['r'])        # the counted loop over the buckets
    frees = any(short(callee_name(x)) == 'free_slot' for b, j, st in cl.cfg.stmts() for x in calls_in(st['s']))
    nulls = any(assign_parts(x) and 'm_buckets' in show(assign_parts(x)[0]) and (const_of(assign_parts(x)[1]) == 0 or strip(assign_parts(x)[1]).get('k') in ('GNUNullExpr', 'CXXNullPtrLiteralExpr')) for b, j, st in cl.cfg.stmts() for x in walk(st['s']))
    zero = any(assign_parts(x) and short(strip(assign_parts(x)[0]).get('n', '')) == 'm_size' and const_of(assign_parts(x)[1]) == 0 for b, j, st in cl.cfg.stmts() for x in walk(st['s']))
    nb = E.get('hash_buckets')
    # .. or all bucket heads at once: std::fill(buckets, buckets + hash_buckets, NULL) / fill_n / memset over the bucket table
    al_cl = alias_defs(cl.d)
    for b, j, st in cl.cfg.stmts():
        for x in calls_in(st['s']):
            sn_ = short(callee_name(x))
            a_ = [subst(y, al_cl) for y in (x.get('a') or [])]
            if sn_ == 'fill' and len(a_) == 3 and 'm_buckets' in show(a_[0]) and 'm_buckets' in show(a_[1]) and any(isinstance(y, dict) and const_of(y) == nb for y in walk(a_[1])) and \
                    (const_of(a_[2]) == 0 or any(isinstance(y, dict) and y.get('k') in ('GNUNullExpr', 'CXXNullPtrLiteralExpr') for y in walk(a_[2]))):
                nulls = True
            if sn_ == 'fill_n' and len(a_) == 3 and 'm_buckets' in show(a_[0]) and const_of(a_[1]) == nb and (const_of(a_[2]) == 0 or any(isinstance(y, dict) and y.get('k') in ('GNUNullExpr', 'CXXNullPtrLiteralExpr') for y in walk(a_[2]))):
                nulls = True
    if not nulls:
        nulls = any(assign_parts(x) and 'm_buckets' in show(subst(assign_parts(x)[0], al_cl)) and (const_of(assign_parts(x)[1]) == 0 or strip(assign_parts(x)[1]).get('k') in ('GNUNullExpr', 'CXXNullPtrLiteralExpr')) for b, j, st in cl.cfg.stmts() for x in walk(st['s']))
    ok = hb is not None and hb == nb and frees and nulls and zero
    obls.append(Obl('C16.R5', cl.name, 'every slot of every bucket freed, heads and size zeroed', cl.loc, 'discharged' if ok else 'finding',
                    why='loop over %s buckets' % hb if ok else 'clear is incomplete (buckets %s/%s, frees=%s, heads=%s, size=%s)' % (hb, nb, frees, nulls, zero)))
    al = facts.fn(BM + '::allocate_slot')
    sd_al = single_defs(al.d)
    def is_next_link(e_):
        e_ = strip(subst(strip(e_), sd_al))
        return e_.get('k') == 'MemberExpr' and short(e_['n']) == 'next'
    okh = any(assign_parts(x) and short(strip(assign_parts(x)[0]).get('n', '')) == 'm_freeslots' and is_next_link(assign_parts(x)[1]) for b, j, st in al.cfg.stmts() for x in walk(st['s']))
    obls.append(Obl('C16.R5', al.name, 'taking a slot advances the free list', al.loc, 'discharged' if okh else 'finding', why='m_freeslots = slot->next'))
    it = facts.fn(BM + '::iterator::operator++', required=False)
    if it:
        okit = any(b.get('cond') is not None and 'hash_buckets' in show(b['cond']) or (b.get('cond') is not None and const_of(strip(b['cond']).get('r', {})) == nb) for b in it.d['blocks'])
        obls.append(Obl('C16.R5', it.name, 'iteration walks chains, then the following buckets', it.loc, 'discharged' if okit else 'finding', why='slot->next, else next non-empty bucket below hash_buckets'))

    # iteration ends: when operator++ runs off the last bucket (the edge `index < hash_buckets` is false) the iterator must equal end(),
    # i.e. its slot member is NULL; a tiny path-sensitive nullness dataflow (states are kept apart by "ran off the end")
    if it:
        def key_of(e):
            e = strip(e)
            if e is None:
                return None
            if e.get('k') == 'DeclRefExpr':
                return ('v', e.get('id'))
            if e.get('k') == 'MemberExpr' and strip(e.get('b')).get('k') == 'CXXThisExpr':
                return ('m', short(e['n']))
            return None
        def is_null_expr(e, nulls):
            e = strip(e)
            if e is None:
                return False
            if const_of(e) == 0 or e.get('k') in ('GNUNullExpr', 'CXXNullPtrLiteralExpr'):
                return True
            return key_of(e) in nulls
        def xfer(e, nulls):
            nulls = set(nulls)
            for x in walk(e):
                if x.get('k') == 'DeclStmt':
                    for v in x.get('decls', []):
                        if v.get('init') is not None and is_null_expr(v['init'], nulls):
                            nulls.add(('v', v['id']))
                        else:
                            nulls.discard(('v', v['id']))
                ap = assign_parts(x)
                if ap:
                    kk = key_of(ap[0])
                    if kk is not None:
                        (nulls.add if is_null_expr(ap[1], nulls) else nulls.discard)(kk)
            return frozenset(nulls)
        cfg = it.cfg
        states = {cfg.entry: {(False, frozenset())}}
        work = [cfg.entry]
        bad_paths = 0
        n_exit = 0
        while work:
            bid = work.pop()
            blk = cfg.blocks[bid]
            for (atend, nulls) in list(states[bid]):
                for st in blk['stmts']:
                    if any(is_incdec(x) and short(strip(x['e']).get('n', '')) == 'index' for x in walk(st['s'])):
                        atend = False
                    nulls = xfer(st['s'], nulls)
                    if st['s'].get('k') == 'ReturnStmt':
                        n_exit += 1
                        if atend and ('m', 'slot') not in nulls:
                            bad_paths += 1
                c = blk.get('cond')
                for k, t in enumerate(blk['succ']):
                    if t is None:
                        continue
                    a2, n2 = atend, nulls
                    if c is not None and len(blk['succ']) == 2:
                        n2 = xfer(c, nulls)
                        sc = strip(c)
                        # `index < hash_buckets` false: ran off the last bucket
                        if sc.get('k') == 'BinaryOperator' and sc['op'] == '<' and short(strip(sc['l']).get('n', '')) == 'index' and k == 1:
                            a2 = True
                        # !(X = e) true -> X is NULL; false -> X non-null
                        if sc.get('k') == 'UnaryOperator' and sc['op'] == '!' and assign_parts(strip(sc['e'])):
                            kk = key_of(assign_parts(strip(sc['e']))[0])
                            if kk is not None:
                                n2 = frozenset(set(n2) | {kk}) if k == 0 else frozenset(set(n2) - {kk})
                        else:
                            # a plain null test of a pointer: `p`, `!p`, `p != NULL`, `p == NULL`
                            tst, null_on_true = sc, False
                            while tst.get('k') == 'UnaryOperator' and tst.get('op') == '!':
                                tst, null_on_true = strip(tst['e']), not null_on_true
                            if tst.get('k') == 'BinaryOperator' and tst.get('op') in ('==', '!=') and is_null_expr(tst.get('r'), frozenset()):
                                null_on_true = null_on_true != (tst['op'] == '==')
                                tst = strip(tst['l'])
                            kk = key_of(tst) if tst.get('k') in ('DeclRefExpr', 'MemberExpr') else None
                            if kk is not None and (tst.get('t') or {}).get('p'):
                                is_null_edge = (k == 0) == null_on_true
                                n2 = frozenset(set(n2) | {kk}) if is_null_edge else frozenset(set(n2) - {kk})
                    new = (a2, n2)
                    if new not in states.setdefault(t, set()):
                        states[t].add(new)
                        work.append(t)
        oke = n_exit > 0 and bad_paths == 0
        obls.append(Obl('C16.R5', it.name, 'running off the last bucket yields end()', it.loc, 'discharged' if oke else 'finding',
                        why='slot member is NULL on every path where index reached hash_buckets' if oke else
                        'a path leaves operator++ with index == hash_buckets but a non-NULL slot: the iterator never compares equal to end() and iteration over the banks does not terminate'))
    # cached pointers into the slot pool: every member of the map that holds a Slot* (besides the free list and the bucket table) must be
    # reset by every function that frees slots — clear() as well as erase(); a freed slot keeps its old key, so a stale pointer still "finds" it
    rec_ = None
    for rn, r0 in facts.records.items():
        if rn.startswith('BasicBankMap') and any(f['n'] == 'm_freeslots' for f in r0.get('fields', [])):
            rec_ = r0
    if rec_ is None:
        raise build.AnalysisBroken('C16.R5: record BasicBankMap not found')
    slot_ptrs = [f['n'] for f in rec_['fields'] if (f.get('t') or {}).get('p') and 'Slot' in ((f['t'].get('pt') or '') + (f['t'].get('s') or '')) and f['n'] not in ('m_freeslots',)]
    freers = [f for f in facts.all_fns() if f.name.startswith(BM + '::') and f.tree is not None and short(f.name) not in ('free_slot', 'reserve') and
              any(short(callee_name(x)) == 'free_slot' for b, ex, loc in f.cfg.exprs() for x in calls_in(ex))]
    if len(freers) < 2:
        raise build.AnalysisBroken('C16.R5: functions that free slots (erase, clear) not found')
    for fld in slot_ptrs:
        for f in freers:
            okc = any(assign_parts(x) and strip(assign_parts(x)[0]).get('k') == 'MemberExpr' and short(strip(assign_parts(x)[0])['n']) == fld
                      for b, j, st in f.cfg.stmts() for x in walk(st['s']))
            obls.append(Obl('C16.R5', f.name, 'cached slot pointer %s invalidated' % fld, f.loc, 'discharged' if okc else 'finding',
                            why='%s is reset' % fld if okc else
                            '%s frees slots but leaves %s pointing into them: a later lookup of the old key is answered from the freed slot (a removed or replaced bank is still found)' % (short(f.name), fld)))
    obls.append(Obl('C16.R5', BM, 'members holding slot pointers', rec_.get('loc', ''), 'discharged', why='m_freeslots%s' % (''.join(', ' + x for x in slot_ptrs)), nontrivial=False))
    # ---- R6
    br = facts.fn(BM + '::bucket_remove')
    cfg = br.cfg
    # roles: the slot and the bucket index are the parameters; P / N are the locals initialised from slot->prev / slot->next
    def fld(e, name, base_id=None):
        e = strip(e)
        return e.get('k') == 'MemberExpr' and short(e['n']) == name and (base_id is None or strip(e.get('b') or {}).get('id') == base_id)
    def local_from(fn_, pred):
        for x in walk(fn_.tree):
            if isinstance(x, dict) and x.get('k') == 'DeclStmt':
                for v in x.get('decls', []):
                    if v.get('init') is not None and pred(v['init']):
                        return v['id']
        return None
    def bucket_head(e, idx_id):
        e = strip(e)
        if e.get('k') == 'CXXOperatorCallExpr' and short(e.get('callee', '')) == 'operator[]' and len(e.get('a', [])) == 2:
            return mentions(e['a'][0], member_named('m_buckets')) and strip(e['a'][1]).get('id') == idx_id
        return e.get('k') == 'ArraySubscriptExpr' and mentions(e['b'], member_named('m_buckets')) and strip(e['i']).get('id') == idx_id
    r_idx, r_slot = br.params[0]['id'], br.params[1]['id']
    P = local_from(br, lambda e: fld(e, 'prev', r_slot))
    N = local_from(br, lambda e: fld(e, 'next', r_slot))
    if P is None or N is None:
        raise build.AnalysisBroken('C16.R6: bucket_remove does not read slot->prev / slot->next into locals')
    test_next = [bid for bid, b in cfg.blocks.items() if b.get('cond') is not None and strip(b['cond']).get('id') == N]
    pd = cfg.pdom().get(('b', cfg.entry)) or ()
    ok = bool(test_next) and ('b', test_next[0]) in pd
    asg = [assign_parts(x) for b, j, st in cfg.stmts() for x in walk(st['s']) if assign_parts(x)]
    back = any(fld(a[0], 'prev', N) and strip(a[1]).get('id') == P for a in asg)
    fwd = any(fld(a[0], 'next', P) and strip(a[1]).get('id') == N for a in asg) and any(bucket_head(a[0], r_idx) and strip(a[1]).get('id') == N for a in asg)
    obls.append(Obl('C16.R6', br.name, 'successor back-link updated on every path', br.loc, 'discharged' if (ok and back) else 'finding',
                    why='`if(next) next->prev = prev` post-dominates the entry' if (ok and back) else 'a path unlinks the slot without fixing next->prev: the chain keeps a pointer to a freed slot'))
    obls.append(Obl('C16.R6', br.name, 'predecessor / bucket head forward link updated', br.loc, 'discharged' if fwd else 'finding', why='m_buckets[index] = next or prev->next = next'))
    ba = facts.fn(BM + '::bucket_add')
    a_idx, a_slot = ba.params[0]['id'], ba.params[1]['id']
    AN = local_from(ba, lambda e: bucket_head(e, a_idx))
    asg = [assign_parts(x) for b, j, st in ba.cfg.stmts() for x in walk(st['s']) if assign_parts(x)]
    oka = AN is not None and any(fld(a[0], 'prev', AN) and strip(a[1]).get('id') == a_slot for a in asg) and \
        any(fld(a[0], 'next', a_slot) and strip(a[1]).get('id') == AN for a in asg) and \
        any(bucket_head(a[0], a_idx) and strip(a[1]).get('id') == a_slot for a in asg)
    obls.append(Obl('C16.R6', ba.name, 'new head linked in both directions', ba.loc, 'discharged' if oka else 'finding', why='next->prev = slot; slot->next = next; m_buckets[index] = slot'))
    # head invariant: bucket_remove recognises the head of a chain by prev == NULL and bucket_add never stores slot->prev, so
    # (i) every slot that becomes the free-list head has its prev cleared in the same function, and (ii) bucket_add only receives
    # slots taken from the free list (or clears prev itself)
    def is_null(e):
        e = strip(e)
        return e is not None and (const_of(e) == 0 or e.get('k') in ('GNUNullExpr', 'CXXNullPtrLiteralExpr'))
    clears_in_add = any(assign_parts(x) and fld(assign_parts(x)[0], 'prev', a_slot) and is_null(assign_parts(x)[1]) for b, j, st in ba.cfg.stmts() for x in walk(st['s']))
    nh = 0
    for fname in ('free_slot', 'allocate_slot'):
        fn = facts.fn(BM + '::' + fname)
        for b, j, st in fn.cfg.stmts():
            for x in walk(st['s']):
                ap = assign_parts(x)
                if not (ap and strip(ap[0]).get('k') == 'MemberExpr' and short(strip(ap[0])['n']) == 'm_freeslots'):
                    continue
                X = strip(ap[1])
                if is_null(X):
                    continue
                nh += 1
                xt = short(X['n']) if X.get('k') == 'DeclRefExpr' else show(X)
                clears = [b2 for b2, j2, st2 in fn.cfg.stmts() for y in walk(st2['s'])
                          if assign_parts(y) and show(strip(assign_parts(y)[0])) == '%s->prev' % xt and is_null(assign_parts(y)[1]) and fn.cfg.stmt_before((b2, j2), (b, j))]
                # every path to the store on which X is non-null passes one of the clearing stores
                seen, stack, reach = set(), [fn.cfg.entry], False
                while stack:
                    n = stack.pop()
                    if n in seen or n in clears:
                        continue
                    seen.add(n)
                    if n == b:
                        reach = True
                        break
                    blk = fn.cfg.blocks[n]
                    for k, t in enumerate(blk['succ']):
                        if t is None:
                            continue
                        c = blk.get('cond')
                        if c is not None and len(blk['succ']) == 2 and strip(c).get('k') == 'DeclRefExpr' and strip(c).get('id') == X.get('id') and k == 0:
                            pass            # X != NULL edge: must be covered
                        elif c is not None and len(blk['succ']) == 2 and strip(c).get('k') == 'DeclRefExpr' and strip(c).get('id') == X.get('id') and k == 1:
                            continue        # X == NULL: nothing to clear
                        stack.append(t)
                okh2 = (bool(clears) and not reach) or clears_in_add      # a bucket_add that clears prev itself does not need the free-list invariant
                obls.append(Obl('C16.R6', fn.name, 'free-list head %s has prev == NULL' % xt, st['loc'], 'discharged' if okh2 else 'finding',
                                why='%s->prev = NULL on every path where it is non-null' % xt if okh2 else
                                'a slot becomes the free-list head with a stale prev link: once recycled into a bucket, bucket_remove mistakes it for a non-head slot and splices the chain through a foreign slot (stale lookups, self-linked chains)'))
    if nh < 2:
        raise build.AnalysisBroken('C16.R6: stores of m_freeslots not found in free_slot/allocate_slot')
    clears_in_add = any(assign_parts(x) and fld(assign_parts(x)[0], 'prev', a_slot) and is_null(assign_parts(x)[1]) for b, j, st in ba.cfg.stmts() for x in walk(st['s']))
    srcs = []
    for fn in facts.all_fns():
        if not fn.name.startswith(BM + '::') or fn.tree is None:
            continue
        sd = single_defs(fn.d)
        for b, j, st in fn.cfg.stmts():
            for x in calls_in(st['s']):
                if short(callee_name(x)) == 'bucket_add' and len(x.get('a', [])) == 2:
                    a = strip(x['a'][1])
                    def defs_of(g, var):
                        out_ = []
                        for b2, j2, st2 in g.cfg.stmts():
                            for y in walk(st2['s']):
                                ap = assign_parts(y)
                                if ap and strip(ap[0]).get('id') == var.get('id'):
                                    out_.append(short(callee_name(strip(ap[1]))))
                            if st2['s'].get('k') == 'DeclStmt':
                                for v in st2['s']['decls']:
                                    if v['id'] == var.get('id') and v.get('init') is not None:
                                        out_.append(short(callee_name(strip(v['init']))))
                        return out_
                    defs = defs_of(fn, a)
                    pids = {p_['id']: i_ for i_, p_ in enumerate(fn.params)}
                    if a.get('id') in pids:
                        # the slot is handed in by the callers of this (private) function: what they pass is what counts
                        for g in facts.all_fns():
                            if not g.name.startswith(BM + '::') or g.tree is None:
                                continue
                            for b3, j3, st3 in g.cfg.stmts():
                                for y in calls_in(st3['s']):
                                    if callee_name(y) == fn.name and len(y.get('a', [])) > pids[a['id']]:
                                        arg = strip(y['a'][pids[a['id']]])
                                        dd = defs_of(g, arg) if arg.get('k') == 'DeclRefExpr' else []
                                        defs += dd if dd else ['?']
                    srcs.append((fn.name, st['loc'], defs))
    for fname, loc, defs in srcs:
        fresh = [d for d in defs if d in ('allocate_slot', 'ensure_allocate_slot')]
        # the last definitions reaching the call are the allocator results (bucket_find results lead to an early return)
        okc = clears_in_add or bool(fresh)
        obls.append(Obl('C16.R6', fname, 'bucket_add receives a slot with prev == NULL', loc, 'discharged' if okc else 'finding',
                        why='slot comes from allocate_slot()/ensure_allocate_slot() (free-list head)' if fresh else ('bucket_add clears slot->prev' if clears_in_add else 'slot of unknown origin becomes a chain head')))
    rs = facts.fn(BM + '::reserve')
    loops = []
    rec(rs.tree)
    okr = False
    form = ''
    # roles: N = the local added to m_capacity (the number of new slots), i = the counter of the loop that frees them
    need_id = None
    for b, j, st in rs.cfg.stmts():
        for x in walk(st['s']):
            ap = assign_parts(x)
            if ap and ap[2] == '+=' and short(strip(ap[0]).get('n', '')) == 'm_capacity' and strip(ap[1]).get('k') == 'DeclRefExpr':
                need_id = strip(ap[1])['id']
    for l in loops:
        if not mentions(l.get('body'), lambda y: short(callee_name(y)) == 'free_slot'):
            continue
        c = strip(l['cond']) if l.get('cond') else {}
        init = l.get('init')
        iv_id = init_e = None
        if init is not None and init.get('k') == 'DeclStmt' and init.get('decls'):
            iv_id, init_e = init['decls'][0]['id'], init['decls'][0].get('init')
        elif init is not None and assign_parts(init):
            iv_id, init_e = strip(assign_parts(init)[0]).get('id'), assign_parts(init)[1]
        body_idx = None
        for x in walk(l.get('body')):
            if short(callee_name(x)) == 'free_slot':
                for y in walk(x['a']):
                    if y.get('k') == 'CXXOperatorCallExpr' and short(y.get('callee', '')) == 'operator[]':
                        body_idx = strip(y['a'][1])
        form = 'init=%s cond=%s inc=%s index=%s' % (show(init) if init else '', show(c), show(l.get('inc')) if l.get('inc') else '', show(body_idx) if body_idx else None)
        def is_iv(e):
            return e is not None and strip(e).get('k') == 'DeclRefExpr' and strip(e).get('id') == iv_id
        def is_need(e):
            return e is not None and strip(e).get('k') == 'DeclRefExpr' and strip(e).get('id') == need_id
        idx_minus1 = body_idx is not None and body_idx.get('k') == 'BinaryOperator' and body_idx.get('op') == '-' and is_iv(body_idx['l']) and const_of(body_idx['r']) == 1
        # down-counting: for(i = N; i-- > 0;) ... [i]
        if is_need(init_e) and c.get('k') == 'BinaryOperator' and c['op'] == '>' and const_of(c['r']) == 0 and is_incdec(strip(c['l'])) and strip(c['l'])['op'] == '--' and strip(c['l']).get('post') \
                and is_iv(strip(c['l'])['e']) and is_iv(body_idx):
            okr = True
        # up-counting: for(i = 0; i < N; ++i) ... [i]
        if init_e is not None and const_of(init_e) == 0 and c.get('k') == 'BinaryOperator' and c['op'] == '<' and is_iv(c['l']) and is_need(c['r']) and is_iv(body_idx):
            okr = True
        # down-counting with explicit decrement: for(i = N; i > 0; --i) ... [i - 1]
        if is_need(init_e) and c.get('k') == 'BinaryOperator' and c['op'] == '>' and const_of(c['r']) == 0 and is_iv(c['l']) and idx_minus1:
            okr = True
        # pointer walks over the new slab: for(cur = first + N; cur != first;) free_slot(--cur);   /   for(cur = first; cur != first + N; ++cur) free_slot(cur);
        sd_rs = single_defs(rs.d)
        def base_plus_need(e):
            e = strip(subst(strip(e), {k_: v_ for k_, v_ in sd_rs.items() if k_ != iv_id})) if e is not None else None
            if e is not None and e.get('k') == 'BinaryOperator' and e.get('op') == '+':
                for a_, b_ in ((e['l'], e['r']), (e['r'], e['l'])):
                    if is_need(b_):
                        return show(strip(a_))
            return None
        def plain(e):
            return show(strip(subst(strip(e), {k_: v_ for k_, v_ in sd_rs.items() if k_ != iv_id}))) if e is not None else None
        fs_arg = None
        for x in walk(l.get('body')):
            if short(callee_name(x)) == 'free_slot' and x.get('a'):
                fs_arg = strip(x['a'][0])
        if iv_id is not None and c.get('k') == 'BinaryOperator' and c['op'] == '!=' and is_iv(c['l']) and fs_arg is not None:
            if base_plus_need(init_e) is not None and base_plus_need(init_e) == plain(c['r']) and l.get('inc') is None and \
                    is_incdec(fs_arg) and fs_arg['op'] == '--' and not fs_arg.get('post') and is_iv(fs_arg['e']):
                okr = True
            inc_ = strip(l['inc']) if l.get('inc') is not None else None
            if init_e is not None and base_plus_need(c['r']) is not None and base_plus_need(c['r']) == plain(init_e) and \
                    ((is_iv(fs_arg) and inc_ is not None and is_incdec(inc_) and inc_['op'] == '++' and is_iv(inc_['e'])) or
                     (inc_ is None and is_incdec(fs_arg) and fs_arg['op'] == '++' and fs_arg.get('post') and is_iv(fs_arg['e']))):
                okr = True
    cap = need_id is not None
    obls.append(Obl('C16.R6', rs.name, 'every new slot goes to the free list; capacity grows by the same count', rs.loc, 'discharged' if (okr and cap) else 'finding',
                    why=form if (okr and cap) else 'cannot establish that all `need` new slots are handed to the free list while the capacity grows by `need` (%s)' % form))
    obls += r7_converters_total(facts)
    obls += r8_load_all(facts)
    obls += r9_file_keys(facts)
    return obls


def r7_converters_total(facts):
    """opn2_setInstrument stores cvt_generic_to_FMIns(in) and opn2_getInstrument returns cvt_FMIns_to_generic of it: what is read back
    equals what was written only if both converters assign every field whatever the field values are: no return before the end,
    no field copy under a condition (the constant-trip operator loop excepted)."""
    out = []
    n = 0
    for name in ('cvt_generic_to_FMIns', 'cvt_FMIns_to_generic'):
        fns = [f for f in facts.fns.get(name, []) if f.tree is not None]
        for fn in fns[:1]:
            n += 1
            early = [st for b, j, st in fn.cfg.returns()]
            cond = []
            for b, j, st in fn.cfg.stmts():
                ap = assign_parts(st['s'])
                if not ap:
                    continue
                gf = [f for f in guard_facts(fn, b, st, loops=False)]
                if gf:
                    cond.append((st['loc'], show(st['s'])[:40], ' ; '.join(fact_str(f) for f in gf)[:60]))
            ok = not early and not cond
            why = 'no early return, every field copy is unconditional' if ok else \
                ('returns at %s before the remaining fields are copied: the destination keeps what it held before (an instrument written over another one reads back with the old operator data)' % early[0]['loc'].split('/')[-1] if early else
                 'field copy %s only under [%s]' % (cond[0][1], cond[0][2]))
            out.append(Obl('C16.R7', fn.name, 'total conversion', (early[0]['loc'] if early else cond[0][0] if cond else fn.loc), 'discharged' if ok else 'finding', why=why))
    if n < 2:
        raise build.AnalysisBroken('C16.R7: instrument converters not found')
    return out


def _bank_copier(facts):
    """(function that copies the banks of the parsed file into the map, calls of it): the LoadBank overload with the conversion
    loop, or a local helper of LoadBank that does the copying bank set by bank set"""
    fns = [f for f in facts.fns.get('OPNMIDIplay::LoadBank', []) if f.tree is not None and any(short(callee_name(x)) == 'cvt_generic_to_FMIns' for b, j, st in f.cfg.stmts() for x in calls_in(st['s']))]
    call_sites = []
    if not fns:
        for lbf in facts.fns.get('OPNMIDIplay::LoadBank', []):
            if lbf.tree is None:
                continue
            for x in calls_in(lbf.tree):
                for cf in facts.fns.get(callee_name(x), [])[:1]:
                    if is_local_helper(lbf, cf) and any(short(callee_name(y)) == 'cvt_generic_to_FMIns' for y in calls_in(cf.tree)):
                        if cf not in fns:
                            fns.append(cf)
                        call_sites.append(x)
    return fns, call_sites


def r8_load_all(facts):
    """"a lookup finds a bank exactly if it was created or loaded": LoadBank must copy all banks of the parsed WOPNFile.  The loop
    that walks a bank array (`src[set][i]`) is bounded by the matching parsed count - banks_count_melodic / banks_count_percussion,
    directly or through the local array initialised from them - and by nothing smaller (a set can address 128 x 128 banks)."""
    out = []
    fns, call_sites = _bank_copier(facts)
    if not fns:
        raise build.AnalysisBroken('C16.R8: the LoadBank overload that copies the banks not found')
    fn = fns[0]
    pidx = {p_['id']: i_ for i_, p_ in enumerate(fn.params)}
    def kind_of(e):
        ms = [short(y.get('n', '')) for y in walk(e) if isinstance(y, dict) and y.get('k') == 'MemberExpr' and short(y.get('n', '')).startswith('banks_')]
        return ('melodic' if 'melodic' in ms[0] else 'percussive') if len(ms) == 1 else None
    inits = {}
    for b, j, st in fn.cfg.stmts():
        if st['s'].get('k') == 'DeclStmt':
            for v in st['s']['decls']:
                if v.get('init') is not None:
                    inits[v['id']] = v['init']
    arr_param = None
    def is_count(e, depth=0):
        e = strip(e)
        if e is None:
            return False
        if e.get('k') == 'MemberExpr' and short(e.get('n', '')).startswith('banks_count_'):
            return True
        if e.get('k') == 'ArraySubscriptExpr':
            base = strip(e.get('b'))
            if base.get('k') == 'DeclRefExpr' and base.get('id') in inits:
                # every element of the local array is a parsed count
                elems = [y for y in walk(inits[base['id']]) if isinstance(y, dict) and y.get('k') == 'MemberExpr']
                return bool(elems) and all(short(y.get('n', '')).startswith('banks_count_') for y in elems)
        if e.get('k') == 'DeclRefExpr' and e.get('id') in pidx and call_sites and arr_param is not None:
            # a count parameter of the helper: at every call it is the parsed count of the bank set that is passed along with it
            return all(len(c_.get('a', [])) > max(pidx[e['id']], pidx[arr_param]) and strip(c_['a'][pidx[e['id']]]).get('k') == 'MemberExpr' and
                       short(strip(c_['a'][pidx[e['id']]])['n']).startswith('banks_count_') and
                       kind_of(c_['a'][pidx[e['id']]]) is not None and kind_of(c_['a'][pidx[e['id']]]) == kind_of(c_['a'][pidx[arr_param]]) for c_ in call_sites)
        if depth < 2 and e.get('k') == 'DeclRefExpr' and not e.get('parm') and e.get('id') in inits:
            i_ = strip(inits[e['id']])
            return is_count(i_, depth + 1) and i_.get('k') in ('MemberExpr', 'ArraySubscriptExpr')
        return False
    n = 0
    for x in walk(fn.tree):
        if not (isinstance(x, dict) and x.get('k') == 'ForStmt' and x.get('cond') is not None):
            continue
        c = strip(x['cond'])
        if c.get('k') != 'BinaryOperator' or c.get('op') != '<':
            continue
        iv = strip(c['l'])
        # the loop variable selects a bank of a source array: src[..][iv]
        uses = [y for y in walk(x.get('body')) if isinstance(y, dict) and y.get('k') == 'ArraySubscriptExpr' and strip(y.get('i')).get('id') == iv.get('id') and
                (strip(y.get('b')).get('k') == 'ArraySubscriptExpr' or (strip(y.get('b')).get('k') == 'DeclRefExpr' and strip(y.get('b')).get('id') in pidx and 'WOPNBank' in ((strip(y.get('b')).get('t') or {}).get('s') or '')))]
        if not uses:
            continue
        arr_param = strip(uses[0].get('b')).get('id') if strip(uses[0].get('b')).get('k') == 'DeclRefExpr' else None
        n += 1
        ok = is_count(c['r'])
        out.append(Obl('C16.R8', fn.name, 'bank loop %s' % show(c)[:50], '%s:%s' % (fn.file, x.get('ln')), 'discharged' if ok else 'finding',
                       why='bounded by the parsed bank count' if ok else
                       'the loop over the banks of the file is bounded by %s, not by the parsed count: banks beyond that bound are dropped although the load reports success' % show(c['r'])[:50]))
    if n < 1:
        raise build.AnalysisBroken('C16.R8: bank loops of LoadBank not found')
    return out


def r9_file_keys(facts):
    """the key of a bank is msb * 256 + lsb + (percussive ? 0x8000 : 0); opn2_getBankId decodes it with & 127 and opn2_getBank accepts
    0..127 only.  The bytes of a bank file are 8-bit: an MSB >= 128 would set the percussion tag of a melodic bank (and overwrite the
    percussive bank of that number), a melodic LSB >= 128 gives a key no identifier names.  In LoadBank the MSB factor of `* 256` is
    masked with 0x7F, and the LSB term is masked unless the set is the percussive one (XG SFX kits use 128..255)."""
    out = []
    fns, _cs = _bank_copier(facts)
    if not fns:
        raise build.AnalysisBroken('C16.R9: LoadBank not found')
    fn = fns[0]
    inits = {}
    for b, j, st in fn.cfg.stmts():
        if st['s'].get('k') == 'DeclStmt':
            for v in st['s']['decls']:
                if v.get('init') is not None:
                    inits[v['id']] = v['init']
    def resolve(e, depth=0):
        e = strip(e)
        if depth < 3 and e is not None and e.get('k') == 'DeclRefExpr' and not e.get('parm') and e.get('id') in inits:
            return resolve(inits[e['id']], depth + 1)
        return e
    def masked7(e):
        e = resolve(e)
        return e is not None and e.get('k') == 'BinaryOperator' and e.get('op') == '&' and 0x7F in (const_of(e.get('l')), const_of(e.get('r')))
    n = 0
    for b, j, st in fn.cfg.stmts():
        for x in walk(st['s']):
            if isinstance(x, dict) and x.get('k') == 'BinaryOperator' and x.get('op') == '*' and 256 in (const_of(x.get('l')), const_of(x.get('r'))):
                fac = x['l'] if const_of(x.get('r')) == 256 else x['r']
                if not any(isinstance(y, dict) and y.get('k') == 'MemberExpr' and 'bank_midi' in short(y.get('n', '')) for y in walk(resolve(fac)) ):
                    continue
                n += 1
                ok = masked7(fac)
                out.append(Obl('C16.R9', fn.name, 'MSB factor of the bank key', st['loc'], 'discharged' if ok else 'finding',
                               why='masked with 0x7F' if ok else
                               'the MSB byte of the file enters the key unmasked: a melodic bank with MSB >= 128 gets the percussion tag (bit 15) and replaces the percussive bank of the same number'))
    # the LSB term
    for b, j, st in fn.cfg.stmts():
        if st['s'].get('k') != 'DeclStmt':
            continue
        for v in st['s']['decls']:
            i_ = strip(v.get('init')) if v.get('init') is not None else None
            if i_ is None or not any(isinstance(y, dict) and y.get('k') == 'MemberExpr' and short(y.get('n', '')) == 'bank_midi_lsb' for y in walk(i_)):
                continue
            if any(isinstance(y, dict) and y.get('k') == 'BinaryOperator' and y.get('op') == '*' for y in walk(i_)):
                # the key expression itself: LSB used raw inside it
                raw = True
            else:
                raw = not (masked7(i_) or (i_.get('k') == 'ConditionalOperator' and (masked7(i_.get('l')) or masked7(i_.get('r')))))
            n += 1
            out.append(Obl('C16.R9', fn.name, 'LSB term of the bank key', st['loc'], 'finding' if raw else 'discharged',
                           why='masked with 0x7F for the melodic set' if not raw else
                           'the LSB byte of a melodic bank enters the key unmasked: a value >= 128 gives a key that no bank identifier names (iteration shows it as the bank with LSB & 127, lookup cannot find it)'))
            # ... but not for the percussive set: realTime_NoteOn addresses the XG SFX kits as program + 128, i.e. percussion banks with
            # LSB 128..255 of the file; masking them too folds every SFX kit onto the drum kit of the same number
            if not raw:
                both = masked7(i_) or (i_.get('k') == 'ConditionalOperator' and masked7(i_.get('l')) and masked7(i_.get('r')))
                out.append(Obl('C16.R9', fn.name, 'percussion LSB keeps its upper half', st['loc'], 'finding' if both else 'discharged',
                               why='only the melodic arm is masked' if not both else
                               'the LSB is masked for the percussive set as well: the XG SFX kits (LSB 128..255, addressed by note-on as program + 128) replace the drum kits 0..127 and are no longer found'))
    if n < 2:
        raise build.AnalysisBroken('C16.R9: key computation of LoadBank not found (%d)' % n)
    return out
