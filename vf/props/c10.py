"""C10 — programmed pitch = key + bend*range + instrument offset.

R1  re-pitch on bend: both pitch-bend entry points store the bend and reach noteUpdateAll(channel, Upd_Pitch) on every path.
R2  operands of the pitch: the tone handed to OPN2::noteOn in the Upd_Pitch branch depends on currentTone, bend, bendsense, the
    timbre's noteOffset and the vibrato term; bendsense derives from both RPN 0 bytes and is recomputed after every store of either.
R3  constants: per chip family coef = 8.1757989156 * 2^21 / (clock / 144) within 1e-4 relative, exponent = ln 2 / 12,
    nativeRate = floor(clock / 144); the coefficient switch selects on the live chip family and covers every family.
R4  the octave search terminates (shared with C02.R4).
R5  register packing: block step 0x800, ceiling 0x3800, thresholds consistent with an 11-bit F-number, high byte to 0xA4+ch
    before low byte to 0xA0+ch, then key-on 0xF0 + channel map to 0x28.
"""
import math
from ..core import *
from ..logic import *
from ..report import Obl, Rule
from .. import build
from . import c02
from .. import affine

PROP = 'C10'
RULES = [
    Rule('C10.R1', 'pitch-bend messages store the bend and re-pitch every note of the channel', 2),
    Rule('C10.R2', 'the programmed tone depends on key tone, bend, bend range, instrument offset and vibrato; bend range follows both RPN bytes', 8),
    Rule('C10.R3', 'frequency constants agree with the chip clocks; the coefficient is chosen by the live chip family', 6),
    Rule('C10.R4', 'the octave search has a bounded trip count', 2),
    Rule('C10.R5', 'block / F-number packing and register order', 6),
    Rule('C10.R6', 'the glide update visits every channel that has a gliding note', 1),
    Rule('C10.R8', 'the instrument converters copy every field into a destination at least as wide (note offset, drum key, operator bytes reach the synth unchanged)', 20),
    Rule('C10.R7', 're-pitching a key-down note does not depend on the sostenuto mark', 1),
]
EXPLANATION = ('AST def-use slices and constant agreement: the backward slice of the tone argument of OPN2::noteOn inside the Upd_Pitch branch of noteUpdate, '
               'the stores of the RPN 0 bytes paired with the recomputation of the bend range, the frequency constants folded from the AST compared with '
               'the clocks in OPNFamilyTraits, and the shape of the block/F-number packing in OPN2::noteOn. Decides the structural necessary conditions for '
               'all keys/bends/ranges; the frequency arithmetic itself over the domain is not decided.')
ASSUMPTIONS = ['exp / sin of libm are accurate', 'one F-number step is far coarser than the 1e-4 tolerance on the coefficients']


def views(tier):
    return ['V0'] if tier == 'quick' else ['V0', 'V1', 'noSEQ']


def slice_names(fn, expr, sd, depth=0, seen=None, facts=None):
    """names of fields / locals / params in the backward slice of expr through single-definition locals and += updates, and through
    the values returned by local helpers (a term of the formula moved into a helper is still a term of the formula)"""
    out = set()
    for x in walk(expr):
        if facts is not None and isinstance(x, dict) and 'callee' in x and depth < 4:
            for cf in facts.fns.get(callee_name(x), [])[:1]:
                if is_local_helper(fn, cf):
                    for b_, j_, st_ in cf.cfg.returns():
                        if st_['s'].get('e') is not None:
                            out |= slice_names(cf, st_['s']['e'], None, depth + 1, None, facts)
        if x.get('k') == 'MemberExpr':
            out.add(short(x['n']))
        if x.get('k') == 'DeclRefExpr' and not x.get('fn'):
            out.add(short(x['n']))
            if depth < 4:
                # every assignment to that local in the function contributes
                for b, j, st in fn.cfg.stmts():
                    s = st['s']
                    if s.get('k') == 'DeclStmt':
                        for v in s['decls']:
                            if v['id'] == x.get('id') and 'init' in v and (seen is None or v['id'] not in seen):
                                out |= slice_names(fn, v['init'], sd, depth + 1, (seen or set()) | {v['id']}, facts)
                    for y in walk(s):
                        ap = assign_parts(y)
                        if ap and strip(ap[0]).get('id') == x.get('id') and (seen is None or ('a', y.get('ln')) not in seen):
                            out |= slice_names(fn, ap[1], sd, depth + 1, (seen or set()) | {('a', y.get('ln'))}, facts)
    return out


def analyse(facts, tier):
    obls = []
    # ---- R2 (drum key): a fixed drum key is stored biased by 128 when the bank wants key 0..127 verbatim; the biased range must start
    # exactly at the bias, otherwise one key value is programmed 128 semitones off
    non = facts.fn('OPNMIDIplay::realTime_NoteOn')
    nd = 0
    sd_non = single_defs(non.d)
    for b, j, st in non.cfg.stmts():
        for x in walk(st['s']):
            ap = assign_parts(x)
            if not (ap and strip(ap[0]).get('k') == 'DeclRefExpr' and not strip(ap[0]).get('parm')):
                continue
            r = strip(subst(ap[1], sd_non))         # the drum key may be read into a local first
            if r.get('k') == 'BinaryOperator' and r['op'] == '-' and mentions(r['l'], member_named('drumTone')) and const_of(r['r']) is not None:
                nd += 1
                bias = const_of(r['r'])
                lo = None
                for f in guard_facts(non, b, st, sd=sd_non):
                    n_ = cmp_norm(f) if f[0] == 'cmp' else None
                    if n_ and mentions(n_[1], member_named('drumTone')):
                        if n_[0] == '>=':
                            lo = n_[2] if lo is None else max(lo, n_[2])
                        elif n_[0] == '>':
                            lo = n_[2] + 1 if lo is None else max(lo, n_[2] + 1)
                ok = lo == bias
                obls.append(Obl('C10.R2', non.name, 'drum key decoded as drumTone - %d' % bias, st['loc'], 'discharged' if ok else 'finding',
                                why='applies exactly to drumTone >= %d' % bias if ok else
                                'the bias %d is subtracted for drumTone >= %s: the boundary value is programmed %d semitones away from the bank\'s drum key' % (bias, lo, bias)))
    if nd < 1:
        raise build.AnalysisBroken('C10.R2: the biased drum-key decoding (tone = drumTone - 128) was not found in realTime_NoteOn')
    # ---- R1
    pbs = facts.fns.get('OPNMIDIplay::realTime_PitchBend', [])
    if len(pbs) < 2:
        raise build.AnalysisBroken('C10.R1: the two realTime_PitchBend overloads not found')
    for fn in pbs:
        en = facts.enums
        stores = [(b, j, st) for b, j, st in fn.cfg.stmts() for x in walk(st['s']) if assign_parts(x) and strip(assign_parts(x)[0]).get('k') == 'MemberExpr' and short(strip(assign_parts(x)[0])['n']) == 'bend']
        upd = [(b, j, st) for b, j, st in fn.cfg.stmts() for x in calls_in(st['s']) if short(callee_name(x)) == 'noteUpdateAll' and const_of(x['a'][1]) == en.get('Upd_Pitch') and strip(x['a'][0]).get('id') == fn.params[0]['id']]
        pd = fn.cfg.pdom().get(('b', fn.cfg.entry)) or ()
        ok = bool(stores) and bool(upd) and ('b', upd[0][0]) in pd and ('b', stores[0][0]) in pd and fn.cfg.stmt_before((stores[0][0], stores[0][1]), (upd[0][0], upd[0][1]))
        # the stored value is the 14-bit bend centred at 8192
        val_ok = False
        for b, j, st in stores:
            for x in walk(st['s']):
                ap = assign_parts(x)
                if ap:
                    r = show(strip(ap[1]))
                    val_ok = '8192' in r and ('- 8192' in r)
        if not stores and not upd:
            # the overload hands the message to the other overload: on every path, same channel, and the value it passes is the
            # 14-bit combination of both data bytes (the other overload is checked in its own right)
            sd_f = single_defs(fn.d)
            for b, j, st in fn.cfg.stmts():
                for x in calls_in(st['s']):
                    if callee_name(x) == fn.name and len(x.get('a', [])) == 2 and len(fn.params) == 3 and strip(x['a'][0]).get('id') == fn.params[0]['id'] and ('b', b) in pd:
                        v_ = strip(subst(x['a'][1], sd_f))
                        while isinstance(v_, dict) and (v_.get('k') or '').endswith('CastExpr'):
                            v_ = strip(v_.get('e'))
                        f_ = affine.Affine(fn, [], {}).form(v_, {})
                        names_ = {p_['n']: i_ for i_, p_ in enumerate(fn.params)}
                        if f_ is not None and f_[1] == 0 and sorted(f_[0].values()) == [1, 128] and set(f_[0]) == {fn.params[1]['n'], fn.params[2]['n']}:
                            ok = val_ok = True
        obls.append(Obl('C10.R1', fn.name + ('/ML' if len(fn.params) == 3 else ''), 'store bend; noteUpdateAll(channel, Upd_Pitch)', fn.loc, 'discharged' if (ok and val_ok) else 'finding',
                        why='bend = value - 8192, then every note of the channel is re-pitched, on every path' if (ok and val_ok) else 'a pitch-bend message does not (always) store the centred bend and re-pitch the channel'))

    # ---- R2
    nu = facts.fn('OPNMIDIplay::noteUpdate')
    sd = single_defs(nu.d)
    call = None
    for b, j, st in nu.cfg.stmts():
        for x in calls_in(st['s']):
            if callee_name(x) == 'OPN2::noteOn' and len(x['a']) == 2:
                gf = guard_facts(nu, b, st)
                if any(f[0] == 'truth' and f[2] and mentions(f[1], ref_named('Upd_Pitch')) for f in gf):
                    call = (b, j, st, x)
    if call is None:
        raise build.AnalysisBroken('C10.R2: synth.noteOn in the Upd_Pitch branch not found')
    names = slice_names(nu, call[3]['a'][1], sd, facts=facts)
    for need, what in (('currentTone', 'gliding / key tone'), ('bend', 'pitch bend'), ('bendsense', 'bend range'), ('noteOffset', 'instrument note offset'),
                       ('vibdepth', 'vibrato depth'), ('vibpos', 'vibrato phase'), ('voice2_fine_tune', 'second-voice fine tune')):
        ok = need in names
        obls.append(Obl('C10.R2', nu.name, 'tone depends on ' + need, call[2]['loc'], 'discharged' if ok else 'finding',
                        why='%s is in the backward slice of the tone handed to OPN2::noteOn' % what if ok else 'the programmed tone no longer depends on the %s' % what))
    # bend * bendsense is a product, added (not subtracted)
    # the tone expression with the locals replaced by what defines them: the bend term is the product of the channel's bend and bend range
    tone_full = subst(call[3]['a'][1], sd)
    mb = None
    def bend_product(e):
        for y in walk(e):
            if isinstance(y, dict) and y.get('k') == 'BinaryOperator' and y.get('op') == '*' and {short(strip(y['l']).get('n', '')), short(strip(y['r']).get('n', ''))} == {'bend', 'bendsense'} \
                    and strip(y['l']).get('k') == 'MemberExpr' and strip(y['r']).get('k') == 'MemberExpr':
                return y
        return None
    mb = bend_product(tone_full)
    if mb is None:
        # in the definition of a local of the tone's backward slice
        for b, j, st in nu.cfg.stmts():
            if st['s'].get('k') == 'DeclStmt':
                for v in st['s']['decls']:
                    if v.get('init') is not None and short(v['n']) in names and bend_product(v['init']) is not None:
                        mb = bend_product(v['init'])
            for y in walk(st['s']):
                ap = assign_parts_raw(y) if isinstance(y, dict) else None
                if ap and strip(ap[0]).get('k') == 'DeclRefExpr' and short(strip(ap[0])['n']) in names and bend_product(ap[1]) is not None:
                    mb = bend_product(ap[1])
    okm = mb is not None
    obls.append(Obl('C10.R2', nu.name, 'bend term = bend * bendsense', call[2]['loc'], 'discharged' if okm else 'finding', why=show(mb) if mb else 'no product of the channel\'s bend and bend range in the tone'))
    a = strip(tone_full)
    okadd = a.get('k') == 'BinaryOperator' and a['op'] == '+' and 'currentTone' in names and ' - ' not in show(a)
    obls.append(Obl('C10.R2', nu.name, 'tone = currentTone + bend + phase', call[2]['loc'], 'discharged' if okadd else 'finding', why=show(a)))
    ub = facts.fn('OPNMIDIplay::MIDIchannel::updateBendSensitivity')
    # the value stored into bendsense, locals replaced by their definitions: (an integer expression with the affine form
    # 128 * msb + lsb) times / divided by a floating constant
    from .. import affine as _aff
    sd_ub = single_defs(ub.d)
    eng_ = _aff.Affine(ub, [], {})
    cent, scale = None, None
    for b_, j_, st_ in ub.cfg.stmts():
        for x in walk(st_['s']):
            ap = assign_parts(x)
            if ap and short(strip(ap[0]).get('n', '')) == 'bendsense':
                r_ = strip(subst(ap[1], sd_ub))
                if r_.get('k') == 'BinaryOperator' and r_.get('op') in ('*', '/'):
                    for ie, fe in ((r_['l'], r_['r']), (r_['r'], r_['l'])):
                        fcv = strip(fe).get('fc') if isinstance(strip(fe), dict) else None
                        ie_ = strip(ie)
                        while isinstance(ie_, dict) and (ie_.get('k') or '').endswith('CastExpr'):
                            ie_ = strip(ie_.get('e'))
                        f_ = eng_.form(ie_, {}) if fcv is not None else None
                        if f_ is not None:
                            cent = f_
                            scale = fcv if r_['op'] == '*' else (1.0 / fcv if fcv else None)
    okc = cent is not None and cent == ({'bendsense_msb': 128, 'bendsense_lsb': 1}, 0)
    oks = scale is not None and abs(scale - 1.0 / (128 * 8192)) < 1e-12
    obls.append(Obl('C10.R2', ub.name, 'bend range = (msb*128 + lsb) / (128*8192) semitones per bend unit', ub.loc, 'discharged' if (okc and oks) else 'finding',
                    why='cent = msb*128 + lsb; bendsense = cent / 1048576' if (okc and oks) else 'bend range is not derived from both RPN 0 bytes with the 14-bit scale (%s, %s)' % (cent, scale)))
    # every store of either RPN byte outside MIDIchannel itself is followed by updateBendSensitivity on the same object
    n = 0
    for fn in facts.all_fns():
        if not fn.name.startswith('OPNMIDIplay::'):
            continue
        for b, j, st in fn.cfg.stmts():
            for x in walk(st['s']):
                ap = assign_parts(x)
                if ap and strip(ap[0]).get('k') == 'MemberExpr' and short(strip(ap[0])['n']) in ('bendsense_msb', 'bendsense_lsb'):
                    n += 1
                    base = show(strip(ap[0])['b']) if strip(ap[0]).get('b') else ''
                    follows = False
                    for b2, j2, st2 in fn.cfg.stmts():
                        for y in calls_in(st2['s']):
                            if short(callee_name(y)) == 'updateBendSensitivity' and ((b2 == b and j2 > j) or (b2 != b and ('b', b2) in (fn.cfg.pdom().get(('b', b)) or ()))):
                                if (show(y.get('obj')) if y.get('obj') is not None else '') in (base, 'this') or strip(y.get('obj') or {}).get('k') == 'CXXThisExpr' and base in ('', 'this'):
                                    follows = True
                    obls.append(Obl('C10.R2', fn.name, 'store %s' % short(strip(ap[0])['n']), st['loc'], 'discharged' if follows else 'finding',
                                    why='followed by updateBendSensitivity()' if follows else 'the RPN 0 byte is stored but the bend range is not recomputed: later bends use a stale range'))
    if n < 3:
        raise build.AnalysisBroken('C10.R2: stores of the RPN 0 bytes not found (%d)' % n)

    # ---- R3 constants
    on = facts.fn('OPN2::noteOn')
    cf = facts.fn('s_commonFreq')
    k = None
    for b, j, st in cf.cfg.returns():
        for y in walk(st['s']):
            if 'fc' in y and y.get('k') == 'FloatingLiteral':
                k = y['fc']
    okk = k is not None and abs(k - math.log(2) / 12) < 1e-8 and any(short(callee_name(x)) == 'exp' for b, j, st in cf.cfg.returns() for x in calls_in(st['s']))
    # every floating constant of the function is the exponent ln2/12, an integer-valued bound, or - for a tabulated variant - the
    # value 2^(i/12) of a semitone (a table entry that is none of these detunes one pitch class)
    stray = []
    for y in walk(cf.tree):
        if isinstance(y, dict) and y.get('k') == 'FloatingLiteral' and 'fc' in y:
            v = y['fc']
            if abs(v - math.log(2) / 12) < 1e-8 or abs(v - round(v)) < 1e-12 and abs(v) != 1.0 or any(abs(v - 2.0 ** (i / 12.0)) < 5e-8 for i in range(13)):
                continue
            stray.append(v)
    if stray:
        okk = False
        k = stray[0]
    obls.append(Obl('C10.R3', cf.name, 'semitone exponent = ln 2 / 12', cf.loc, 'discharged' if okk else 'finding', why='exp(%r * tone)' % k if okk else 'the constant %r in the frequency function is neither ln2/12 = %r nor a semitone ratio 2^(i/12): every pitch that uses it is out of tune' % (k, math.log(2) / 12)))
    fam = facts.enum_names.get('OPNFamily') or {}
    fams = {n_: v for n_, v in fam.items() if n_.startswith('OPNChip_') and n_ not in ('OPNChip_Count',)}
    clocks = {}
    for rname, r in facts.records.items():
        pass
    # clocks: enumerators nativeClockRate / nativeRate of the OPNFamilyTraits specialisations (folded through opn2_getNativeClockRate)
    traits = {n_: d for n_, d in facts.enum_names.items() if 'OPNFamilyTraits' in n_}
    # the Hz -> F-number coefficient: the floating local that receives floating constants in two or more places, each under a test of
    # the chip family (switch labels or an if/else chain)
    assigns = collections.defaultdict(list)
    for b, j_, st in on.cfg.stmts():
        for y in walk(st['s']):
            ap = assign_parts(y)
            if ap and ap[2] == '=' and strip(ap[0]).get('k') == 'DeclRefExpr' and 'fc' in strip(ap[1]):
                assigns[strip(ap[0])['id']].append((strip(ap[1])['fc'], guard_facts(on, b, st), st['loc']))
    cands = {k_: v for k_, v in assigns.items() if len(v) >= 2}
    if len(cands) != 1:
        raise build.AnalysisBroken('C10.R3: the per-family coefficient of OPN2::noteOn not found (%d candidate locals)' % len(cands))
    coef_assigns = list(cands.values())[0]
    def selector_facts(gf):
        out_ = []
        for f in gf:
            if f[0] in ('case', 'case-default'):
                out_.append((f[0], strip(f[1]), f[2] if f[0] == 'case' else None))
            elif f[0] == 'cmp' and f[1] in ('==', '!=') and const_of(f[3]) is not None:
                out_.append((f[1], strip(f[2]), const_of(f[3])))
        return out_
    sels = [x for fc_, gf, loc_ in coef_assigns for x in selector_facts(gf)]
    if not sels:
        raise build.AnalysisBroken('C10.R3: the coefficient of OPN2::noteOn is not selected by any test')
    bad_sel = [show(e) for kind, e, v in sels if not (e.get('k') == 'MemberExpr' and short(e['n']) == 'm_chipFamily')]
    ok_sel = not bad_sel
    obls.append(Obl('C10.R3', on.name, 'coefficient selected by the live chip family', coef_assigns[0][2], 'discharged' if ok_sel else 'finding',
                    why='every coefficient is chosen by a test of m_chipFamily' if ok_sel else 'the Hz -> F-number coefficient is selected by %s, not by the family of the running chips' % bad_sel[0]))
    explicit = set()
    for kind, e, v in sels:
        if kind == 'case':
            explicit |= set(v)
        elif kind == '==':
            explicit.add(v)
    coefs = {}
    for fval in set((facts.enum_names.get('OPNFamily') or {}).values()):
        hit = []
        for fc_, gf, loc_ in coef_assigns:
            okf = True
            for kind, e, v in selector_facts(gf):
                if kind == 'case':
                    okf = okf and fval in v
                elif kind == 'case-default':
                    okf = okf and True      # a label list that contains `default` also takes its explicit labels
                elif kind == '==':
                    okf = okf and fval == v
                elif kind == '!=':
                    okf = okf and fval != v
            if okf:
                hit.append((fc_, gf))
        # an arm under `default` takes a value only when no other arm names it
        named = [h for h in hit if not any(k_ == 'case-default' for k_, e, v in selector_facts(h[1]))]
        pick = named or hit
        if len({h[0] for h in pick}) == 1:
            coefs[fval] = pick[0][0]
    name_of = {v: n_ for n_, v in fams.items()}
    if len(fams) < 2 or len(traits) < 2:
        raise build.AnalysisBroken('C10.R3: chip families (%d) / family traits (%d) not found' % (len(fams), len(traits)))
    for fname, fval in sorted(fams.items()):
        tr = [d for n_, d in traits.items() if fname in n_]
        if not tr:
            obls.append(Obl('C10.R3', on.name, 'clock of ' + fname, on.loc, 'finding', why='no OPNFamilyTraits specialisation'))
            continue
        clock, rate = tr[0].get('nativeClockRate'), tr[0].get('nativeRate')
        c = coefs.get(fval)
        want = 8.1757989156 * (1 << 21) / (clock / 144.0)
        ok = c is not None and abs(c - want) / want < 1e-4
        obls.append(Obl('C10.R3', on.name, 'coefficient of ' + fname, on.loc, 'discharged' if ok else 'finding',
                        why='%.5f vs 8.1757989156 * 2^21 / (%d / 144) = %.5f' % (c, clock, want) if ok else 'coefficient %s for %s, clock %d requires %.5f' % (c, fname, clock, want)))
        okr = rate == clock // 144
        obls.append(Obl('C10.R3', 'OPNFamilyTraits<%s>' % fname, 'nativeRate = floor(clock / 144)', on.loc, 'discharged' if okr else 'finding', why='%d == %d // 144' % (rate, clock)))
    # the chips are clocked for the family whose coefficient noteOn will use: OPN2::reset creates the chips of the *new* family and
    # stores m_chipFamily only afterwards, so the clock handed to setRate must come from the chip object itself (or the family
    # parameter), never from the family member, which still names the previous family at that point
    rs = facts.fn('OPN2::reset')
    fam_store = [(b, j) for b, j, st in rs.cfg.stmts() for y in walk(st['s']) for ap in [assign_parts(y)] if ap and short(strip(ap[0]).get('n', '')) == 'm_chipFamily']
    nrate = 0
    for b, j, st in rs.cfg.stmts():
        for x in calls_in(st['s']):
            if short(callee_name(x)) == 'setRate' and len(x.get('a', [])) >= 2 and x.get('obj') is not None:
                nrate += 1
                clk = x['a'][1]
                objs = show(strip(x['obj']))
                stale = []
                def leaves(e, depth=0):
                    for y in walk(e):
                        if y.get('k') == 'MemberExpr' and short(y.get('n', '')) == 'm_chipFamily':
                            stale.append('m_chipFamily')
                        if 'callee' in y and short(callee_name(y)) in ('chipFamily',) :
                            stale.append('chipFamily()')
                        if depth < 3 and y.get('k') == 'DeclRefExpr' and not y.get('parm') and not y.get('enumc'):
                            for b2, j2, st2 in rs.cfg.stmts():
                                if st2['s'].get('k') == 'DeclStmt':
                                    for v in st2['s']['decls']:
                                        if v['id'] == y.get('id') and v.get('init') is not None:
                                            leaves(v['init'], depth + 1)
                leaves(clk)
                before_store = not any((sb == b and sj < j) or (sb != b and rs.cfg.block_dominates(sb, b)) for sb, sj in fam_store)
                ok = not (stale and before_store)
                obls.append(Obl('C10.R3', rs.name, 'clock handed to the new chips: %s' % show(clk)[:40], st['loc'], 'discharged' if ok else 'finding',
                                why='taken from the chip being configured / the requested family' if ok else
                                'the clock is derived from %s, read before `m_chipFamily = family` is stored: after a change of the chip family the chips run on the previous family\'s clock while noteOn uses the new family\'s coefficient (every pitch about 138 cents off until the next reset)' % stale[0]))
    if nrate < 1 or not fam_store:
        raise build.AnalysisBroken('C10.R3: setRate call / family store of OPN2::reset not found')
    # ---- R4
    for o in c02.r4(facts):
        o.rule = 'C10.R4'
        obls.append(o)

    # ---- R5 packing (the locals are found by their role, not by their name: the floating value halved by the range loops, the
    # integer block counter bounded by the first of them, and the local that combines the two)
    def loops_of(t, acc):
        if isinstance(t, dict):
            if t.get('k') in ('WhileStmt', 'ForStmt', 'DoStmt') and t.get('cond') is not None:
                acc.append(t)
            for k2 in ('body', 'then', 'else', 'sub', 'init'):
                v = t.get(k2)
                if isinstance(v, (dict, list)):
                    loops_of(v, acc)
        elif isinstance(t, list):
            for y in t:
                loops_of(y, acc)
        return acc
    # the range loops live in noteOn or in a local helper it calls with the scaled frequency
    rng_fn = on
    helper_call = None
    def has_range_loops(g):
        cnt = 0
        for lp in loops_of(g.tree, []):
            if any(f[0] == 'cmp' and f[1] == '>=' and (strip(f[2]).get('t') or {}).get('f') and 'fc' in strip(f[3]) for f in literals(lp['cond'], True)):
                cnt += 1
        return cnt >= 2
    if not has_range_loops(on):
        for b, j, st in on.cfg.stmts():
            for x in calls_in(st['s']):
                for cf in facts.fns.get(callee_name(x), [])[:1]:
                    if is_local_helper(on, cf) and has_range_loops(cf):
                        rng_fn, helper_call = cf, x
    hz_thr = collections.defaultdict(list)      # floating local -> [(threshold, loop)]
    for lp in loops_of(rng_fn.tree, []):
        for f in literals(lp['cond'], True):
            if f[0] == 'cmp' and f[1] == '>=' and strip(f[2]).get('k') == 'DeclRefExpr' and (strip(f[2]).get('t') or {}).get('f') and 'fc' in strip(f[3]):
                hz_thr[strip(f[2])['id']].append((strip(f[3])['fc'], lp))
    hz_id = max(hz_thr, key=lambda k_: len(hz_thr[k_])) if hz_thr else None
    if hz_id is None or len(hz_thr[hz_id]) < 2:
        raise build.AnalysisBroken('C10.R5: the two range loops of OPN2::noteOn (value >= threshold) not found')
    thr = sorted(t_ for t_, lp in hz_thr[hz_id])
    oct_id, ceil, step = None, [], None
    for t_, lp in hz_thr[hz_id]:
        for f in literals(lp['cond'], True):
            nrm = cmp_norm(f) if f[0] == 'cmp' else None
            if nrm and nrm[0] == '<' and strip(nrm[1]).get('k') == 'DeclRefExpr' and not (strip(nrm[1]).get('t') or {}).get('f'):
                oct_id = strip(nrm[1])['id']
                ceil.append(nrm[2])
                for x in walk([lp.get('body'), lp.get('inc')]):
                    ap = assign_parts(x)
                    if ap and strip(ap[0]).get('id') == oct_id:
                        r_ = strip(ap[1])
                        if ap[2] == '+=':
                            step = const_of(ap[1])
                        elif ap[2] == '=' and r_.get('k') == 'BinaryOperator' and r_.get('op') == '+' and strip(r_['l']).get('id') == oct_id:
                            step = const_of(r_['r'])
                        elif ap[2] == '=' and r_.get('k') == 'BinaryOperator' and r_.get('op') == '+' and strip(r_['r']).get('id') == oct_id:
                            step = const_of(r_['l'])
    ok = step == 0x800 and ceil == [0x3800]
    obls.append(Obl('C10.R5', on.name, 'block step 1<<11, ceiling 7<<11', on.loc, 'discharged' if ok else 'finding', why='block counter += 0x800 while it is < 0x3800' if ok else 'block step %s, ceiling %s' % (step, ceil)))
    ok = len(thr) == 2 and thr[0] + 0.5 < 2048 and thr[1] + 0.5 <= 2047.5 and thr[0] < thr[1]
    obls.append(Obl('C10.R5', on.name, 'halving thresholds fit an 11-bit F-number', on.loc, 'discharged' if ok else 'finding', why='thresholds %s (+0.5 rounding) stay below 2048' % thr if ok else 'thresholds %s can produce an F-number above 2047' % thr))
    def is_ref(e, vid):
        return strip(e).get('k') == 'DeclRefExpr' and strip(e).get('id') == vid
    def sides(e, op):
        e = strip(e)
        return (e['l'], e['r']) if e.get('k') == 'BinaryOperator' and e.get('op') == op else None
    def either(pair, p1, p2):
        return pair is not None and ((p1(pair[0]) and p2(pair[1])) or (p1(pair[1]) and p2(pair[0])))
    def rounded_hz(e):
        return either(sides(e, '+'), lambda a: is_ref(a, hz_id), lambda a: strip(a).get('fc') == 0.5)
    ft_id, ft_txt, ft_ok = None, None, False
    if helper_call is not None:
        # the helper returns the combined value; noteOn keeps it in the local that receives the call
        for b, j, st in rng_fn.cfg.returns():
            e = st['s'].get('e')
            if e is not None and mentions(e, lambda y: y.get('id') == oct_id) and mentions(e, lambda y: y.get('id') == hz_id):
                ft_txt = show(strip(e))
                ft_ok = either(sides(e, '+'), lambda a: is_ref(a, oct_id), rounded_hz)
        for b, j, st in on.cfg.stmts():
            if st['s'].get('k') == 'DeclStmt':
                for v in st['s']['decls']:
                    if v.get('init') is not None and any(y is helper_call for y in walk(v['init'])):
                        ft_id = v['id']
            for x in walk(st['s']):
                ap = assign_parts_raw(x)
                if ap and ap[2] == '=' and strip(ap[0]).get('k') == 'DeclRefExpr' and any(y is helper_call for y in walk(ap[1])):
                    ft_id = strip(ap[0])['id']
    for b, j, st in (on.cfg.stmts() if helper_call is None else []):
        cand_ = []
        if st['s'].get('k') == 'DeclStmt':
            cand_ += [(v['id'], v['init']) for v in st['s']['decls'] if v.get('init') is not None]
        for x in walk(st['s']):
            ap = assign_parts(x)
            if ap and ap[2] == '=' and strip(ap[0]).get('k') == 'DeclRefExpr':
                cand_.append((strip(ap[0])['id'], ap[1]))
        for vid, e in cand_:
            if oct_id is not None and mentions(e, lambda y: y.get('id') == oct_id) and mentions(e, lambda y: y.get('id') == hz_id) and vid not in (oct_id, hz_id):
                ft_id, ft_txt = vid, show(strip(e))
                ft_ok = either(sides(e, '+'), lambda a: is_ref(a, oct_id), rounded_hz)
    obls.append(Obl('C10.R5', on.name, 'ftone = block bits + round(F-number)', on.loc, 'discharged' if ft_ok else 'finding', why=ft_txt or 'the local that combines block and F-number was not found'))
    writes = []
    for b, j, st in on.cfg.stmts():
        for x in calls_in(st['s']):
            if short(callee_name(x)) == 'writeRegI' and len(x['a']) >= 4:
                writes.append((b, j, x['a'][2], x['a'][3]))
    def addr_base(e):
        c = const_of(e)
        if c is not None:
            return c
        p_ = sides(e, '+')
        if p_:
            return const_of(p_[0]) if const_of(p_[0]) is not None else const_of(p_[1])
        return None
    def hi_byte(e):
        return either(sides(e, '&'), lambda a: const_of(a) == 0xFF, lambda a: sides(a, '>>') is not None and is_ref(sides(a, '>>')[0], ft_id) and const_of(sides(a, '>>')[1]) == 8)
    def lo_byte(e):
        return either(sides(e, '&'), lambda a: const_of(a) == 0xFF, lambda a: is_ref(a, ft_id))
    seq = [(addr_base(r), v) for b, j, r, v in writes if addr_base(r) in (0xA4, 0xA0, 0x28)]
    ok = len(seq) == 3 and [a for a, v in seq] == [0xA4, 0xA0, 0x28] and hi_byte(seq[0][1]) and lo_byte(seq[1][1]) \
        and mentions(seq[2][1], lambda y: const_of(y) == 0xF0) and mentions(seq[2][1], lambda y: y.get('k') == 'DeclRefExpr' and short(y.get('n', '')) == 'g_noteChannelsMap')
    obls.append(Obl('C10.R5', on.name, 'write order: 0xA4+ch high, 0xA0+ch low, 0x28 key-on', on.loc, 'discharged' if ok else 'finding', why=str([('%#x' % a if a is not None else None, show(strip(v))) for a, v in seq])))
    g = facts.glob('g_noteChannelsMap')
    ok = g.get('init') == [0, 1, 2, 4, 5, 6]
    obls.append(Obl('C10.R5', on.name, 'key-on channel map', g['loc'], 'discharged' if ok else 'finding', why='g_noteChannelsMap = %s' % g.get('init')))
    # the channel within the chip: the subscript of the key-on channel map is (a local holding) parameter c % 6
    p0 = on.params[0]['id'] if on.params else None
    def is_c_mod_6(e, depth=0):
        e = strip(e)
        pr = sides(e, '%')
        if pr and is_ref(pr[0], p0) and const_of(pr[1]) == 6:
            return True
        if e.get('k') == 'DeclRefExpr' and depth < 2:
            for b, j, st in on.cfg.stmts():
                if st['s'].get('k') == 'DeclStmt':
                    for v in st['s']['decls']:
                        if v['id'] == e.get('id') and v.get('init') is not None:
                            return is_c_mod_6(v['init'], depth + 1)
        return False
    subs = [y for a, v in seq[2:3] for y in walk(v) if y.get('k') == 'ArraySubscriptExpr' and mentions(y.get('b'), lambda z: short(z.get('n', '')) == 'g_noteChannelsMap')]
    ch4 = bool(subs) and all(is_c_mod_6(y.get('i')) for y in subs)
    obls.append(Obl('C10.R5', on.name, 'channel within chip = c % 6', on.loc, 'discharged' if ch4 else 'finding', why='key-on map indexed by c % 6' if ch4 else 'channel index within the chip is not c % 6'))
    obls += r6_glide(facts)
    obls += r7_sostenuto(facts)
    obls += r8_no_narrowing(facts)
    obls += r1_update_all_total(facts)
    return obls



def r6_glide(facts):
    """a portamento slide ends at the struck key: updateGlide may skip a MIDI channel only because it has no gliding note — every gliding
    note carries its own rate, so the channel's current portamento switch / rate must not stop a slide that is under way"""
    out = []
    ug = facts.fn('OPNMIDIplay::updateGlide')
    n = 0
    ifs = []
    def rec(t):
        if isinstance(t, dict):
            if t.get('k') == 'IfStmt':
                ifs.append(t)
            for k2 in ('body', 'then', 'else', 'sub', 'init'):
                v = t.get(k2)
                if isinstance(v, (dict, list)):
                    rec(v)
        elif isinstance(t, list):
            for y in t:
                rec(y)
    rec(ug.tree)
    for t in ifs:
        th = t.get('then')
        th = th['body'][0] if isinstance(th, dict) and th.get('k') == 'CompoundStmt' and len(th.get('body', [])) == 1 else th
        c = t.get('cond')
        if not (isinstance(th, dict) and th.get('k') == 'ContinueStmt' and c is not None and mentions(c, member_named('gliding_note_count'))):
            continue
        n += 1
        others = sorted({short(y['n']) for y in walk(c) if y.get('k') == 'MemberExpr' and short(y['n']) not in ('gliding_note_count',) and 'MIDIchannel::' in y['n']})
        ok = not others
        out.append(Obl('C10.R6', ug.name, 'channel skipped only when it has no gliding note', '%s:%s' % (ug.file, t.get('ln')), 'discharged' if ok else 'finding',
                       why='skip test reads gliding_note_count only' if ok else
                       'the skip test also reads %s: a slide that is under way freezes at an intermediate pitch when that state changes' % ', '.join(others)))
    if n < 1:
        raise build.AnalysisBroken('C10.R6: the per-channel skip test of updateGlide was not found')
    return out



def r7_sostenuto(facts):
    """noteUpdate walks the ACTIVE notes of a channel, i.e. keys that are down.  The sostenuto pedal marks exactly such notes
    (sustained |= Sustain_Sostenuto), so a re-pitch that requires `sustained == Sustain_None` freezes every held key while the
    pedal is pressed.  The guard of the pitch write may exclude pedal-held users (Sustain_Pedal) only."""
    out = []
    nu = facts.fn('OPNMIDIplay::noteUpdate')
    en = facts.enums
    n = 0
    for b, j, st in nu.cfg.stmts():
        for x in calls_in(st['s']):
            if short(callee_name(x)) != 'noteOn' or not callee_name(x).startswith('OPN2::'):
                continue
            gf = guard_facts(nu, b, st)
            if not any('Upd_Pitch' in fact_str(f) or mentions(f[1] if f[0] == 'truth' else ([f[2], f[3]] if f[0] == 'cmp' else []), lambda y: const_of(y) == en.get('Upd_Pitch')) for f in gf):
                continue
            n += 1
            bad = None
            def walkf(fs):
                for f in fs:
                    if f[0] == 'or':
                        for alt in f[1]:
                            yield from walkf(alt)
                    else:
                        yield f
            for f in walkf(gf):
                if f[0] == 'cmp' and f[1] == '==' and mentions(f[2], member_named('sustained')) and not any(y.get('k') == 'BinaryOperator' and y.get('op') == '&' for y in walk(f[2])) and const_of(f[3]) == en.get('Sustain_None', 0):
                    bad = fact_str(f)
                if f[0] == 'cmp' and f[1] == '==' and const_of(f[3]) == 0:
                    for y in walk(f[2]):
                        if y.get('k') == 'BinaryOperator' and y.get('op') == '&' and mentions(y, member_named('sustained')) and (const_of(y['r']) or 0) & en.get('Sustain_Sostenuto', 2):
                            bad = fact_str(f)
            out.append(Obl('C10.R7', nu.name, 'pitch write reaches sostenuto-marked key-down notes', st['loc'], 'finding' if bad else 'discharged',
                           why=('the pitch is written only when %s: a key that is down while the sostenuto pedal is pressed no longer follows pitch bend, vibrato or glide' % bad) if bad else
                           'the guard excludes at most pedal-held users'))
    if n < 1:
        raise build.AnalysisBroken('C10.R7: the pitch write of noteUpdate was not found')
    return out


def r8_no_narrowing(facts):
    """p = key + instrument note offset: the offset (16-bit in OPN2_Instrument and WOPNInstrument) reaches OPN2::noteOn through
    cvt_generic_to_FMIns -> OpnTimbre::noteOffset.  Every field-to-field copy of the converters must keep the value: destination
    integer type at least as wide as the source and of the same signedness (or wider when the source is unsigned)."""
    out = []
    n = 0
    seen = set()
    for name in ('cvt_generic_to_FMIns', 'cvt_FMIns_to_generic'):
        for fn in facts.fns.get(name, []):
            if fn.tree is None:
                continue
            for b, j, st in fn.cfg.stmts():
                for x in walk(st['s']):
                    ap = assign_parts(x)
                    if not ap or ap[2] != '=':
                        continue
                    l, r = strip(ap[0]), strip(ap[1])
                    if r is None or r.get('k') not in ('MemberExpr', 'ArraySubscriptExpr') or l.get('k') not in ('MemberExpr', 'ArraySubscriptExpr'):
                        continue
                    lt, rt = l.get('t') or {}, r.get('t') or {}
                    if 'w' not in lt or 'w' not in rt:
                        continue
                    key = (name, show(x))
                    if key in seen:
                        continue
                    seen.add(key)
                    n += 1
                    lu, ru = bool(lt.get('u')), bool(rt.get('u'))
                    ok = (lu == ru and lt['w'] >= rt['w']) or (ru and not lu and lt['w'] > rt['w'])
                    out.append(Obl('C10.R8', fn.name, show(x)[:70], st['loc'], 'discharged' if ok else 'finding',
                                   why='%s <- %s' % (lt.get('s'), rt.get('s')) if ok else
                                   'the copy narrows %s to %s: values outside the destination range wrap (a note offset of -129 becomes +127 and the note is programmed octaves away)' % (rt.get('s'), lt.get('s'))))
    if n < 20:
        raise build.AnalysisBroken('C10.R8: only %d field copies found in the instrument converters' % n)
    return out


def r1_update_all_total(facts):
    """realTime_PitchBend re-pitches through noteUpdateAll(channel, Upd_Pitch).  "Every sounding note of the channel" holds only if
    noteUpdateAll hands every active note to noteUpdate: the call in its loop is unconditional (a filter there - on the kind of
    update, on glide state - leaves some notes at their old pitch)."""
    out = []
    fn = facts.fn('OPNMIDIplay::noteUpdateAll')
    n = 0
    for b, j, st in fn.cfg.stmts():
        for x in calls_in(st['s']):
            if short(callee_name(x)) == 'noteUpdate':
                n += 1
                gf = guard_facts(fn, b, st, loops=False)
                ok = not gf
                out.append(Obl('C10.R1', fn.name, 'every active note is updated', st['loc'], 'discharged' if ok else 'finding',
                               why='noteUpdate is called for each note of the list without a filter' if ok else
                               'noteUpdate is skipped under [%s]: a pitch-bend (Upd_Pitch) does not reach those notes, they stay at their old pitch' % ' ; '.join(fact_str(f) for f in gf)[:100]))
    if n < 1:
        raise build.AnalysisBroken('C10.R1: call of noteUpdate in noteUpdateAll not found')
    return out
