"""Shared reading of the track solo / disable gate at the head of BW_MidiSequencer::handleEvent (C07.R3, C08.R6).

The gate is read semantically: a gating return is a return whose guard mentions the solo / disable state; an event class is exempt
from it when the guard of that return, taken together with the description of the class (track 0, format < 2, T_SPECIAL, subtype ..),
is contradictory.  This is independent of how the conditions are spelled (if / else-if with empty arms, one negated condition,
merged or separate returns)."""
from ..core import *
from ..logic import *


def _flat(fs):
    for f in fs:
        if f[0] == 'or':
            for alt in f[1]:
                yield from _flat(alt)
        else:
            yield f


def gating_returns(he):
    out = []
    for b, j, st in he.cfg.returns():
        gf = guard_facts(he, b, st)
        body = []
        for f in _flat(gf):
            body += [f[1]] if f[0] == 'truth' else ([f[2], f[3]] if f[0] == 'cmp' else [])
        if mentions(body, member_named('m_trackSolo')) or mentions(body, member_named('m_trackDisable')):
            out.append((b, j, st, gf))
    return out


def _nodes(he):
    """expression nodes of handleEvent for: the track parameter, the format member, the type and subtype of the event parameter"""
    track_id = he.params[0]['id']
    evt_id = he.params[1]['id']
    found = {}
    for x in walk(he.tree):
        if not isinstance(x, dict):
            continue
        if x.get('k') == 'DeclRefExpr' and x.get('id') == track_id:
            found.setdefault('track', x)
        if x.get('k') == 'MemberExpr' and short(x.get('n', '')) == 'm_smfFormat':
            found.setdefault('format', x)
        if x.get('k') == 'MemberExpr' and short(x.get('n', '')) in ('type', 'subtype') and strip(x.get('b') or {}).get('id') == evt_id:
            found.setdefault(short(x['n']), x)
    return found


def _lit(v):
    return {'k': 'IntegerLiteral', 'c': v, 't': {'s': 'int', 'w': 32}}


def timing_event(he, E, sub):
    """a tempo / time-signature event of track 0 in a file of format 0 or 1"""
    n = _nodes(he)
    if not all(k in n for k in ('track', 'format', 'type', 'subtype')):
        return None
    return [('cmp', '==', n['track'], _lit(0)), ('cmp', '<', n['format'], _lit(2)), ('cmp', '==', n['type'], _lit(E['T_SPECIAL'])), ('cmp', '==', n['subtype'], _lit(E[sub]))]


def hook_event(he, E, sub='ST_SONG_BEGIN_HOOK'):
    n = _nodes(he)
    if not all(k in n for k in ('type', 'subtype')):
        return None
    return [('cmp', '==', n['type'], _lit(E['T_SPECIAL'])), ('cmp', '==', n['subtype'], _lit(E[sub]))]


def excluded(gf, cls):
    """no event of the class reaches a statement guarded by gf"""
    return cls is not None and unsat(list(gf) + list(cls))


def gate_kinds(he, gf):
    """which filters a gating return implements: 'solo' (a track is soloed and this is another one), 'disabled' (this track is off)"""
    track_id = he.params[0]['id']
    kinds = set()
    for f in _flat(gf):
        if f[0] == 'cmp' and f[1] == '!=':
            sides = [strip(f[2]), strip(f[3])]
            if any(s_.get('id') == track_id for s_ in sides) and any(s_.get('k') == 'MemberExpr' and short(s_.get('n', '')) == 'm_trackSolo' for s_ in sides):
                kinds.add('solo')
        if f[0] == 'truth' and f[2] and mentions(f[1], member_named('m_trackDisable')) and mentions(f[1], lambda y: y.get('id') == track_id):
            kinds.add('disabled')
    return kinds
