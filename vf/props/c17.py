"""C17 — container/converter front-ends preserve the music (thin claim; event-sequence fidelity is not decided).

R1  RMI: exactly the 20-byte RIFF/RMID/data preamble is consumed and the same reader is handed to the SMF parser.
R2  MUS tables: controller map equals the DMX table; MUS channel 15 -> MIDI channel 9 and channel 9 is skipped when numbering the
    others; the remembered note volume is kept per mapped MIDI channel.
R3  MUS tick rate: division * 10^6 / tempo (as emitted) lies within 2.5 % of 140 Hz.
R4  XMI time scale: delta times, note durations and the tempo are scaled by the same constant k, the division is tempo*3/25000
    (120 Hz), and every converted song gets its own division.
"""
import collections
from ..core import *
from ..logic import *
from ..report import Obl, Rule
from .. import build

PROP = 'C17'
RULES = [
    Rule('C17.R1', 'RMI wrapper: 20-byte preamble, then the SMF parser on the same reader', 3),
    Rule('C17.R2', 'MUS controller map, percussion channel mapping and per-channel volume memory', 4),
    Rule('C17.R3', 'MUS division and tempo give 140 Hz within 2.5 %', 1),
    Rule('C17.R4', 'XMI delta/duration/tempo scale with one constant; division = tempo*3/25000; per-song division', 4),
    Rule('C17.R5', 'XMI event list: a new event is inserted after the events already queued for its tick (stable order)', 1),
    Rule('C17.R7', 'every move of the XMI source cursor over an IFF chunk body uses the chunk length rounded up to even (the pad byte of odd chunks)', 4),
    Rule('C17.R8', 'every MUS event arm consumes the number of data bytes the DMX format defines; the 8-bit pitch wheel becomes the 14-bit value w * 64', 6),
    Rule('C17.R9', 'the XMI delay reader adds up bytes until a status byte or the end of the data: no byte-count cap', 1),
    Rule('C17.R10', 'data-byte rewrites of the XMI event converter apply to controller events only', 1),
    Rule('C17.R6', 'every load starts from the plain-MIDI format; variable-length encoders continue exactly while 7-bit groups remain', 3),
]
EXPLANATION = ('Constant/table extraction from the AST of the converters and of BW_MidiSequencer::parseRMI, compared with the governing format tables encoded in the '
               'checker (DMX controller numbers, 140 Hz, 120 Hz). Thin claim: necessary conditions of fidelity; the converted event sequence is not decided.')
ASSUMPTIONS = ['DMX MUS controller numbering and the 140 Hz / 120 Hz nominal rates as documented for the formats']
SEQ = 'OpnMidiSequencer'
DMX_MAP = [0, 0, 1, 7, 10, 11, 91, 93, 64, 67, 120, 123, 126, 127, 121]


def views(tier):
    return ['V0'] if tier == 'quick' else ['V0', 'V1']


def analyse(facts, tier):
    obls = []
    # ---- R1
    pr = facts.fn(SEQ + '::parseRMI')
    reads = []
    seeks = []
    smf = []
    fr = pr.params[0]['id']
    for b, j, st in pr.cfg.stmts():
        for x in calls_in(st['s']):
            sn = short(callee_name(x))
            if sn == 'read' and x.get('obj') is not None and strip(x['obj']).get('id') == fr:
                reads.append(const_of(x['a'][1]) * const_of(x['a'][2]) if const_of(x['a'][1]) is not None and const_of(x['a'][2]) is not None else None)
            if sn == 'seek' and strip(x['obj']).get('id') == fr:
                seeks.append((const_of(x['a'][0]), const_of(x['a'][1])))
            if sn == 'parseSMF':
                smf.append(strip(x['a'][0]).get('id') == fr)
    E = facts.enums
    total = (reads[0] if reads and reads[0] is not None else 0) + (seeks[0][0] if seeks and seeks[0][0] is not None else 0)
    ok = len(reads) == 1 and len(seeks) == 1 and total == 20 and seeks[0][1] == E.get('CUR', seeks[0][1])
    obls.append(Obl('C17.R1', pr.name, '20-byte preamble', pr.loc, 'discharged' if ok else 'finding', why='read %s + seek %s from the current position' % (reads, seeks) if ok else 'preamble consumed: reads %s, seeks %s (RIFF/size/RMID/data/size is 20 bytes)' % (reads, seeks)))
    ok = smf == [True]
    obls.append(Obl('C17.R1', pr.name, 'delegates to parseSMF on the same reader', pr.loc, 'discharged' if ok else 'finding', why='return parseSMF(fr)'))
    sig = any(short(callee_name(x)) in ('memcmp',) and any(y.get('str') == 'RIFF' for y in walk(x['a'])) for b, j, st in pr.cfg.stmts() for x in calls_in(st['s']))
    obls.append(Obl('C17.R1', pr.name, 'RIFF signature checked', pr.loc, 'discharged' if sig else 'finding', why='memcmp(header, "RIFF", 4)'))

    # ---- R2
    cm = facts.fn('Convert_mus2midi', required=False)
    if cm is None:
        raise build.AnalysisBroken('C17: MUS converter not compiled in this view')
    g = facts.glob('mus_midimap')
    tv = g.get('init')
    ok = tv == DMX_MAP
    bad = [i for i in range(min(len(tv or []), 15)) if (tv or [])[i] != DMX_MAP[i]] if isinstance(tv, list) else []
    obls.append(Obl('C17.R2', cm.name, 'mus_midimap == DMX controller table', g['loc'], 'discharged' if ok else 'finding', why='15 entries agree' if ok else 'entries %s differ: %s' % (bad, tv)))
    perc = False
    skip = None
    # the channel counter: the lvalue whose post-increment is stored into the channel map (`map[ch] = counter++`), in the converter
    # or in a local helper that numbers the channels; the skip: a further increment of the same lvalue under `counter == K`
    scope = [cm] + [cf for b, j, st in cm.cfg.stmts() for x in calls_in(st['s']) for cf in facts.fns.get(callee_name(x), [])[:1] if is_local_helper(cm, cf)]
    for g_ in scope:
        counter = None
        for b, j, st in g_.cfg.stmts():
            for x in walk(st['s']):
                ap = assign_parts_raw(x)
                if ap and ap[2] == '=' and strip(ap[0]).get('k') == 'ArraySubscriptExpr' and is_incdec(strip(ap[1])) and strip(ap[1])['op'] == '++':
                    counter = show(strip(strip(ap[1])['e']))
        for b, j, st in g_.cfg.stmts():
            for x in walk(st['s']):
                ap = assign_parts(x)
                if g_ is cm and ap and strip(ap[0]).get('k') == 'ArraySubscriptExpr' and const_of(strip(ap[0])['i']) == 15 and const_of(ap[1]) == 9 and (strip(strip(ap[0])['b']).get('t') or {}).get('arr'):
                    perc = True
                if counter is not None and is_incdec(x) and x['op'] == '++' and show(strip(x['e'])) == counter:
                    gf = guard_facts(g_, b, st)
                    for f in gf:
                        n = cmp_norm(f) if f[0] == 'cmp' else None
                        if n and n[0] == '==' and show(strip(n[1])) == counter:
                            skip = (n[2], st['loc'])
    obls.append(Obl('C17.R2', cm.name, 'MUS channel 15 is the percussion channel', cm.loc, 'discharged' if perc else 'finding', why='channelMap[15] = 9'))
    ok = skip is not None and skip[0] == 9
    obls.append(Obl('C17.R2', cm.name, 'MIDI channel 9 is skipped when numbering melodic channels', skip[1] if skip else cm.loc, 'discharged' if ok else 'finding',
                    why='if(currentChannel == 9) ++currentChannel' if ok else 'the allocator skips channel %s instead of the percussion channel 9: a melodic MUS channel lands on the drum channel' % (skip[0] if skip else None)))
    vol = False
    # the channel map: the local array that receives the post-incremented channel counter
    chanmap_ids = set()
    for x in walk(cm.tree):
        ap = assign_parts_raw(x) if isinstance(x, dict) else None
        if ap and ap[2] == '=' and strip(ap[0]).get('k') == 'ArraySubscriptExpr' and strip(strip(ap[0])['b']).get('k') == 'DeclRefExpr' and \
                (const_of(ap[1]) == 9 or (is_incdec(strip(ap[1])) and strip(ap[1])['op'] == '++')):
            chanmap_ids.add(strip(strip(ap[0])['b'])['id'])
    for b, j, st in cm.cfg.stmts():
        for x in walk(st['s']):
            # a 16-entry table subscripted by an element of the channel map (the mapped MIDI channel, not the MUS channel)
            if x.get('k') == 'ArraySubscriptExpr' and x.get('ext') == 16 and strip(x['i']).get('k') == 'ArraySubscriptExpr' and strip(strip(x['i'])['b']).get('id') in chanmap_ids \
                    and strip(x['b']).get('id') not in chanmap_ids:
                vol = True
    obls.append(Obl('C17.R2', cm.name, 'note volume remembered per mapped MIDI channel', cm.loc, 'discharged' if vol else 'finding', why='channel_volume[channelMap[channel]] with 16 entries'))

    # ---- R3
    w = []
    for b, j, st in cm.cfg.stmts():
        for x in calls_in(st['s']):
            sn = short(callee_name(x))
            if sn in ('mus2mid_write1', 'mus2mid_write2', 'mus2mid_write4') and len(x['a']) == 2:
                w.append((sn[-1], const_of(x['a'][1]), x.get('ln')))
    division = tempo = None
    # header: 'M','T','h','d', write4(6), write2(0)/format, write2(1) tracks, write2(division)
    w2 = [i for i, t in enumerate(w) if t[0] == '2']
    for i in range(len(w) - 3):
        if w[i][0] == '2' and w[i][1] == 0x5103 and all(w[i + k][0] == '1' and w[i + k][1] is not None for k in (1, 2, 3)):
            tempo = (w[i + 1][1] << 16) | (w[i + 2][1] << 8) | w[i + 3][1]
    four = [i for i, t in enumerate(w) if t[0] == '4' and t[1] == 6]
    if four:
        after = [t for t in w[four[0] + 1:] if t[0] == '2'][:3]
        if len(after) == 3:
            division = after[2][1]
    if division is None or tempo is None:
        raise build.AnalysisBroken('C17.R3: MUS division/tempo constants not found (%s, %s)' % (division, tempo))
    rate = division * 1e6 / tempo
    ok = abs(rate - 140.0) / 140.0 <= 0.025
    obls.append(Obl('C17.R3', cm.name, 'tick rate', cm.loc, 'discharged' if ok else 'finding', why='division %d, tempo %d us/qn as emitted: %.2f ticks/s' % (division, tempo, rate) if ok else '%.2f ticks/s is outside 140 Hz +- 2.5 %% (division %d, tempo %d)' % (rate, division, tempo)))

    # ---- R4
    cl = facts.fn('xmi2mid_ConvertFiletoList', required=False)
    ce = facts.fn('xmi2mid_ConvertNote', required=False) or facts.fn('xmi2mid_ConvertEvent', required=False)
    cmulti = facts.fn('Convert_xmi2midi_multi', required=False)
    if cl is None or cmulti is None:
        raise build.AnalysisBroken('C17: XMI converter not compiled in this view')
    ks = {}
    for fn in [f for f in facts.all_fns() if f.relfile() == 'src/cvt_xmi2mid.hpp']:
        # roles, not names: the running time is the local handed as the time argument to the event converters / creators; the tempo is
        # the local assembled from three source bytes (`read1() << 16`); a duration is added to the function's own time parameter
        time_ids, tempo_ids = set(), set()
        for b, ex, loc in fn.cfg.exprs():
            for x in walk(ex):
                if 'callee' in x and short(callee_name(x)) in ('xmi2mid_ConvertEvent', 'xmi2mid_ConvertSystemMessage', 'xmi2mid_CreateNewEvent') and len(x.get('a', [])) >= 2 \
                        and strip(x['a'][1]).get('k') == 'DeclRefExpr' and not strip(x['a'][1]).get('parm'):
                    time_ids.add(strip(x['a'][1])['id'])
                ap = assign_parts_raw(x)
                if ap and ap[2] == '=' and strip(ap[0]).get('k') == 'DeclRefExpr' and strip(ap[1]).get('k') == 'BinaryOperator' and strip(ap[1]).get('op') == '<<' and \
                        const_of(strip(ap[1])['r']) == 16 and any(short(callee_name(y)) == 'xmi2mid_read1' for y in calls_in(ap[1])):
                    tempo_ids.add(strip(ap[0])['id'])
        time_param = fn.params[1]['id'] if len(fn.params) > 1 else None
        for b, ex, loc in fn.cfg.exprs():
            for x in walk(ex):
                ap = assign_parts(x)
                if ap and strip(ap[0]).get('id') in time_ids and ap[2] == '+=' and strip(ap[1]).get('k') == 'BinaryOperator' and strip(ap[1])['op'] == '*':
                    ks['delta'] = const_of(strip(ap[1])['r'])
                if ap and strip(ap[0]).get('id') in tempo_ids and ap[2] == '*=':
                    ks['tempo'] = const_of(ap[1])
                if short(x.get('callee', '')) == 'xmi2mid_CreateNewEvent' and len(x['a']) == 2:
                    a = strip(subst(x['a'][1], single_defs(fn.d)))      # the end time may have a name: `off_time = time + delta * 3`
                    if a.get('k') == 'BinaryOperator' and a['op'] == '+' and strip(a['r']).get('k') == 'BinaryOperator' and strip(a['r'])['op'] == '*' and strip(a['l']).get('id') == time_param:
                        ks['duration'] = const_of(strip(a['r'])['r'])
        for b, j, st in fn.cfg.returns():
            e = strip(st['s'].get('e') or {})
            if e.get('k') == 'BinaryOperator' and e['op'] == '/' and mentions(e['l'], lambda y: y.get('id') in tempo_ids):
                l = strip(e['l'])
                ks['ppqn'] = (const_of(l['r']) if l.get('k') == 'BinaryOperator' and l['op'] == '*' else None, const_of(e['r']))
    ok = ks.get('delta') is not None and ks.get('delta') == ks.get('duration') == ks.get('tempo')
    obls.append(Obl('C17.R4', cl.name, 'one scale constant for deltas, durations and tempo', cl.loc, 'discharged' if ok else 'finding', why='k = %s' % ks.get('delta') if ok else 'scale factors differ: %s' % ks))
    k = ks.get('delta') or 1
    pp = ks.get('ppqn')
    ok = pp is not None and pp[0] is not None and pp[1] and abs(1e6 * (k * pp[0] / pp[1]) / k - 120.0) < 1e-9
    obls.append(Obl('C17.R4', cl.name, 'division = tempo * 3 / 25000 (120 ticks per second)', cl.loc, 'discharged' if ok else 'finding', why='ppqn = tempo*%s/%s' % (pp or (None, None))))
    # per-song division in the multi-song converter
    loops = []
    def rec(t):
        if isinstance(t, dict):
            if t.get('k') == 'ForStmt':
                loops.append(t)
            for k2 in ('body', 'then', 'else', 'sub'):
                v = t.get(k2)
                if isinstance(v, list):
                    for y in v:
                        rec(y)
                elif isinstance(v, dict):
                    rec(v)
    rec(cmulti.tree)
    found = None
    for l in loops:
        iv = None
        c = strip(l['cond']) if l.get('cond') else {}
        if c.get('k') == 'BinaryOperator' and c['op'] == '<':
            iv = show(strip(c['l']))
        for x in walk(l.get('body')):
            if short(x.get('callee', '')) == 'xmi2mid_write2' and 'timing' in show(x['a'][1]):
                idx = None
                for y in walk(x['a'][1]):
                    if y.get('k') == 'ArraySubscriptExpr' and 'timing' in show(y['b']):
                        idx = show(strip(y['i']))
                ev_idx = None
                for z in walk(l.get('body')):
                    if short(z.get('callee', '')) == 'xmi2mid_ConvertListToMTrk':
                        for y in walk(z['a']):
                            if y.get('k') == 'ArraySubscriptExpr' and 'events' in show(y['b']):
                                ev_idx = show(strip(y['i']))
                found = (iv, idx, ev_idx, x.get('ln'))
    ok = found is not None and found[0] is not None and found[0] == found[1] == found[2]
    obls.append(Obl('C17.R4', cmulti.name, 'every song is written with its own division', '%s:%s' % (cmulti.file, found[3] if found else cmulti.d['line']), 'discharged' if ok else 'finding',
                    why='timing[%s] and events[%s] inside the loop over %s' % (found[1], found[2], found[0]) if ok else
                    'song %s is written with timing[%s]: songs other than the first get a division computed from another song\'s tempo' % (found[2] if found else '?', found[1] if found else '?')))
    perc_t = facts.fn('xmi2mid_ExtractTracks', required=False)
    obls.append(Obl('C17.R4', cl.name, 'tempo is taken once per sequence', cl.loc, 'discharged' if 'tempo' in ks else 'finding', why='first tempo event sets the division; later ones are skipped'))
    obls += r5_stable(facts)
    obls += r6_format_and_vlq(facts)
    obls += r7_iff_padding(facts)
    obls += r8_mus_event_bytes(facts)
    obls += r9_xmi_delay_sum(facts)
    obls += r10_xmi_rewrites(facts)
    return obls



def r5_stable(facts):
    """The converter queues the note-off of every XMI note (start + duration) before it reads the following events; an event created
    later for the same tick (the end-of-track meta in particular) must go AFTER what is queued: the list walk of xmi2mid_CreateNewEvent
    inserts in front of the first queued event that is strictly later.  With `>=` the end-of-track overtakes a note-off of its tick and
    the writer, which stops at end-of-track, drops that note-off."""
    out = []
    fn = facts.fn('xmi2mid_CreateNewEvent', required=False)
    if fn is None:
        return out
    n = 0
    for bid, b in fn.cfg.blocks.items():
        c = b.get('cond')
        if c is None or len(b.get('succ', [])) != 2:
            continue
        for f in literals(c, True):
            if f[0] != 'cmp':
                continue
            _, op, l, r = f
            ls, rs = show(strip(l)), show(strip(r))
            if 'next->time' in ls and strip(r).get('parm'):
                pass
            elif 'next->time' in rs and strip(l).get('parm'):
                op = {'<': '>', '>': '<', '<=': '>=', '>=': '<='}.get(op, op)
            else:
                continue
            # the true edge must lead to the insertion (a calloc) without another step of the walk (`cur = cur->next`): directly, or by
            # leaving the walk loop in front of the allocation
            def is_step(bid2):
                for st2 in fn.cfg.blocks[bid2]['stmts']:
                    for y in walk(st2['s']):
                        ap2 = assign_parts_raw(y)
                        if ap2 and ap2[2] == '=' and strip(ap2[1]).get('k') == 'MemberExpr' and short(strip(ap2[1])['n']) == 'next' and show(strip(strip(ap2[1])['b'])) == show(strip(ap2[0])):
                            return True
                return False
            steps = {bid2 for bid2 in fn.cfg.blocks if is_step(bid2)}
            allocs = {bid2 for bid2, blk2 in fn.cfg.blocks.items() if any(short(callee_name(y)) == 'calloc' for st2 in blk2['stmts'] for y in walk(st2['s']))}
            t0 = b['succ'][0]
            if t0 is None or not (t0 in allocs or any(a_ in fn.cfg.reachable_from(t0, avoid=steps) for a_ in allocs)):
                continue
            n += 1
            ok = op == '>'
            out.append(Obl('C17.R5', fn.name, 'insert before the first queued event with next->time %s time' % op, b.get('cloc'), 'discharged' if ok else 'finding',
                           why='strictly later: events of the same tick keep their creation order' if ok else
                           'a new event overtakes the events already queued for its tick: the end-of-track meta lands before a note-off of the same tick, which the track writer then drops'))
    if n < 1:
        raise build.AnalysisBroken('C17.R5: the sorted insertion of xmi2mid_CreateNewEvent was not recognised')
    return out



def r6_format_and_vlq(facts):
    """(a) m_format selects the controller dialect in parseEvent (XMI loop controllers, CMF controllers): loadMIDI resets it to Format_MIDI
    before it dispatches to a parser, or every parser sets it itself — a re-used player must not parse a plain SMF as the format of the
    previous file.  (b) the VLQ encoders of the converters emit a continuation byte exactly while value >> 7 is non-zero."""
    out = []
    lm = None
    for f in facts.fns.get(SEQ + '::loadMIDI', []):
        if any(short(callee_name(x)).startswith('parse') for b, ex, loc in f.cfg.exprs() for x in calls_in(ex)):
            lm = f
    if lm is None:
        raise build.AnalysisBroken('C17.R6: loadMIDI dispatcher not found')
    resets = [(b, j) for b, j, st in lm.cfg.stmts() for x in walk(st['s']) if assign_parts(x) and strip(assign_parts(x)[0]).get('k') == 'MemberExpr' and short(strip(assign_parts(x)[0])['n']) == 'm_format']
    calls = [(b, j, st, x) for b, j, st in lm.cfg.stmts(conds=True) for x in calls_in(st['s']) if short(callee_name(x)).startswith('parse') and callee_name(x).startswith(SEQ)]
    for b, j, st, x in calls:
        dom = any((rb == b and rj < j) or (rb != b and lm.cfg.block_dominates(rb, b)) for rb, rj in resets)
        own = False
        for pf in facts.fns.get(callee_name(x), []):
            own = any(assign_parts(y) and strip(assign_parts(y)[0]).get('k') == 'MemberExpr' and short(strip(assign_parts(y)[0])['n']) == 'm_format'
                      for b2, j2, st2 in pf.cfg.stmts() for y in walk(st2['s']))
        ok = dom or own
        out.append(Obl('C17.R6', lm.name, 'format known before ' + short(callee_name(x)), st['loc'], 'discharged' if ok else 'finding',
                       why=('m_format reset before the dispatch' if dom else 'the parser sets m_format itself') if ok else
                       '%s relies on m_format being Format_MIDI, but nothing sets it for this load: after an XMI / CMF / RSXX file the next plain file is parsed with that format\'s controller dialect' % short(callee_name(x))))
    if len(calls) < 5:
        raise build.AnalysisBroken('C17.R6: only %d parser calls in loadMIDI' % len(calls))
    for name in ('mus2mid_writevarlen', 'xmi2mid_PutVLQ'):
        fn = facts.fn(name, required=False)
        if fn is None:
            continue
        vp = fn.params[0] if name == 'mus2mid_writevarlen' else fn.params[1]
        found = False
        for bid, blk in fn.cfg.blocks.items():
            c = blk.get('cond')
            if c is None or blk.get('term') not in ('WhileStmt', 'ForStmt', 'DoStmt'):
                continue
            if not mentions(c, lambda y: y.get('k') == 'DeclRefExpr' and y.get('id') == vp['id']):
                continue
            found = True
            sc = strip(c)
            ok = False
            form = show(c)
            if sc.get('k') == 'BinaryOperator' and sc['op'] in ('>', '!='):
                l = strip(sc['l'])
                shifted = (l.get('k') in ('BinaryOperator', 'CompoundAssignOperator') and l.get('op') in ('>>', '>>=') and const_of(l['r']) == 7 and strip(l['l']).get('id') == vp['id'])
                if shifted and const_of(sc['r']) == 0:
                    ok = True
                if l.get('id') == vp['id'] and sc['op'] == '>' and const_of(sc['r']) == 0x7F:
                    ok = True
            if sc.get('k') == 'BinaryOperator' and sc['op'] == '>=' and strip(sc['l']).get('id') == vp['id'] and const_of(sc['r']) == 0x80:
                ok = True
            if sc.get('k') in ('BinaryOperator', 'CompoundAssignOperator') and sc.get('op') in ('>>', '>>=') and const_of(sc['r']) == 7:
                ok = True
            out.append(Obl('C17.R6', name, 'continuation test ' + form[:40], blk.get('cloc'), 'discharged' if ok else 'finding',
                           why='continues while value >> 7 != 0' if ok else
                           'the encoder does not continue exactly while value >> 7 is non-zero: delays on a 7-bit group boundary (128, 16384, ...) are written with the wrong number of bytes'))
        if not found:
            raise build.AnalysisBroken('C17.R6: the group loop of %s was not found' % name)
    return out


def r7_iff_padding(facts):
    """IFF chunks are padded to an even length.  In the XMI extractor every skip / seek whose distance is built from a chunk length
    (a local defined by xmi2mid_read4: the big-endian size field) must use `(len + 1) & ~1`; a move by the raw length lands on the
    pad byte of an odd chunk and the next chunk header (the FORM of the next song) is read one byte early."""
    out = []
    n = 0
    for fn in facts.all_fns():
        if fn.relfile() != 'src/cvt_xmi2mid.hpp' or fn.tree is None:
            continue
        lens = set()
        for b, j, st in fn.cfg.stmts():
            if st['s'].get('k') == 'DeclStmt':
                for v in st['s']['decls']:
                    if v.get('init') is not None and any(short(callee_name(y)) == 'xmi2mid_read4' for y in walk(v['init']) if 'callee' in y):
                        lens.add(v['id'])
            for x in walk(st['s']):
                ap = assign_parts(x)
                if ap and strip(ap[0]).get('k') == 'DeclRefExpr' and any(short(callee_name(y)) == 'xmi2mid_read4' for y in walk(ap[1]) if 'callee' in y):
                    lens.add(strip(ap[0])['id'])
        if not lens:
            continue
        for b, j, st in fn.cfg.stmts():
            for x in calls_in(st['s']):
                if short(callee_name(x)) not in ('xmi2mid_skipsrc', 'xmi2mid_seeksrc') or len(x.get('a', [])) < 2:
                    continue
                arg = x['a'][1]
                refs = [y for y in walk(arg) if y.get('k') == 'DeclRefExpr' and y.get('id') in lens]
                if not refs:
                    continue
                n += 1
                padded = False
                for y in walk(arg):
                    if y.get('k') == 'BinaryOperator' and y.get('op') == '&':
                        for m_, o_ in ((y['l'], y['r']), (y['r'], y['l'])):
                            c = const_of(m_)
                            if c is not None and (c & 0xFFFFFFFF) == 0xFFFFFFFE:
                                o = strip(o_)
                                if o.get('k') == 'BinaryOperator' and o.get('op') == '+' and (const_of(o['r']) == 1 or const_of(o['l']) == 1) and \
                                        any(z.get('id') in lens for z in walk(o)):
                                    padded = True
                out.append(Obl('C17.R7', fn.name, '%s(%s)' % (short(callee_name(x)), show(arg)[:50]), st['loc'], 'discharged' if padded else 'finding',
                               why='distance uses (len + 1) & ~1' if padded else
                               'the cursor is moved by the raw chunk length: after a chunk of odd size it stands on the pad byte, the next chunk header is misread and the following songs of the file are lost'))
    if n < 4:
        raise build.AnalysisBroken('C17.R7: only %d chunk-length moves found in the XMI converter' % n)
    return out


# DMX MUS event types -> (min, max) data bytes after the event descriptor
MUS_EVENT_BYTES = {0: (1, 1),      # release note: note number
                   1: (1, 2),      # play note: note number, volume when bit 7 of the note byte is set
                   2: (1, 1),      # pitch wheel
                   3: (1, 1),      # system event: controller number only
                   4: (2, 2)}      # change controller: number, value


def r8_mus_event_bytes(facts):
    """(a) the MUS score is a byte stream without resynchronisation points: an arm of the event switch that consumes one byte too
    many or too few puts every later event out of step.  Count the cursor post-increments on every path of each arm (structured
    tree, min / max over if-branches) and compare with the format table.
    (b) pitch wheel: with w the byte under the cursor, (bit2 << 7) | bit1 must equal w * 64 for all 256 values (constant folding
    of the two right-hand sides)."""
    out = []
    fn = facts.fn('Convert_mus2midi')
    # the dispatch on the event type: a switch or an if / else-if chain on (a local holding) `(descriptor & mask) >> 4`
    def is_evtype(e):
        return e.get('k') == 'BinaryOperator' and e.get('op') == '>>' and const_of(e.get('r')) == 4
    disp = dispatch_arms(fn, is_evtype)
    if not disp:
        raise build.AnalysisBroken('C17.R8: event-type switch of Convert_mus2midi not found')
    sws = [disp[0][0]]
    # the cursor: the pointer that the arms post-increment
    def incs(t):
        """(min, max) number of cursor increments along the paths of statement t; None = path leaves by goto (not counted)"""
        if t is None:
            return (0, 0)
        if isinstance(t, list):
            lo = hi = 0
            for y in t:
                r = incs(y)
                if r is None:
                    return None
                lo += r[0]; hi += r[1]
            return (lo, hi)
        k = t.get('k')
        if k == 'GotoStmt' or k == 'ReturnStmt':
            return None
        if k == 'CompoundStmt':
            return incs(t.get('body'))
        if k == 'IfStmt':
            c = incs_expr(t.get('cond'))
            a, b = incs(t.get('then')), incs(t.get('else'))
            arms = [r for r in (a, b) if r is not None]
            if not arms:
                return None
            return (c + min(r[0] for r in arms), c + max(r[1] for r in arms))
        if k in ('BreakStmt',):
            return (0, 0)
        n = incs_expr(t)
        return (n, n)
    # the score cursor: the pointer local that is dereferenced in the condition of the event switch's enclosing loop / incremented most
    # often inside the switch (found by shape, not by name)
    cnt = collections.Counter()
    for y in walk(sws[0]):
        if isinstance(y, dict) and is_incdec(y) and y.get('op') == '++' and (strip(y['e']).get('t') or {}).get('p') and strip(y['e']).get('k') == 'DeclRefExpr':
            cnt[strip(y['e'])['id']] += 1
    if not cnt:
        raise build.AnalysisBroken('C17.R8: no pointer is advanced inside the event switch')
    cur_id = cnt.most_common(1)[0][0]
    def incs_expr(e):
        n_ = 0
        for y in walk(e):
            if not isinstance(y, dict):
                continue
            if is_incdec(y) and y.get('op') == '++' and strip(y['e']).get('id') == cur_id:
                n_ += 1
            ap = assign_parts(y)
            if ap and ap[2] == '+=' and strip(ap[0]).get('id') == cur_id and const_of(ap[1]) is not None:
                n_ += const_of(ap[1])
        return n_
    arms = disp[0][1]
    n = 0
    for ty, (lo, hi) in sorted(MUS_EVENT_BYTES.items()):
        if ty not in arms:
            out.append(Obl('C17.R8', fn.name, 'MUS event type %d' % ty, fn.loc, 'finding', why='no arm for this event type'))
            continue
        n += 1
        r = incs(arms[ty])
        ok = r == (lo, hi)
        out.append(Obl('C17.R8', fn.name, 'MUS event type %d consumes %s data byte(s)' % (ty, lo if lo == hi else '%d..%d' % (lo, hi)), '%s:%s' % (fn.file, arms[ty][0].get('ln')),
                       'discharged' if ok else 'finding',
                       why='cursor increments per path: %s' % (r,) if ok else
                       'the arm advances the cursor by %s byte(s) but the DMX format stores %s: the following delay / event descriptor is swallowed (or re-read) and the rest of the score is parsed out of step' % (r, (lo, hi))))
    if n < 5:
        raise build.AnalysisBroken('C17.R8: MUS event arms not found')
    # (b) pitch wheel assembly
    def fold(e, w):
        e = strip(e)
        if e is None:
            return None
        c = const_of(e)
        if c is not None:
            return c
        k = e.get('k')
        if k == 'UnaryOperator' and e.get('op') == '*':
            return w
        if is_incdec(e):
            return fold(e['e'], w)
        if k == 'DeclRefExpr':
            return None
        if k == 'BinaryOperator':
            a, b = fold(e['l'], w), fold(e['r'], w)
            if a is None or b is None:
                return None
            op = e['op']
            return {'&': a & b, '|': a | b, '<<': a << b, '>>': a >> b, '+': a + b, '-': a - b, '*': a * b}.get(op)
        return None
    b1 = b2 = None
    plain = []
    for x in arms.get(2, []):
        for y in walk(x):
            ap = assign_parts(y)
            if ap and ap[2] == '=' and strip(ap[0]).get('k') == 'DeclRefExpr':
                plain.append(ap[1])
    if len(plain) == 2:
        b1, b2 = plain       # first data byte (LSB), second data byte (MSB) of the MIDI pitch-bend message, in the order they are built
    bad = None
    if b1 is None or b2 is None:
        bad = 'bit1 / bit2 assignments not found'
    else:
        for w in range(256):
            v1, v2 = fold(b1, w), fold(b2, w)
            if v1 is None or v2 is None or not (0 <= v1 < 128 and 0 <= v2 < 128) or ((v2 << 7) | v1) != w * 64:
                bad = 'wheel byte %d gives LSB %s / MSB %s = %s, the format defines %d' % (w, v1, v2, None if v1 is None or v2 is None else (v2 << 7) | v1, w * 64)
                break
    out.append(Obl('C17.R8', fn.name, 'pitch wheel: (bit2 << 7) | bit1 == w * 64 for all 256 w', '%s:%s' % (fn.file, arms[2][0].get('ln')) if arms.get(2) else fn.loc,
                   'discharged' if bad is None else 'finding', why='folded over w = 0..255' if bad is None else bad))
    return out


def r9_xmi_delay_sum(facts):
    """an XMI delay is the SUM of all consecutive bytes below 0x80 (127 ticks per byte), not a 4-byte variable-length quantity: the
    loop of xmi2mid_GetVLQ2 may end at a byte with bit 7 set or at the end of the source only; a cap on the loop counter cuts every
    pause longer than cap * 127 ticks short."""
    out = []
    fn = facts.fn('xmi2mid_GetVLQ2')
    loops = [x for x in walk(fn.tree) if isinstance(x, dict) and x.get('k') in ('ForStmt', 'WhileStmt')]
    if not loops:
        raise build.AnalysisBroken('C17.R9: loop of xmi2mid_GetVLQ2 not found')
    lp = loops[0]
    iv = None
    for y in walk(lp.get('inc')):
        if isinstance(y, dict) and is_incdec(y):
            iv = strip(y['e']).get('id')
    capped = None
    for f in literals(lp.get('cond'), True) if lp.get('cond') is not None else []:
        if f[0] == 'cmp' and iv is not None and (strip(f[2]).get('id') == iv or strip(f[3]).get('id') == iv):
            capped = fact_str(f)
    out.append(Obl('C17.R9', fn.name, 'delay loop condition', '%s:%s' % (fn.file, lp.get('ln')), 'discharged' if capped is None else 'finding',
                   why='the loop runs until a status byte or the end of the source' if capped is None else
                   'the loop also stops at %s: an XMI delay is the sum of its bytes, so a pause of more than that many * 127 ticks is cut short and the rest of its bytes is skipped as junk' % capped))
    return out


def r10_xmi_rewrites(facts):
    """xmi2mid_ConvertEvent handles every channel event.  The rewrites of the first data byte (XMI controller 114 -> bank select LSB,
    bank 127 -> 0) are defined for controller events: each assignment of a constant to the data byte is guarded by a test of the
    status high nibble against 0xB; without it key 114, program 114 and bend LSB 114 are rewritten as well."""
    out = []
    fn = facts.fn('xmi2mid_ConvertEvent')
    n = 0
    data_id = None
    for b, j, st in fn.cfg.stmts():
        ap = assign_parts(st['s'])
        if data_id is None and ap and strip(ap[0]).get('k') == 'DeclRefExpr' and any(isinstance(y, dict) and 'callee' in y and short(callee_name(y)) == 'xmi2mid_read1' for y in walk(ap[1])):
            data_id = strip(ap[0])['id']
    if data_id is None:
        raise build.AnalysisBroken('C17.R10: the first data byte read of xmi2mid_ConvertEvent not found')
    for b, j, st in fn.cfg.stmts():
        ap = assign_parts(st['s'])
        if not ap or ap[2] != '=' or const_of(ap[1]) is None or strip(ap[0]).get('k') != 'DeclRefExpr' or strip(ap[0]).get('parm'):
            continue
        if strip(ap[0]).get('id') != data_id:
            continue
        n += 1
        ok = False
        for f in guard_facts(fn, b, st, sd=single_defs(fn.d)) + guard_facts(fn, b, st):      # the nibble may have a name: `evtype = status >> 4`
            nn = cmp_norm(f) if f[0] == 'cmp' else None
            if nn and nn[0] == '==' and nn[2] == 0xB and any(isinstance(y, dict) and y.get('k') == 'BinaryOperator' and y.get('op') == '>>' and const_of(y.get('r')) == 4 for y in walk(nn[1])):
                ok = True
        out.append(Obl('C17.R10', fn.name, 'data = %s' % show(ap[1]), st['loc'], 'discharged' if ok else 'finding',
                       why='only for status 0xBn' if ok else
                       'the first data byte is rewritten for every kind of channel event: a note key, program number or bend LSB equal to the controller number is changed too'))
    if n < 1:
        raise build.AnalysisBroken('C17.R10: data-byte rewrites of xmi2mid_ConvertEvent not found')
    return out
