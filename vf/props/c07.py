"""C07 — the sequencer delivers every file event once, in order, at the right time (thin claim: timing and exactly-once are not decided).

R1  delivery wiring: each channel event type is dispatched to the interface slot of that event with the data bytes in MIDI order;
    each slot is bound to the proxy that calls the same-named realTime_* method with its arguments in order.
R2  event lengths: the number of data bytes consumed per status equals the SMF table, and equals the bound of the preceding check.
R3  gating precedes delivery: solo / disabled-track returns exempt tempo and time-signature events of track 0 (format < 2) and
    dominate the raw-event hook and every dispatch; the disabled-channel test guards note-on and note-off.
R4  same-tick order: note-offs and controllers are concatenated before the bucket that holds note-ons; the note-state index
    used for the note-off reordering is the same expression wherever it is computed.
R5  reported length = latest row time + post-song delay, whose initial value is 1.0.
R6  tempo freshness: in processEvents the tick->seconds conversion of the delay to the next row reads m_tempo at a point from
    which no handleEvent call is reachable (a Set Tempo of the current row already applies to the following delay).
"""
import collections
from ..core import *
from ..logic import *
from ..report import Obl, Rule
from .. import build
from . import gating
from .c12 import linear

PROP = 'C07'
RULES = [
    Rule('C07.R1', 'event dispatch and interface wiring deliver each channel event to the matching realTime_* method with bytes in order', 16),
    Rule('C07.R2', 'data bytes consumed per status byte follow the SMF length table and are bounds-checked for exactly that length', 4),
    Rule('C07.R3', 'track/channel gating dominates delivery; track-0 timing events are exempt', 4),
    Rule('C07.R4', 'same-tick ordering buckets and a consistent note-state index', 3),
    Rule('C07.R5', 'reported length is the latest row time plus the one-second post-song delay; a stored row whose delay is dropped gives its ticks back to the running tick position', 3),
    Rule('C07.R6', 'the delay to the next row is converted with the tempo in force after the row\'s events were handled', 1),
    Rule('C07.R8', 'loading a song resets the track / channel gating state: the gating members are re-initialised and every table sized by the new track count is emptied first', 5),
    Rule('C07.R9', 'the tempo multiplier is applied where time is subtracted (Tick): its setter does not rescale the pending song time', 1),
    Rule('C07.R10', 'the variable-length reader stops only at a byte without the continuation bit, at the end of the data, or after at least four bytes', 2),
    Rule('C07.R7', 'running status is updated by every channel voice message; each track\'s time line starts from the initial tempo', 2),
]
EXPLANATION = ('AST/CFG agreement rules over BW_MidiSequencer::handleEvent, parseEvent, MidiTrackRow::sortEvents, buildTimeLine and the interface wiring in '
               'opnmidi_sequencer.cpp: switch-case -> callee tables with argument order, data-byte counts per status, guard facts of the gating returns, '
               'the bucket concatenation order. Thin claim: necessary conditions of correct delivery; event times, exactly-once delivery and the 512-frame '
               'bound are not decided.')
ASSUMPTIONS = ['the interface struct is only filled by initSequencerInterface (slots are function pointers of fixed signature)']

SEQ = 'OpnMidiSequencer'
DISPATCH = {   # event type enumerator -> (interface slot, data byte indices in argument order)
    'T_NOTEOFF': ('rt_noteOff', [0]), 'T_NOTEON': ('rt_noteOn', [0, 1]), 'T_NOTETOUCH': ('rt_noteAfterTouch', [0, 1]),
    'T_CTRLCHANGE': ('rt_controllerChange', [0, 1]), 'T_PATCHCHANGE': ('rt_patchChange', [0]), 'T_CHANAFTTOUCH': ('rt_channelAfterTouch', [0]),
    'T_WHEEL': ('rt_pitchBend', [1, 0]),
}
WIRING = {'rt_noteOn': ('rtNoteOn', 'realTime_NoteOn'), 'rt_noteOff': ('rtNoteOff', 'realTime_NoteOff'), 'rt_noteAfterTouch': ('rtNoteAfterTouch', 'realTime_NoteAfterTouch'),
          'rt_channelAfterTouch': ('rtChannelAfterTouch', 'realTime_ChannelAfterTouch'), 'rt_controllerChange': ('rtControllerChange', 'realTime_Controller'),
          'rt_patchChange': ('rtPatchChange', 'realTime_PatchChange'), 'rt_pitchBend': ('rtPitchBend', 'realTime_PitchBend'), 'rt_systemExclusive': ('rtSysEx', 'realTime_SysEx'),
          'rt_deviceSwitch': ('rtDeviceSwitch', 'realTime_deviceSwitch'), 'rt_currentDevice': ('rtCurrentDevice', 'realTime_currentDevice')}
LENGTHS = {'T_NOTEOFF': 2, 'T_NOTEON': 2, 'T_NOTETOUCH': 2, 'T_CTRLCHANGE': 2, 'T_WHEEL': 2, 'T_PATCHCHANGE': 1, 'T_CHANAFTTOUCH': 1}


def views(tier):
    return ['V0'] if tier == 'quick' else ['V0', 'V1', 'noMUS', 'noXMI']


def slot_calls(fn):
    for b, j, st in fn.cfg.stmts():
        for x in walk(st['s']):
            if 'callee_e' in x:
                ce = strip(x['callee_e'])
                if ce.get('k') == 'MemberExpr' and mentions(ce, member_named('m_interface')):
                    yield b, j, st, short(ce['n']), x


def data_index(e, locals_init):
    """index k when e is evt.data[k], or a local initialised from it"""
    e = strip(e)
    if e.get('k') == 'DeclRefExpr' and e.get('id') in locals_init:
        e = strip(locals_init[e['id']])
    if short(e.get('callee', '')) == 'operator[]' and len(e.get('a', [])) == 2 and mentions(e['a'][0], member_named('data')):
        return const_of(e['a'][1])
    return None


def analyse(facts, tier):
    obls = []
    if not facts.fns.get(SEQ + '::handleEvent'):
        raise build.AnalysisBroken('C07: sequencer not compiled in this view')
    he = facts.fn(SEQ + '::handleEvent')
    E = facts.enums
    locs = {}
    for b, j, st in he.cfg.stmts():
        if st['s'].get('k') == 'DeclStmt':
            for v in st['s']['decls']:
                if 'init' in v:
                    locs[v['id']] = v['init']
    calls = list(slot_calls(he))
    # ---- R1 dispatch
    for tname, (slot, order) in sorted(DISPATCH.items()):
        tv = E.get(tname)
        hit = None
        for b, j, st, sn, x in calls:
            if sn != slot:
                continue
            gf = guard_facts(he, b, st)
            if any(f[0] == 'case' and tv in f[2] and mentions(f[1], member_named('type')) for f in gf):
                hit = (st, x)
        if hit is None:
            obls.append(Obl('C07.R1', he.name, '%s -> %s' % (tname, slot), he.loc, 'finding', why='event type is not dispatched to its interface slot'))
            continue
        st, x = hit
        args = x.get('a', [])
        idx = [data_index(a, locs) for a in args[2:]]
        ch_ok = len(args) >= 2 and 'midCh' in show(args[1])
        ok = ch_ok and idx == order
        obls.append(Obl('C07.R1', he.name, '%s -> %s' % (tname, slot), st['loc'], 'discharged' if ok else 'finding',
                        why='channel, then data bytes %s' % order if ok else 'arguments are (%s): expected the channel and data bytes %s' % (', '.join(show(a) for a in args[1:]), order)))
    sx = [(st, x) for b, j, st, sn, x in calls if sn == 'rt_systemExclusive']
    ok = bool(sx) and 'data()' in show(sx[0][1]['a'][1]) and 'size()' in show(sx[0][1]['a'][2])
    obls.append(Obl('C07.R1', he.name, 'SysEx -> rt_systemExclusive', sx[0][0]['loc'] if sx else he.loc, 'discharged' if ok else 'finding', why='whole message with its size' if ok else 'SysEx is not delivered'))
    # wiring
    isi = facts.fn('OPNMIDIplay::initSequencerInterface')
    bound = {}
    for b, j, st in isi.cfg.stmts():
        for x in walk(st['s']):
            ap = assign_parts(x)
            if ap and strip(ap[0]).get('k') == 'MemberExpr' and strip(ap[1]).get('k') == 'DeclRefExpr' and strip(ap[1]).get('fn'):
                bound[short(strip(ap[0])['n'])] = (short(strip(ap[1])['n']), st['loc'])
    for slot, (proxy, method) in sorted(WIRING.items()):
        bnd = bound.get(slot)
        okb = bnd is not None and bnd[0] == proxy
        pf = facts.fn(proxy, required=False)
        okp = False
        why = ''
        if pf is not None:
            for b, j, st in pf.cfg.stmts():
                for x in calls_in(st['s']):
                    if short(callee_name(x)) == method:
                        pa = [p['id'] for p in pf.params[1:]]
                        aa = [strip(a).get('id') for a in x.get('a', [])]
                        okp = pa == aa
                        why = '%s(%s)' % (method, ', '.join(show(a) for a in x.get('a', [])))
        obls.append(Obl('C07.R1', isi.name, 'slot %s' % slot, bnd[1] if bnd else isi.loc, 'discharged' if (okb and okp) else 'finding',
                        why='bound to %s, which calls %s with its arguments in order' % (proxy, why) if (okb and okp) else 'slot bound to %s; proxy forwards as %s' % (bnd[0] if bnd else None, why or 'nothing')))

    # ---- R2 lengths
    pe = facts.fn(SEQ + '::parseEvent')
    groups = {}
    for b, j, st in pe.cfg.stmts():
        pushes = 0
        for x in calls_in(st['s']):
            if short(callee_name(x)) == 'push_back' and mentions(x.get('obj'), member_named('data')) and mentions(x.get('a'), lambda y: y.get('k') == 'UnaryOperator' and y['op'] == '*'):
                pushes += 1
        if not pushes:
            continue
        gf = guard_facts(pe, b, st)
        # the outer switch of the parser runs over a local (the event type nibble); the inner one over a data byte of the event
        cases = [f for f in gf if f[0] == 'case' and strip(f[1]).get('k') == 'DeclRefExpr']
        key = tuple(sorted(cases[0][2])) if cases else tuple(sorted(str(fact_str(f)) for f in gf if f[0] == 'cmp' and f[1] == '==' and 'byte' in fact_str(f)))
        g = groups.setdefault(key, {'push': 0, 'bound': None, 'loc': st['loc']})
        g['push'] += pushes
        for f in gf:
            # the surviving edge of `ptr + K > end`
            if f[0] == 'cmp' and f[1] == '<=' and 'ptr' in show(f[2]) and 'end' in show(f[3]):
                l = strip(f[2])
                if l.get('k') == 'BinaryOperator' and l['op'] == '+' and const_of(l['r']) is not None:
                    g['bound'] = max(g['bound'] or 0, const_of(l['r']))      # the check of the function head (1 byte: the status) is spent
    name_of = {v: n for n, v in E.items() if n.startswith('T_') and v < 16}
    for key, g in sorted(groups.items(), key=lambda kv: str(kv[0])):
        if key and isinstance(key[0], int):
            names = [name_of.get(v, str(v)) for v in key]
            want = {LENGTHS.get(n) for n in names}
            ok = len(want) == 1 and g['push'] == list(want)[0] and g['bound'] == g['push']
            obls.append(Obl('C07.R2', pe.name, 'data bytes of %s' % '/'.join(names), g['loc'], 'discharged' if ok else 'finding',
                            why='%d byte(s) consumed, bounds check for %s' % (g['push'], g['bound']) if ok else 'consumes %d byte(s) after a check for %s; SMF defines %s' % (g['push'], g['bound'], sorted(x for x in want if x))))
        else:
            ok = g['bound'] == g['push'] and g['push'] in (1, 2)
            obls.append(Obl('C07.R2', pe.name, 'system common %s' % (key[0][:40] if key else '?'), g['loc'], 'discharged' if ok else 'finding',
                            why='%d byte(s) consumed, bounds check for %s' % (g['push'], g['bound'])))
    if len(groups) < 4:
        raise build.AnalysisBroken('C07.R2: only %d data-byte groups found in parseEvent' % len(groups))

    # ---- R3 gating
    gates = []
    kinds = set()
    for b, j, st, gf in gating.gating_returns(he):
        exempt = gating.excluded(gf, gating.timing_event(he, E, 'ST_TEMPOCHANGE')) and gating.excluded(gf, gating.timing_event(he, E, 'ST_TIMESIGNATURE'))
        ks_ = gating.gate_kinds(he, gf)
        kinds |= ks_
        gates.append((b, j, st, '/'.join(sorted(ks_)) or 'track', exempt))
    for b, j, st, kind, exempt in gates:
        obls.append(Obl('C07.R3', he.name, '%s-track gate exempts track-0 tempo/time-signature' % kind, st['loc'], 'discharged' if exempt else 'finding',
                        why='the guard of this return contradicts "track 0, format < 2, T_SPECIAL, tempo change / time signature"' if exempt else
                        'tempo / time-signature events of track 0 are dropped by the %s filter: event times no longer follow the tempo map' % kind))
    if kinds != {'solo', 'disabled'}:
        obls.append(Obl('C07.R3', he.name, 'solo and disabled-track gates', he.loc, 'finding', why='gating returns found: %s' % sorted(kinds)))
    # gates dominate every delivery
    gate_blocks = [g[0] for g in gates]
    first_gate_cond = None
    for bid, blk in he.cfg.blocks.items():
        if blk.get('cond') is not None and 'm_trackSolo' in show(blk['cond']):
            first_gate_cond = bid if first_gate_cond is None else max(first_gate_cond, bid)
    undom = []
    for b, j, st, sn, x in calls:
        if sn.startswith('rt_') or sn == 'onEvent':
            # every path to the delivery passes the exemption test (the block that evaluates `track == 0`)
            entry_succ = he.cfg.succ.get(he.cfg.entry, [])
            if not entry_succ or not he.cfg.block_dominates(entry_succ[0], b):
                undom.append(sn)
            # and cannot be reached from the gate returns' blocks (they return) -- structural
    obls.append(Obl('C07.R3', he.name, 'gates precede the raw-event hook and every dispatch', he.loc, 'discharged' if not undom and gates else 'finding',
                    why='all %d deliveries come after the gating decision' % len(calls) if not undom else 'deliveries not behind the gate: %s' % sorted(set(undom))))
    for tname in ('T_NOTEON', 'T_NOTEOFF'):
        slot = DISPATCH[tname][0]
        okc = False
        locc = he.loc
        for b, j, st, sn, x in calls:
            if sn == slot:
                gf = guard_facts(he, b, st)
                locc = st['loc']
                # the negation of (.. && m_channelDisable[<channel>]): a disjunction with an alternative `!m_channelDisable[..]`, or that fact alone
                def chan_off(f_):
                    return f_[0] == 'truth' and not f_[2] and mentions(f_[1], member_named('m_channelDisable'))
                okc = any(f[0] == 'or' and any(chan_off(l_) for alt in f[1] for l_ in alt) for f in gf) or any(chan_off(f) for f in gf)
        obls.append(Obl('C07.R3', he.name, 'disabled-channel test guards ' + slot, locc, 'discharged' if okc else 'finding',
                        why='dispatch only when !(midCh < 16 && m_channelDisable[midCh])' if okc else 'notes of a disabled channel are delivered'))

    # ---- R4 ordering
    se = facts.fn(SEQ + '::MidiTrackRow::sortEvents')
    # the buckets by what they receive (not by what they are called): a local vector that gets `push_back(events[i])` under
    # `type == T`; the bucket filled in the final else (no positive type test) is the one that holds the note-ons
    role = {}
    from .c01 import _append_wrappers
    for tgt_, src_, gf_, loc_ in append_sites(se, _append_wrappers(facts)):
        if mentions(src_, member_named('events')):
            bid_ = tgt_['id']
            tys = set()
            def pos_types(fs):
                for f in fs:
                    if f[0] == 'cmp' and f[1] == '==' and mentions(f[2], member_named('type')) and const_of(f[3]) is not None:
                        tys.add(const_of(f[3]))
                    if f[0] == 'or':
                        for alt in f[1]:
                            pos_types(alt)
            pos_types(gf_)
            role.setdefault(bid_, set()).update(tys if tys else {'other'})
    def role_of(vid):
        r = role.get(vid, set())
        if E.get('T_NOTEOFF') in r:
            return 'noteOffs'
        if E.get('T_CTRLCHANGE') in r:
            return 'controllers'
        if r == {'other'}:
            return 'anyOther'
        if E.get('T_SYSEX') in r:
            return 'sysEx'
        if E.get('T_SPECIAL') in r:
            return 'metas'
        return None
    order = []
    for b, j, st in se.cfg.stmts():
        for x in calls_in(st['s']):
            if short(callee_name(x)) == 'insert' and mentions(x.get('obj'), member_named('events')) and len(x.get('a', [])) == 3:
                ids = [y['id'] for y in walk(x['a'][1]) if y.get('k') == 'DeclRefExpr' and not y.get('fn') and y.get('id') in role]
                order.append(role_of(ids[0]) if ids else show(x['a'][1]))
    ok = 'noteOffs' in order and 'controllers' in order and 'anyOther' in order and order.index('noteOffs') < order.index('anyOther') and order.index('controllers') < order.index('anyOther') and order[-1] == 'anyOther'
    obls.append(Obl('C07.R4', se.name, 'bucket order', se.loc, 'discharged' if ok else 'finding', why=' < '.join(str(o_) for o_ in order) if ok else 'concatenation order %s does not put note-offs and controllers before the note-on bucket' % order))
    # note-ons are in the last bucket: no classification branch of an earlier bucket tests T_NOTEON
    non_bucket = not any(E.get('T_NOTEON') in r_ for vid_, r_ in role.items() if role_of(vid_) != 'anyOther')
    obls.append(Obl('C07.R4', se.name, 'note-ons stay in the last bucket', se.loc, 'discharged' if non_bucket else 'finding', why='no early bucket accepts T_NOTEON'))
    forms = []
    state_inits = []
    # the locals that subscript the note-state table (the bool* parameter)
    state_idx = set()
    ns_id = se.params[0]['id'] if se.params else None
    for x in walk(se.tree):
        if isinstance(x, dict) and x.get('k') == 'ArraySubscriptExpr' and strip(x['b']).get('id') == ns_id and strip(x['i']).get('k') == 'DeclRefExpr':
            state_idx.add(strip(x['i'])['id'])
    for b, j, st in se.cfg.stmts():
        if st['s'].get('k') == 'DeclStmt':
            for v in st['s']['decls']:
                if v['id'] in state_idx and 'init' in v:
                    f = linear(v['init'])
                    forms.append((f, st['loc'], show(v['init'])))
                    state_inits.append(v['init'])
    def canon(f):
        if f is None:
            return None
        return tuple(sorted((('channel' if 'channel' in k else ('note' if 'data' in k else k)), c) for k, c in f[0].items())), f[1]
    cf = {canon(f[0]) for f in forms}
    # linear() treats `x & 0x7F` as opaque; compare renderings with the variable names normalised
    import re
    def anon(e):
        # the expression with every local's name replaced by `$` and `->` / `(*x).` read as `.`: what is computed, not from which variable
        def rn_(x):
            if isinstance(x, list):
                return [rn_(y) for y in x]
            if not isinstance(x, dict):
                return x
            x = {k_: (rn_(v_) if k_ not in ('t', 'ot') else v_) for k_, v_ in x.items()}
            if x.get('k') == 'DeclRefExpr' and not x.get('parm') and not x.get('enumc') and 'c' not in x:
                x['n'] = '$'
            return x
        return show(rn_(e)).replace('->', '.').replace('(*$)', '$')
    rend = {anon(v_init) for v_init in state_inits}
    ok = len(forms) >= 2 and len(rend) == 1
    obls.append(Obl('C07.R4', se.name, 'note-state index is one expression', forms[0][1] if forms else se.loc, 'discharged' if ok else 'finding',
                    why='%d computations of %s' % (len(forms), list(rend)[0]) if ok else 'the note-state table is indexed inconsistently: %s' % sorted(rend)))

    # ---- R5
    ctor = [f for f in facts.fns.get(SEQ + '::' + SEQ, []) if f.d.get('ctor')]
    init = None
    for c in ctor:
        for b in c.d['blocks']:
            for s in b['stmts']:
                if s['s'].get('k') == 'CtorInit' and short(s['s'].get('field', '')) == 'm_postSongWaitDelay':
                    init = s['s']['init'].get('fc')
    obls.append(Obl('C07.R5', SEQ + '::' + SEQ, 'post-song delay initialised to one second', ctor[0].loc if ctor else he.loc, 'discharged' if init == 1.0 else 'finding', why='m_postSongWaitDelay(%s)' % init))
    bt = facts.fn(SEQ + '::buildTimeLine')
    mx = add = False
    for b, j, st in bt.cfg.stmts():
        for x in walk(st['s']):
            ap = assign_parts(x)
            if ap and short(strip(ap[0]).get('n', '')) == 'm_fullSongTimeLength':
                # m_fullSongTimeLength = t under t > m_fullSongTimeLength, t the running time of the track (a local)
                r_ = strip(ap[1])
                if ap[2] == '=' and r_.get('k') == 'DeclRefExpr' and not r_.get('parm') and any(
                        f[0] == 'cmp' and ((f[1] == '>' and strip(f[2]).get('id') == r_.get('id') and mentions(f[3], member_named('m_fullSongTimeLength'))) or
                                           (f[1] == '<' and strip(f[3]).get('id') == r_.get('id') and mentions(f[2], member_named('m_fullSongTimeLength')))) for f in guard_facts(bt, b, st)):
                    mx = True
                if ap[2] == '+=' and short(strip(ap[1]).get('n', '')) == 'm_postSongWaitDelay':
                    add = True
    obls.append(Obl('C07.R5', bt.name, 'length = max row time + post-song delay', bt.loc, 'discharged' if (mx and add) else 'finding', why='max over rows, then += m_postSongWaitDelay' if (mx and add) else 'length computation differs (max=%s, add=%s)' % (mx, add)))
    obls += r5_rows_on_their_ticks(facts)
    obls += r6(facts)
    obls += r7(facts)
    obls += r8_load_reset(facts)
    obls += r9_tempo_setter(facts)
    obls += r10_varlen_exits(facts)
    return obls



def r5_rows_on_their_ticks(facts):
    """buildTimeLine() computes row times from the rows' tick positions wherever the tempo changes between two rows, and from their
    delays elsewhere: the two agree only while every row stands at the tick `position of the row before + its delay`.  The builder
    keeps a running tick counter (the local stored into `<row>.absPos`, advanced by `<row>.delay`).  A store that changes the delay
    of a row that is already in the track (the end-silence skip zeroes it) must give the same ticks back to the counter first."""
    out = []
    fn = facts.fn(SEQ + '::buildSmfTrackData')
    counter = None
    for b, j, st in fn.cfg.stmts():
        for x in walk(st['s']):
            ap = assign_parts(x)
            if ap and ap[2] == '=' and strip(ap[0]).get('k') == 'MemberExpr' and short(strip(ap[0])['n']) == 'absPos' and strip(ap[1]).get('k') == 'DeclRefExpr':
                counter = strip(ap[1])['id']
    if counter is None:
        raise build.AnalysisBroken('C07.R5: the running tick counter of buildSmfTrackData (stored into <row>.absPos) not found')
    al = alias_defs(fn.d)
    n = 0
    for b, j, st in fn.cfg.stmts():
        for x in walk(st['s']):
            ap = assign_parts(x)
            if not (ap and strip(ap[0]).get('k') == 'MemberExpr' and short(strip(ap[0])['n']) == 'delay'):
                continue
            base = strip(strip(ap[0]).get('b') or {})
            # a row that is already stored in the track: a reference bound to an element of m_trackData
            if not (base.get('k') == 'DeclRefExpr' and base.get('id') in al and mentions(subst(al[base['id']], al), member_named('m_trackData'))):
                continue
            n += 1
            given_back = False
            for j2, st2 in enumerate(fn.cfg.blocks[b]['stmts'][:j]):
                for y in walk(st2['s']):
                    ap2 = assign_parts(y)
                    if ap2 and ap2[2] == '-=' and strip(ap2[0]).get('id') == counter and show(strip(ap2[1])) == show(strip(ap[0])):
                        given_back = True
            ok = given_back or (ap[2] != '=')
            out.append(Obl('C07.R5', fn.name, 'stored row: %s' % show(x)[:40], st['loc'], 'discharged' if ok else 'finding',
                           why='the tick counter gives the dropped delay back first: the next row stands at this row\'s tick' if ok else
                           'the delay of a stored row is changed but the running tick position keeps it: the next row stays at its file tick, and where a tempo change falls in between, '
                           'buildTimeLine recomputes the row time from the tick positions - the skipped silence comes back into the row times and the reported length'))
    if n < 1:
        raise build.AnalysisBroken('C07.R5: the end-silence store to a stored row\'s delay was not found')
    return out


def r6(facts):
    out = []
    pe = facts.fn(SEQ + '::processEvents')
    he = [(b, j) for b, j, st in pe.cfg.stmts() for x in calls_in(st['s']) if short(callee_name(x)) == 'handleEvent']
    if not he:
        raise build.AnalysisBroken('C07.R6: handleEvent calls not found in processEvents')
    # locals initialised / assigned from m_tempo
    copies = {}
    for b, j, st in pe.cfg.stmts():
        s_ = st['s']
        if s_.get('k') == 'DeclStmt':
            for v in s_['decls']:
                if v.get('init') is not None and mentions(v['init'], member_named('m_tempo')):
                    copies[v['id']] = (b, j, st)
        for x in walk(s_):
            ap = assign_parts(x)
            if ap and strip(ap[0]).get('k') == 'DeclRefExpr' and mentions(ap[1], member_named('m_tempo')):
                copies[strip(ap[0])['id']] = (b, j, st)
    sites = []
    for b, j, st in pe.cfg.stmts():
        for x in walk(st['s']):
            ops = None
            if x.get('k') == 'BinaryOperator' and x.get('op') == '*':
                ops = [x['l'], x['r']]
            elif short(x.get('callee', '')) == 'operator*' and len(x.get('a', [])) == 2:
                ops = x['a']
            if not ops:
                continue
            for o in ops:
                if mentions(o, member_named('m_tempo')):
                    sites.append((b, j, st, x, (b, j), 'm_tempo'))
                else:
                    for y in walk(o):
                        if y.get('k') == 'DeclRefExpr' and y.get('id') in copies:
                            cb, cj, cst = copies[y['id']]
                            sites.append((b, j, st, x, (cb, cj), 'copy `%s` taken at line %s' % (short(y['n']), cst['loc'].rsplit(':', 1)[1])))
    if not sites:
        raise build.AnalysisBroken('C07.R6: the tick -> time multiplication by the tempo was not found in processEvents')
    for b, j, st, x, readpt, what in sites:
        stale = [h for h in he if pe.cfg.stmt_before(readpt, h)]
        out.append(Obl('C07.R6', pe.name, show(x)[:60], st['loc'], 'finding' if stale else 'discharged',
                       why=('the tempo used for the delay after this row is a %s, read before the row\'s events are handled: a Set Tempo event takes effect one row late' % what) if stale else
                       'tempo read (%s) after every handleEvent call of the row' % what))
    return out



def r7(facts):
    """(a) parseEvent stores the status byte of every channel voice message (the store dominates the switch on the event type), so a data
    byte that follows a Program Change / Channel Pressure is decoded with the right running status.
    (b) buildTimeLine: a local that the per-track loop updates from the tempo events is declared inside that loop — each track is timed
    from the song's initial tempo, not from where the previous track ended."""
    out = []
    pe = facts.fn(SEQ + '::parseEvent')
    sp = [p for p in pe.params if p['n'] == 'status'] or [p for p in pe.params if (p['t'] or {}).get('ref') and (p['t'] or {}).get('w') == 32 and not (p['t'] or {}).get('const')]
    store = None
    sw = None
    # the status byte: the local the event type is derived from (`evType = (byte >> 4) & 0x0F`)
    status_src = set()
    evtype_ids = set()
    for b, j, st in pe.cfg.stmts():
        if st['s'].get('k') == 'DeclStmt':
            for v in st['s']['decls']:
                if v.get('init') is not None and any(y.get('k') == 'BinaryOperator' and y['op'] == '>>' and const_of(y['r']) == 4 for y in walk(v['init'])):
                    evtype_ids.add(v['id'])
                    for y in walk(v.get('init') or {}):
                        if y.get('k') == 'DeclRefExpr' and not y.get('parm'):
                            status_src.add(y.get('id'))
    for b, j, st in pe.cfg.stmts():
        for x in walk(st['s']):
            ap = assign_parts(x)
            if ap and sp and strip(ap[0]).get('id') == sp[0]['id'] and strip(ap[1]).get('k') == 'DeclRefExpr' and strip(ap[1]).get('id') in status_src:
                store = (b, j, st)
    for bid, blk in pe.cfg.blocks.items():
        if blk.get('term') == 'SwitchStmt' and 'cond' in blk and strip(blk['cond']).get('id') in evtype_ids:
            sw = bid
    if sw is None or not sp:
        raise build.AnalysisBroken('C07.R7: switch(evType) / status parameter of parseEvent not found')
    ok = store is not None and (store[0] == sw or pe.cfg.block_dominates(store[0], sw))
    out.append(Obl('C07.R7', pe.name, 'status = byte for every channel voice message', store[2]['loc'] if store else pe.loc, 'discharged' if ok else 'finding',
                   why='the store dominates the switch on the event type' if ok else
                   'the running status is not updated for every channel voice message: a data byte after such a message is decoded with a stale status and the rest of the track is misread'))
    bt = facts.fn(SEQ + '::buildTimeLine')
    loops = []
    def rec(t):
        if isinstance(t, dict):
            # the per-track loop: bounded by the number of tracks (m_trackData.size(), directly or through a local)
            if t.get('k') == 'ForStmt' and t.get('cond') is not None and mentions(subst(t['cond'], single_defs(bt.d)), member_named('m_trackData')):
                loops.append(t)
            for k2 in ('body', 'then', 'else', 'sub', 'init'):
                v = t.get(k2)
                if isinstance(v, (dict, list)):
                    rec(v)
        elif isinstance(t, list):
            for y in t:
                rec(y)
    rec(bt.tree)
    n = 0
    for l in loops:
        assigned = {}
        declared = set()
        for x in walk(l.get('body')):
            if x.get('k') == 'DeclStmt':
                for v in x.get('decls', []):
                    declared.add(v['id'])
            ap = assign_parts(x)
            if ap and strip(ap[0]).get('k') == 'DeclRefExpr' and not strip(ap[0]).get('parm') and mentions(ap[1], lambda y: 'tempo' in show(y).lower()):
                assigned[strip(ap[0])['id']] = (short(strip(ap[0])['n']), x.get('ln'))
        frac = {}
        for x in walk(bt.tree):
            if isinstance(x, dict) and x.get('k') == 'DeclStmt':
                for v in x.get('decls', []):
                    frac[v['id']] = 'fraction' in ((v.get('t') or {}).get('s') or '')
        for vid, (nm, ln) in assigned.items():
            if not frac.get(vid) and 'tempo' not in nm.lower():
                continue        # the tempo in force is a fraction-typed local
            n += 1
            okk = vid in declared
            out.append(Obl('C07.R7', bt.name, 'per-track tempo variable ' + nm, '%s:%s' % (bt.file, ln), 'discharged' if okk else 'finding',
                           why='declared (and initialised from m_tempo) inside the per-track loop' if okk else
                           '%s is updated by the tempo events of one track and carried into the next: every later track is timed from the tempo the previous one ended with, so event times and the song length come out wrong' % nm))
    if n < 1:
        raise build.AnalysisBroken('C07.R7: the per-track tempo variable of buildTimeLine was not found')
    return out


def r8_load_reset(facts):
    """buildSmfSetupReset runs at every load.  (a) every member the gating conditions of handleEvent / processEvents read (names taken
    from those conditions, not from a list) is re-initialised in it; (b) a member `X.resize(trackCount ..)` keeps the elements it
    already has (vector::resize), so each such resize is preceded by X.clear() — otherwise the per-track state of the previous song
    (disable flags, queue rows, positions) stays in force for the first tracks of the new one."""
    out = []
    fn = facts.fn(SEQ + '::buildSmfSetupReset')
    # gating members: members mentioned by conditions that guard event delivery
    gating = set()
    for gname in ('handleEvent', 'processEvents'):
        g = facts.fn(SEQ + '::' + gname)
        for i, blk in g.cfg.blocks.items():
            c = blk.get('cond')
            if c is None:
                continue
            for y in walk(c):
                if y.get('k') == 'MemberExpr' and any(t in short(y.get('n', '')) for t in ('Disable', 'Solo')):
                    gating.add(short(y['n']))
    if len(gating) < 3:
        raise build.AnalysisBroken('C07.R8: gating members not found in the delivery conditions (%s)' % sorted(gating))
    stores = collections.defaultdict(list)      # member -> [(b, j, kind, st)]
    for b, j, st in fn.cfg.stmts():
        for x in walk(st['s']):
            ap = assign_parts(x)
            if ap and strip(ap[0]).get('k') == 'MemberExpr':
                stores[short(strip(ap[0])['n'])].append((b, j, 'assign', st, x))
            if 'callee' in x:
                cn = short(callee_name(x))
                if cn in ('clear', 'resize', 'assign') and x.get('obj') is not None:
                    o = strip(x['obj'])
                    key = show(o)
                    stores[key].append((b, j, cn, st, x))
                    if o.get('k') == 'MemberExpr':
                        stores[short(o['n'])].append((b, j, cn, st, x))
                if cn == 'memset' and x.get('a'):
                    for y in walk(x['a'][0]):
                        if y.get('k') == 'MemberExpr':
                            stores[short(y['n'])].append((b, j, 'memset', st, x))
    for m in sorted(gating):
        ss = [s_ for s_ in stores.get(m, []) if s_[2] in ('assign', 'clear', 'memset', 'assign')]
        ok = bool(ss)
        out.append(Obl('C07.R8', fn.name, 'gating member %s re-initialised' % m, ss[0][3]['loc'] if ss else fn.loc, 'discharged' if ok else 'finding',
                       why='%s at load' % ss[0][2] if ok else 'the gating state %s of the previous song stays in force after a load: tracks / channels of the new song are dropped although nothing was switched off for it' % m))
    nres = 0
    for key, ss in sorted(stores.items()):
        for b, j, kind, st, x in ss:
            if kind != 'resize' or not x.get('a') or const_of(x['a'][0]) is not None or key != show(strip(x['obj'])):
                continue
            nres += 1
            ok = any(k2 == 'clear' and ((b2 == b and j2 < j) or (b2 != b and fn.cfg.block_dominates(b2, b))) for b2, j2, k2, _, _ in ss)
            out.append(Obl('C07.R8', fn.name, '%s.resize(%s)' % (key, show(x['a'][0])[:20]), st['loc'], 'discharged' if ok else 'finding',
                           why='emptied by %s.clear() first: every element is value-initialised for the new song' % key if ok else
                           '%s.resize() keeps the elements of the previous song (no clear() before it): per-track state survives the load' % key))
    if nres < 2:
        raise build.AnalysisBroken('C07.R8: track-count resizes of buildSmfSetupReset not found')
    return out


def r9_tempo_setter(facts):
    """m_currentPosition.wait is kept in song time; Tick() multiplies the elapsed real time by m_tempoMultiplier before subtracting
    it.  A function that stores the multiplier must therefore leave the position alone: rescaling the pending wait there applies the
    multiplier twice to the delay that is being waited for, and every later event is shifted by a constant offset."""
    out = []
    n = 0
    for fn in facts.all_fns():
        if not fn.name.startswith(SEQ + '::') or fn.tree is None or fn.d.get('ctor'):
            continue
        stores_mult = None
        pos_stores = []
        for b, j, st in fn.cfg.stmts():
            for x in walk(st['s']):
                ap = assign_parts(x)
                if not ap:
                    continue
                t = strip(ap[0])
                if t.get('k') == 'MemberExpr' and short(t['n']) == 'm_tempoMultiplier':
                    stores_mult = st['loc']
                if t.get('k') == 'MemberExpr' and mentions(t, member_named('m_currentPosition')):
                    pos_stores.append((st['loc'], show(x)[:50]))
        if stores_mult is None:
            continue
        n += 1
        ok = not pos_stores
        out.append(Obl('C07.R9', fn.name, 'stores m_tempoMultiplier', stores_mult, 'discharged' if ok else 'finding',
                       why='stores nothing of the position' if ok else
                       '%s also stores %s: the pending wait is song time and must not be rescaled when the multiplier changes (Tick applies the multiplier to the elapsed time)' % (short(fn.name), pos_stores[0][1])))
    if n < 1:
        raise build.AnalysisBroken('C07.R9: no function stores m_tempoMultiplier')
    return out


def r10_varlen_exits(facts):
    """readVarLenEx: a quantity ends with the first byte whose bit 7 is clear.  The loop may also stop when the data ends (error) and,
    if it counts bytes at all, not before four bytes have been taken (the longest quantity of a standard MIDI file): an earlier
    stop leaves the tail of a long delta time in the stream, where it is parsed as the next event."""
    out = []
    fn = facts.fn('readVarLenEx')
    end_id = fn.params[1]['id'] if len(fn.params) > 1 else None      # (cursor **, end *, ok &)
    loops = [x for x in walk(fn.tree) if isinstance(x, dict) and x.get('k') in ('ForStmt', 'WhileStmt', 'DoStmt')]
    if not loops:
        raise build.AnalysisBroken('C07.R10: loop of readVarLenEx not found')
    lp = loops[0]
    exits = []
    def rec(t, conds):
        if isinstance(t, dict):
            k = t.get('k')
            if k in ('BreakStmt', 'ReturnStmt'):
                exits.append((t, list(conds)))
                return
            if k == 'IfStmt':
                rec(t.get('then'), conds + [(t.get('cond'), True)])
                rec(t.get('else'), conds + [(t.get('cond'), False)])
                return
            for k2 in ('body', 'sub'):
                v = t.get(k2)
                if isinstance(v, (dict, list)):
                    rec(v, conds)
        elif isinstance(t, list):
            for y in t:
                rec(y, conds)
    rec(lp.get('body'), [])
    if lp.get('cond') is not None and show(lp['cond']) not in ('', '1', 'true'):
        exits.append(({'k': 'LoopCond', 'ln': lp.get('ln')}, [(lp['cond'], False)]))
    if len(exits) < 2:
        raise build.AnalysisBroken('C07.R10: exits of the loop of readVarLenEx not found')
    for ex, conds in exits:
        why = None
        for c, pol in conds:
            for f in literals(c, pol):
                # continuation bit clear
                if f[0] == 'truth' and not f[2] and mentions(f[1], lambda y: y.get('k') == 'BinaryOperator' and y.get('op') == '&' and 0x80 in (const_of(y['l']), const_of(y['r']))):
                    why = 'byte without the continuation bit'
                if f[0] == 'cmp' and (mentions(f[3], lambda y: y.get('parm') and y.get('id') == end_id) or mentions(f[2], lambda y: y.get('parm') and y.get('id') == end_id)):
                    why = why or 'end of the data'
                n_ = cmp_norm(f) if f[0] == 'cmp' else None
                if n_ and n_[0] in ('>=', '>', '==') and isinstance(n_[2], int):
                    # a byte counter: pre-increment compared with K means K bytes were taken when the loop stops
                    k_ = n_[2] + (1 if n_[0] == '>' else 0)
                    pre = any(is_incdec(y) and y.get('op') == '++' and y.get('prefix', True) for y in walk(n_[1]) if isinstance(y, dict))
                    taken = k_ if pre else k_ + 1
                    if why is None:
                        why = ('counter: stops after %d bytes' % taken) if taken >= 4 else None
                        if taken < 4:
                            out.append(Obl('C07.R10', fn.name, 'loop exit at line %s' % ex.get('ln'), '%s:%s' % (fn.file, ex.get('ln')), 'finding',
                                           why='the loop stops after %d byte(s) although the quantity goes on: a four-byte delta time (>= 0x200000 ticks) loses its last byte, which is then parsed as an event' % taken))
                            why = 'reported'
        if why == 'reported':
            continue
        out.append(Obl('C07.R10', fn.name, 'loop exit at line %s' % ex.get('ln'), '%s:%s' % (fn.file, ex.get('ln')), 'discharged' if why else 'finding',
                       why=why or 'the loop can stop for a reason other than the continuation bit, the end of the data or a four-byte limit'))
    return out
