"""Shared E1 driver for the WOPN/OPNI reader and writer (C02.R1, C15.R1) and the size/layout agreement rules (C15.R2/R3)."""
from ..core import *
from ..e1 import *
from ..report import Obl
from ..logic import const_of
from .. import build

VERSION_REPS = [0, 1, 2, 3, 4]       # representatives: every comparison of `version` is against a constant <= 3


def role_param(fn, role):
    """parameter of a WOPN reader / writer / size function by role (type and order, not name): 'version' = the first uint16_t
    parameter, 'force_gm' = the second, 'has_sounding_delays' = the uint8_t flag"""
    u16 = [p for p in fn.params if not p['t'].get('p') and p['t'].get('w') == 16 and p['t'].get('u')]
    u8 = [p for p in fn.params if not p['t'].get('p') and p['t'].get('w') == 8 and p['t'].get('u')]
    if role == 'version':
        return u16[0] if u16 else None
    if role == 'force_gm':
        return u16[1] if len(u16) > 1 else None
    if role == 'has_sounding_delays':
        return u8[0] if u8 else None
    return None


def run_e1(facts, fname, rule, forks_entry=None, forks_assign=None):
    """analyse one function of wopn_file.c in the (cursor, length) dialect; returns (Obl list, engine)"""
    fn = facts.fn(fname)
    cur = [p for p in fn.params if p['t'].get('p') and p['t'].get('pt', '').startswith(('void', 'unsigned char', 'uint8'))]
    cnt = [p for p in fn.params if not p['t'].get('p') and p['t'].get('w') == 64 and p['t'].get('u')]
    if not cnt:
        raise build.AnalysisBroken('%s: no size_t length parameter' % fname)
    # the cursor is the local uint8_t* initialised from the void* parameter
    cursor_id = None
    for b, j, st in fn.cfg.stmts():
        s = st['s']
        if s.get('k') == 'DeclStmt':
            for v in s['decls']:
                if v['t'].get('p') and v['t'].get('pt') in ('unsigned char', 'uint8_t') and 'init' in v:
                    r = strip(v['init'])
                    if r.get('k') == 'DeclRefExpr' and r.get('parm') and r.get('t', {}).get('p'):
                        cursor_id = v['id']
    if cursor_id is None:
        raise build.AnalysisBroken('%s: cursor local (uint8_t* initialised from the memory parameter) not found' % fname)
    # '@version' stands for the local that holds the format version: read from the file through a 16-bit codec and then compared
    # with small constants (its name is the author's business)
    fa = dict(forks_assign or {})
    ver_name = None
    if '@version' in fa:
        cmp_count = {}
        read_vars = set()
        for x in walk(fn.tree):
            if not isinstance(x, dict):
                continue
            ap = assign_parts_raw(x)
            if ap and strip(ap[0]).get('k') == 'DeclRefExpr' and not strip(ap[0]).get('parm') and 'callee' in strip(ap[1]) and short(callee_name(strip(ap[1]))).startswith('toUint16'):
                read_vars.add(strip(ap[0])['n'])
            if x.get('k') == 'DeclStmt':
                for v in x.get('decls', []):
                    if v.get('init') is not None and 'callee' in strip(v['init']) and short(callee_name(strip(v['init']))).startswith('toUint16'):
                        read_vars.add(v['n'])
            if x.get('k') == 'BinaryOperator' and x.get('op') in ('<', '<=', '>', '>=', '==', '!='):
                for a, b in ((x['l'], x['r']), (x['r'], x['l'])):
                    if strip(a).get('k') == 'DeclRefExpr' and const_of(b) is not None and 0 <= const_of(b) <= 8:
                        cmp_count[strip(a)['n']] = cmp_count.get(strip(a)['n'], 0) + 1
        cands = sorted((n for n in read_vars if cmp_count.get(n, 0) >= 2), key=lambda n: -cmp_count[n])
        if not cands:
            raise build.AnalysisBroken('%s: the local holding the format version (16-bit read compared with small constants) not found' % fname)
        fa[short(cands[0])] = fa.pop('@version')
        ver_name = short(cands[0])
    eng = Engine(facts, 'count', forks=fa)
    eng.setup(fn, cursor_id, count_id=cnt[0]['id'])
    states = [State(Poly.const(0))]
    for pname, vals in (forks_entry or {}).items():
        p = [role_param(fn, pname)] if role_param(fn, pname) else [p for p in fn.params if p['n'] == pname]
        if not p:
            raise build.AnalysisBroken('%s: parameter %s not found' % (fname, pname))
        nxt = []
        for s0 in states:
            for v in vals:
                s1 = s0.copy(); s1.env[('v', p[0]['id'])] = Poly.const(v); s1.ctx[pname] = v
                nxt.append(s1)
        states = nxt
        eng.forks.setdefault(p[0]['n'], vals)
    exits_all = []
    for s0 in states:
        f, ex = eng.run_body(fn.tree, s0)
        exits_all += ex
    if ver_name and ver_name != 'version':
        # the case contexts are keyed by the role, not by the local's name
        for e_, st_ in eng.returns:
            if ver_name in st_.ctx:
                st_.ctx['version'] = st_.ctx.pop(ver_name)
        for o in eng.obl:
            if ver_name in o.ctx:
                o.ctx['version'] = o.ctx.pop(ver_name)
        for kind_, st_ in exits_all:
            if ver_name in st_.ctx:
                st_.ctx['version'] = st_.ctx.pop(ver_name)
    if eng.escaped:
        raise build.AnalysisBroken('%s: the cursor (or its remaining length) is handed to a callee by address (%s): the byte budget of the function is not decided by this engine' % (fname, eng.escaped))
    obls = []
    seen = {}
    for o in eng.obl:
        key = (o.fn, o.ln, o.construct)
        if key not in seen:
            seen[key] = {'ok': True, 'cases': 0, 'bad': [], 'need': set(), 'have': set()}
        e = seen[key]
        e['cases'] += 1
        e['need'].add(o.need)
        e['have'].add(o.have[:60])
        if not o.ok:
            e['ok'] = False
            e['bad'].append({'need': o.need, 'have': o.have, 'case': o.ctx})
    file = fn.file
    for (f2, ln, construct), e in sorted(seen.items(), key=lambda kv: (kv[0][0], kv[0][1] or 0)):
        # obligations raised inside helpers (summaries) belong to the helper function
        ffile = facts.fn(f2).file if facts.fns.get(f2) else file
        if e['ok']:
            obls.append(Obl(rule, f2, construct, '%s:%s' % (ffile, ln), 'discharged',
                            why='needs %s byte(s), budget %s in %d case(s)' % ('/'.join(sorted(e['need'])), ' | '.join(sorted(e['have']))[:80], e['cases']),
                            detail={'entry': fname}))
        else:
            b = e['bad'][0]
            obls.append(Obl(rule, f2, construct, '%s:%s' % (ffile, ln), 'finding',
                            why='access through the cursor needs %s byte(s) but only %s are known to be available (case %s)' % (b['need'], b['have'], b['case']),
                            detail={'entry': fname, 'failing_cases': e['bad'][:4]}))
    # completeness of the fork representatives
    for var, consts in eng.fork_compares.items():
        reps = eng.forks.get(var, [])
        bad = [c for c in consts if c == '?' or c > max(reps) - 1 or c < min(reps)]
        obls.append(Obl(rule, fname, 'case split of ' + var, fn.loc, 'finding' if bad else 'discharged',
                        why=('`%s` is compared with %s, outside the representatives %s: the case split is not exhaustive' % (var, bad, reps)) if bad else
                        '`%s` is only compared with constants %s; representatives %s cover every ordering' % (var, sorted(consts), reps), nontrivial=False))
    return obls, eng
