"""Shared E1 driver for the WOPN/OPNI reader and writer (C02.R1, C15.R1) and the size/layout agreement rules (C15.R2/R3)."""
from ..core import *
from ..e1 import *
from ..report import Obl
from .. import build

VERSION_REPS = [0, 1, 2, 3, 4]       # representatives: every comparison of `version` is against a constant <= 3


def run_e1(facts, fname, rule, forks_entry=None, forks_assign=None):
    """analyse one function of wopn_file.c in the (cursor, length) dialect; returns (Obl list, engine)"""
    fn = facts.fn(fname)
    cur = [p for p in fn.params if p['t'].get('p') and p['t'].get('pt', '').startswith(('void', 'unsigned char', 'uint8'))]
    cnt = [p for p in fn.params if not p['t'].get('p') and p['t'].get('w') == 64 and p['t'].get('u')]
    if not cnt:
        raise build.AnalysisBroken('%s: no size_t length parameter' % fname)
    # the cursor is the local uint8_t* initialised from the void* parameter
    cursor_id = None
    for b, j, st in fn.cfg.stmts():
        s = st['s']
        if s.get('k') == 'DeclStmt':
            for v in s['decls']:
                if v['t'].get('p') and v['t'].get('pt') in ('unsigned char', 'uint8_t') and 'init' in v:
                    r = strip(v['init'])
                    if r.get('k') == 'DeclRefExpr' and r.get('parm') and r.get('t', {}).get('p'):
                        cursor_id = v['id']
    if cursor_id is None:
        raise build.AnalysisBroken('%s: cursor local (uint8_t* initialised from the memory parameter) not found' % fname)
    eng = Engine(facts, 'count', forks=dict(forks_assign or {}))
    eng.setup(fn, cursor_id, count_id=cnt[0]['id'])
    states = [State(Poly.const(0))]
    for pname, vals in (forks_entry or {}).items():
        p = [p for p in fn.params if p['n'] == pname]
        if not p:
            raise build.AnalysisBroken('%s: parameter %s not found' % (fname, pname))
        nxt = []
        for s0 in states:
            for v in vals:
                s1 = s0.copy(); s1.env[('v', p[0]['id'])] = Poly.const(v); s1.ctx[pname] = v
                nxt.append(s1)
        states = nxt
        eng.forks.setdefault(pname, vals)
    exits_all = []
    for s0 in states:
        f, ex = eng.run_body(fn.tree, s0)
        exits_all += ex
    obls = []
    seen = {}
    for o in eng.obl:
        key = (o.fn, o.ln, o.construct)
        if key not in seen:
            seen[key] = {'ok': True, 'cases': 0, 'bad': [], 'need': set(), 'have': set()}
        e = seen[key]
        e['cases'] += 1
        e['need'].add(o.need)
        e['have'].add(o.have[:60])
        if not o.ok:
            e['ok'] = False
            e['bad'].append({'need': o.need, 'have': o.have, 'case': o.ctx})
    file = fn.file
    for (f2, ln, construct), e in sorted(seen.items(), key=lambda kv: (kv[0][0], kv[0][1] or 0)):
        # obligations raised inside helpers (summaries) belong to the helper function
        ffile = facts.fn(f2).file if facts.fns.get(f2) else file
        if e['ok']:
            obls.append(Obl(rule, f2, construct, '%s:%s' % (ffile, ln), 'discharged',
                            why='needs %s byte(s), budget %s in %d case(s)' % ('/'.join(sorted(e['need'])), ' | '.join(sorted(e['have']))[:80], e['cases']),
                            detail={'entry': fname}))
        else:
            b = e['bad'][0]
            obls.append(Obl(rule, f2, construct, '%s:%s' % (ffile, ln), 'finding',
                            why='access through the cursor needs %s byte(s) but only %s are known to be available (case %s)' % (b['need'], b['have'], b['case']),
                            detail={'entry': fname, 'failing_cases': e['bad'][:4]}))
    # completeness of the fork representatives
    for var, consts in eng.fork_compares.items():
        reps = eng.forks.get(var, [])
        bad = [c for c in consts if c == '?' or c > max(reps) - 1 or c < min(reps)]
        obls.append(Obl(rule, fname, 'case split of ' + var, fn.loc, 'finding' if bad else 'discharged',
                        why=('`%s` is compared with %s, outside the representatives %s: the case split is not exhaustive' % (var, bad, reps)) if bad else
                        '`%s` is only compared with constants %s; representatives %s cover every ordering' % (var, sorted(consts), reps), nontrivial=False))
    return obls, eng
