"""C18 — settings are transactional.

R1  validate before store: in every exported int-returning function (loaders excepted, see R4) no path reaches a
    failing return after a store / mutating call on instance state; callee-validated idiom moves the obligation
    into the callee.
R2  no clobber: fields owned by an exported setter are stored elsewhere only from their m_setup / hooks twin.
R3  getter reads what the setter wrote.
R4  failed bank load is atomic: no state store precedes a failing return of LoadBank.
R5  error text: failing loads leave a non-empty error text (literal or fallback in the wrapper).
"""
import collections
import re
from ..core import *
from ..logic import *
from ..logic import neg_fact, unsat
from ..effects import *
from ..report import Obl, Rule
from .. import build

PROP = 'C18'
RULES = [
    Rule('C18.R1', 'validate-before-store: no failing return is reachable after a state store in an exported function or its validating callee', 12),
    Rule('C18.R2', 'no clobber: setter-owned fields are stored outside their setter only from the matching m_setup/hooks twin', 15),
    Rule('C18.R3', 'getter reads a field the matching setter (transitively) stores', 6),
    Rule('C18.R4', 'a failing bank load stores nothing into synth/setup state before returning', 8),
    Rule('C18.R5', 'every failing path of the four loaders leaves a non-empty error text', 4),
    Rule('C18.R6', 'a callback slot and its user-data slot are re-wired from a matching pair', 12),
    Rule('C18.R11', 'what the VGM dumper overrides while it is the emulator (chip count, stop-at-loop-end) is re-applied from the setup when it no longer is', 4),
    Rule('C18.R10', 'a setter withholds its live store under the setup lock only for the fields the locked formats force', 2),
    Rule('C18.R9', 'every track / channel number handed to the sequencer by a setter is validated there and a refusal is reported', 3),
    Rule('C18.R8', 'every chip wrapper hands the requested chip family on to its base (OPN2::reset reads the applied family back from the chip)', 6),
    Rule('C18.R7', 'accepted setting values lie in the documented range; the AUTO volume model resolves to the bank default wherever the live model is set from the setup', 3),
]
EXPLANATION = ('Static CFG + store/mutation-summary analysis of the exported functions of opnmidi.cpp and the player functions they reach: '
               'stores are resolved to fields through reference/pointer locals; a call counts as a store when the callee transitively '
               'writes through its object; failure returns are negative constants / `return false`. Decides the listed necessary conditions '
               'on every path; does not decide that audible behaviour is unchanged.')
ASSUMPTIONS = ['stores to the error text (errorStringOut / OPN2MIDI_ErrorString) are not settings',
               'playback bookkeeping (tick_skip_samples_delay, delay, carry) is not a setting',
               'returns whose value is not a compile-time constant are listed as assumed, not decided']

LOADERS = {'opn2_openBankFile', 'opn2_openBankData', 'opn2_openFile', 'opn2_openData'}
ERROR_FIELDS = {'errorStringOut', 'OPN2MIDI_ErrorString'}
BOOKKEEPING = {'tick_skip_samples_delay', 'delay', 'carry', 'm_arpeggioCounter', 'm_audioTickCounter'}
ERROR_SETTERS = {'setErrorString'}


def views(tier):
    return ['V0', 'V1'] if tier == 'quick' else ['V0', 'V1', 'noVGM', 'noSEQ', 'noNUKED', 'noMAME']


def exported(facts):
    return [f for f in facts.all_fns() if f.name.startswith('opn2_') and f.d.get('extern_c') and f.relfile().endswith('opnmidi.cpp')]


def failure_returns(fn):
    """(blk, idx, stmt, kind) with kind in fail / ok / nonconst"""
    out = []
    isbool = fn.d['ret'].get('bool')
    for b, j, st in fn.cfg.returns():
        e = st['s'].get('e')
        if e is None:
            continue
        c = const_of(e)
        if c is None:
            out.append((b, j, st, 'nonconst'))
        elif (isbool and c == 0) or (not isbool and c < 0):
            out.append((b, j, st, 'fail'))
        else:
            out.append((b, j, st, 'ok'))
    return out


def state_effects(fn, mut, al=None, state_roots=('param', 'this', 'global'), non_state_params=()):
    """statements in fn that write instance state: (blk, idx, stmt, description, call-or-None, field)"""
    if al is None:
        al = local_aliases(fn)
    seen = set()
    for b, j, st, tgt, rhs, op in stores(fn):
        o = origin(fn, tgt, al)
        if o[0] not in state_roots:
            continue
        if o[0] == 'param' and not is_place_indirect(fn, tgt, al):
            continue
        fld = short(field_of(tgt) or '')
        if fld in ERROR_FIELDS:
            continue
        yield b, j, st, 'store ' + show(tgt), None, fld, o
    for b, j, st in fn.cfg.stmts():
        for c in calls_in(st['s']):
            n = short(callee_name(c))
            if n in ERROR_SETTERS or not callee_name(c):
                continue
            if short(callee_name(c)) == 'operator=':
                continue          # handled as a store
            if mut.call_mutates(fn, c, al):
                obj = c.get('obj')
                if c.get('k') == 'CXXOperatorCallExpr' and c.get('a'):
                    obj = c['a'][0]
                if obj is not None:
                    o = origin(fn, obj, al)
                    if o[0] not in state_roots:
                        continue
                    if o[0] == 'param' and o[1] in non_state_params:
                        continue
                yield b, j, st, 'call ' + show(c)[:70], c, n, None


def callee_validated(fn, fail_blk, call, sd):
    """is the failing return control-dependent on the failing result of `call` itself?"""
    target = show(call)
    for e in fn.cfg.dominating_edges(fail_blk):
        if e['kind'] != 'branch':
            continue
        for c in (e['cond'], subst(e['cond'], sd)):
            if any(show(x) == target for x in calls_in(c)):
                return True
        # result stored in a local that the condition mentions
    return False


def result_local_validated(fn, fail_blk, stmt, call):
    """`ir = obj.insert(..); if(ir.first == end) return -1;` — the condition mentions the local assigned from the call"""
    s = stmt['s']
    lid = None
    for x in walk(s):
        ap = assign_parts(x)
        if ap and any(y is call or show(y) == show(call) for y in calls_in(ap[1])):
            r = root_object(ap[0])
            if r is not None and r.get('k') == 'DeclRefExpr':
                lid = r.get('id')
    if s.get('k') == 'DeclStmt':
        for v in s['decls']:
            if 'init' in v and any(show(y) == show(call) for y in calls_in(v['init'])):
                lid = v['id']
    if lid is None:
        return False
    for e in fn.cfg.dominating_edges(fail_blk):
        if e['kind'] == 'branch' and mentions(e['cond'], lambda y: y.get('k') == 'DeclRefExpr' and y.get('id') == lid):
            return True
    return False


def outcome_observed(fn, fail_blk, eff_pos, call):
    """`n = map.size(); map.erase(it); if(map.size() == n) return -1;` - the failing return depends on a query of the very object the
    call changed, made after the call: it reports the outcome of the call, it does not reject an argument"""
    obj = call.get('obj')
    if call.get('k') == 'CXXOperatorCallExpr' and call.get('a'):
        obj = call['a'][0]
    if obj is None:
        return False
    target = show(strip(obj))
    for e in fn.cfg.dominating_edges(fail_blk):
        if e['kind'] != 'branch' or not (e['block'] == eff_pos[0] or fn.cfg.stmt_before(eff_pos, (e['block'], 0))):
            continue
        for y in calls_in(e['cond']):
            if y.get('obj') is not None and show(strip(y['obj'])) == target and show(y) != show(call):
                return True
    return False


def r1_function(facts, mut, fn, obls, rule, label, visited, depth=0):
    rets = failure_returns(fn)
    fails = [(b, j, st) for b, j, st, k in rets if k == 'fail']
    if not fails:
        return
    sd = single_defs(fn.d)
    al = local_aliases(fn)
    effs = list(state_effects(fn, mut, al))
    for b, j, st, k in rets:
        if k == 'nonconst' and depth == 0 and effs:
            obls.append(Obl(rule, fn.name, show(st['s']), st['loc'], 'assumed', why='return value is computed at run time; not classified as success/failure', nontrivial=False))
    if not effs:
        obls.append(Obl(rule, fn.name, 'no state effect', fn.loc, 'discharged', why='%d failing return(s), no store to instance state at all' % len(fails), nontrivial=False))
    for eb, ej, est, what, call, fld, o in effs:
        bad = []
        moved = False
        for fb, fj, fst in fails:
            if not fn.cfg.stmt_before((eb, ej), (fb, fj)):
                continue
            if call is not None and (callee_validated(fn, fb, call, sd) or result_local_validated(fn, fb, est, call) or outcome_observed(fn, fb, (eb, ej), call)):
                moved = True
                continue
            bad.append(fst['loc'].rsplit(':', 1)[1])
        if bad:
            obls.append(Obl(rule, fn.name, what, est['loc'], 'finding',
                            why='%s happens before the value is validated: failing return at line(s) %s is reachable afterwards' % (what.split(' ')[0], ','.join(sorted(set(bad)))),
                            detail={'entry': label}))
        else:
            obls.append(Obl(rule, fn.name, what, est['loc'], 'discharged',
                            why='no failing return reachable after it' + (' (failure is the callee\'s own verdict; checked inside the callee)' if moved else ''),
                            detail={'entry': label}))
        if moved and call is not None:
            cn = callee_name(call)
            for cf in facts.fns.get(cn, []):
                if (cf.name, cf.sig) in visited or depth >= 2:
                    continue
                visited.add((cf.name, cf.sig))
                r1_inside(facts, mut, cf, obls, rule, label + ' -> ' + short(cn), visited, depth + 1)


def r1_inside(facts, mut, fn, obls, rule, label, visited, depth):
    """inside a validating callee: its failing returns must precede its own stores"""
    rets = failure_returns(fn)
    fails = [(b, j, st) for b, j, st, k in rets if k == 'fail']
    al = local_aliases(fn)
    sd = single_defs(fn.d)
    for eb, ej, est, what, call, fld, o in state_effects(fn, mut, al, state_roots=('this', 'param', 'global')):
        bad = []
        for fb, fj, fst in fails:
            if fn.cfg.stmt_before((eb, ej), (fb, fj)):
                if call is not None and (callee_validated(fn, fb, call, sd) or result_local_validated(fn, fb, est, call) or outcome_observed(fn, fb, (eb, ej), call)):
                    continue
                bad.append(fst['loc'].rsplit(':', 1)[1])
        obls.append(Obl(rule, fn.name, what, est['loc'], 'finding' if bad else 'discharged',
                        why=('store precedes failing return at line(s) %s' % ','.join(sorted(set(bad)))) if bad else 'every failing return precedes it',
                        detail={'entry': label}))


# ---------------------------------------------------------------------------------------------
def leaf_mutator(facts, mut, cf):
    """a small helper that stores fields from its parameters / other fields and calls nothing that mutates instance state
    except register writes (the shape of setDeviceId, setLoopEnabled, setVolumeScaleModel)"""
    for b, j, st in cf.cfg.stmts():
        for c in calls_in(st['s']):
            n = callee_name(c)
            if short(n) in ('applySetup', 'partialReset', 'resetMIDI', 'reset', 'realTime_panic', 'realTime_ResetState'):
                return False
    return True


def setter_owned(facts, mut):
    """field -> exported setters that store it, directly or through a leaf helper they call with the value"""
    owned = collections.defaultdict(set)
    helpers = set()
    for fn in exported(facts):
        if not (fn.name.startswith('opn2_set') or fn.name in ('opn2_switchEmulator',)):
            continue
        acc = set()
        al = local_aliases(fn)
        for b, j, st, tgt, rhs, op in stores(fn):
            o = origin(fn, tgt, al)
            if o[0] == 'param' and is_place_indirect(fn, tgt, al):
                f = field_of(tgt)
                if f:
                    acc.add(f)
        for b, j, st in fn.cfg.stmts():
            for c in calls_in(st['s']):
                for cf in facts.fns.get(callee_name(c), []):
                    if not leaf_mutator(facts, mut, cf) or cf.d.get('ctor'):
                        continue
                    fs = set()
                    for b2, j2, st2, tgt, rhs, op in stores(cf):
                        if origin(cf, tgt)[0] == 'this':
                            f = field_of(tgt)
                            if f:
                                fs.add(f)
                    if fs:
                        helpers.add((cf.name, cf.sig))
                        acc |= fs
        for f in acc:
            if short(f) in BOOKKEEPING or short(f) in ERROR_FIELDS:
                continue
            owned[f].add(fn.name)
    return owned, helpers


def reachable_fns(facts, roots, maxdepth=6):
    out = {}
    q = [(r, 0, r.name) for r in roots]
    while q:
        fn, d, via = q.pop()
        key = (fn.name, fn.sig)
        if key in out:
            continue
        out[key] = (fn, via)
        if d >= maxdepth:
            continue
        for b, j, st in fn.cfg.stmts():
            for c in calls_in(st['s']):
                for cf in facts.fns.get(callee_name(c), []):
                    q.append((cf, d + 1, via))
    return out


def twin_ok(field, rhs, conds, owned=()):
    """the stored value derives from the requested setting: RHS (or a dominating condition) mentions m_setup.<x> / hooks.<x>,
    or the RHS is computed from other live setter-owned fields (a derived cache such as the LFO register image)"""
    def is_twin(x):
        if x.get('k') != 'MemberExpr':
            return False
        n = x['n']
        return '::Setup::' in n or '::MIDIEventHooks::' in n or short(n) in ('m_setup', 'hooks')
    if rhs is not None and mentions(rhs, is_twin):
        return True
    if rhs is not None and mentions(rhs, lambda x: x.get('k') == 'MemberExpr' and x['n'] in owned and x['n'] != field):
        return True
    return any(mentions(c, is_twin) for c in conds)


# default-then-reapply: the function stores a default into live loop state and the load that calls it stores the requested value
# again before anything can play (verified by reapplied_at_load: buildTimeLine assigns the field from a setter-owned twin)
REAPPLIED_AT_LOAD = {'OpnMidiSequencer::LoopState::fullReset': 'loadMIDI clears the loop state before parsing; buildTimeLine re-applies the count from m_loopCount at the end of every successful load, and a failed load leaves no song to loop'}


def reapplied_at_load(facts, field, owned):
    for fn in facts.all_fns():
        if short(fn.name) != 'buildTimeLine':
            continue
        for b, j, st, tgt, rhs, op in stores(fn):
            if field_of(tgt) == field and rhs is not None and mentions(rhs, lambda x: x.get('k') == 'MemberExpr' and x['n'] in owned and x['n'] != field):
                return True
    return False


SONG_OPTIONS = {'m_trackSolo', 'm_trackDisable', 'm_channelDisable'}
PER_BANK_OVERRIDES = {'VolumeModel', 'lfoEnable', 'lfoFrequency', 'chipType'}      # named by the property


def r2_obligations(facts, mut):
    """no-clobber obligations (also used by C09.R3 for the loop-hook slots)"""
    obls = []
    exp = exported(facts)
    owned, helper = setter_owned(facts, mut)
    clobber_roots = [f for f in exp if f.name in ('opn2_reset', 'opn2_switchEmulator', 'opn2_openBankFile', 'opn2_openBankData', 'opn2_openFile',
                                                  'opn2_openData', 'opn2_setNumChips', 'opn2_setRunAtPcmRate', 'opn2_setChipType', 'opn2_rt_resetState',
                                                  'opn2_panic', 'opn2_positionRewind', 'opn2_positionSeek', 'opn2_selectSongNum')]
    if len(clobber_roots) < 8:
        raise build.AnalysisBroken('C18: reset/load entry points missing (%d found)' % len(clobber_roots))
    reach = reachable_fns(facts, clobber_roots)
    setters = set()
    for sset in owned.values():
        setters |= sset
    def owner_name(fn_):
        """a file-local helper with a single calling function is reported under that function: moving a block of a function into a
        static helper does not change which store is meant"""
        if fn_.d.get('linkage_external', True) or '::' in fn_.name:
            return fn_.name
        callers = {g.name for g in facts.all_fns() if g.tree is not None and g.name != fn_.name and any(callee_name(x) == fn_.name for x in calls_in(g.tree))}
        return sorted(callers)[0] if len(callers) == 1 else fn_.name
    for key, (fn, via) in sorted(reach.items()):
        if fn.name in setters or fn.d.get('ctor') or key in helper:
            continue
        al = local_aliases(fn)
        sd = single_defs(fn.d)
        # save/restore idiom: a local initialised from the field, stored back later
        saved = {}
        for b, j, st in fn.cfg.stmts():
            if st['s'].get('k') == 'DeclStmt':
                for v in st['s']['decls']:
                    if 'init' in v and strip(v['init']).get('k') == 'MemberExpr':
                        saved[v['id']] = strip(v['init'])['n']
        restored = set()
        for b, j, st, tgt, rhs, op in stores(fn):
            f = field_of(tgt)
            r = strip(rhs) if rhs else None
            if f and r is not None and r.get('k') == 'DeclRefExpr' and saved.get(r.get('id')) == f:
                restored.add(f)
        for b, j, st, tgt, rhs, op in stores(fn):
            f = field_of(tgt)
            if not f or f not in owned:
                continue
            o = origin(fn, tgt, al)
            if o[0] not in ('this', 'param'):
                continue
            conds = [e['cond'] for e in fn.cfg.dominating_edges(b) if e['kind'] == 'branch']
            sf = short(f)
            is_setup_field = '::Setup::' in f
            ok = False
            if is_setup_field:
                if sf in PER_BANK_OVERRIDES and fn.name == 'OPNMIDIplay::LoadBank':
                    ok = True
                    why = 'per-bank override reset by a bank load (named exception of the property)'
                else:
                    why = 'requested setting %s is overwritten outside its setter' % sf
            elif sf in SONG_OPTIONS:
                ok = True
                why = 'per-sequence track/channel option that belongs to the loaded song (exception named in DESIGN.md C18.R2)'
            elif f in restored:
                ok = True
                why = 'temporary change inside one call: the function saves the field in a local and stores it back (pairing checked by C08.R3)'
            elif rhs is None and op in ('++', '--') and 'LoopState::' in f:
                ok = True
                why = 'running counter of the loop passes: it counts down from a value that derives from the setting (the stores that assign it are separate obligations)'
            elif fn.name in REAPPLIED_AT_LOAD and reapplied_at_load(facts, f, owned):
                ok = True
                why = 'reviewed: ' + REAPPLIED_AT_LOAD[fn.name]
            else:
                ok = twin_ok(f, subst(rhs, sd) if rhs else rhs, conds, owned)
                why = 'value derives from the requested setting' if ok else 'live value %s is overwritten with a value that does not derive from m_setup/hooks' % sf
            gf = guard_facts(fn, b, st)
            guard = ' && '.join(sorted(fact_str(x) for x in gf))
            construct = 'store %s = %s' % (show(tgt), show(rhs) if rhs else op) + ((' when ' + guard) if guard else '')
            # identity for the known-findings file: which field receives a value from where (not how the statement is spelled)
            if rhs is None:
                src = op
            elif const_of(rhs) is not None:
                src = str(const_of(rhs))
            else:
                src = ','.join(sorted({y['n'] for y in walk(rhs) if isinstance(y, dict) and y.get('k') == 'MemberExpr'})) or show(rhs)
            obls.append(Obl('C18.R2', owner_name(fn), construct, st['loc'], 'discharged' if ok else 'finding', why=why,
                            detail={'field': f, 'setters': sorted(owned[f]), 'reached_from': via, 'rhs': show(rhs) if rhs else op},
                            ident='store %s <- %s' % (f, src)))
        # calls of setter helpers from reset/load paths: argument must derive from the setting
        for b, j, st in fn.cfg.stmts():
            for c in calls_in(st['s']):
                for cf in facts.fns.get(callee_name(c), []):
                    if (cf.name, cf.sig) in helper:
                        fields = {field_of(t) for _, _, _, t, _, _ in stores(cf)} & set(owned)
                        if not fields:
                            continue
                        conds = [e['cond'] for e in fn.cfg.dominating_edges(b) if e['kind'] == 'branch']
                        args = c.get('a', [])
                        ok = any(twin_ok(None, a, conds, owned) for a in args) or twin_ok(None, None, conds, owned)
                        obls.append(Obl('C18.R2', fn.name, 'call ' + show(c)[:60], st['loc'], 'discharged' if ok else 'finding',
                                        why='argument derives from the requested setting' if ok else 'setter helper called on a reset/load path with a value not derived from m_setup/hooks',
                                        detail={'fields': sorted(short(x) for x in fields), 'reached_from': via}))

    return obls


def analyse(facts, tier):
    obls = []
    mut = Mutation(facts)
    exp = exported(facts)
    if len(exp) < 60:
        raise build.AnalysisBroken('C18: only %d exported opn2_* functions found' % len(exp))

    # ---- R1
    for fn in sorted(exp, key=lambda f: f.name):
        if not fn.d['ret'].get('w') or fn.d['ret'].get('bool') or fn.name in LOADERS:
            continue
        r1_function(facts, mut, fn, obls, 'C18.R1', fn.name, set())

    # ---- R2
    obls += r2_obligations(facts, mut)

    # ---- R3 getter/setter pairs
    getters = {f.name: f for f in exp if f.name.startswith('opn2_get')}
    def fields_read(fn, depth, seen):
        acc = set()
        for b, ex, loc in fn.cfg.exprs():
            for x in walk(ex):
                if x.get('k') == 'MemberExpr' and not x.get('method'):
                    acc.add(x['n'])
            if depth > 0:
                for c in calls_in(ex):
                    for cf in facts.fns.get(callee_name(c), []):
                        if (cf.name, cf.sig) not in seen:
                            seen.add((cf.name, cf.sig))
                            acc |= fields_read(cf, depth - 1, seen)
        return acc
    def fields_stored(fn, depth, seen):
        acc = set()
        for b, j, st, tgt, rhs, op in stores(fn):
            f = field_of(tgt)
            if f:
                acc.add(f)
        for b, j, st in fn.cfg.stmts():
            if st['s'].get('k') == 'CtorInit' and st['s'].get('field'):
                acc.add(st['s']['field'])
            if depth > 0:
                for c in calls_in(st['s']):
                    for cf in facts.fns.get(callee_name(c), []):
                        if (cf.name, cf.sig) not in seen:
                            seen.add((cf.name, cf.sig))
                            acc |= fields_stored(cf, depth - 1, seen)
        return acc
    PAIRS = {'opn2_getNumChips': 'opn2_setNumChips', 'opn2_getNumChipsObtained': 'opn2_setNumChips', 'opn2_getLfoEnabled': 'opn2_setLfoEnabled',
             'opn2_getLfoFrequency': 'opn2_setLfoFrequency', 'opn2_getChipType': 'opn2_setChipType', 'opn2_getAutoArpeggio': 'opn2_setAutoArpeggio',
             'opn2_getChannelAllocMode': 'opn2_setChannelAllocMode', 'opn2_getVolumeRangeModel': 'opn2_setVolumeRangeModel'}
    byname = {f.name: f for f in exp}
    for g, s in sorted(PAIRS.items()):
        if g not in byname or s not in byname:
            raise build.AnalysisBroken('C18.R3: getter/setter pair %s/%s not found' % (g, s))
        rd = fields_read(byname[g], 2, set())
        wr = fields_stored(byname[s], 3, set())
        common = {f for f in rd & wr if short(f) not in ('opn2_midiPlayer',)}
        # the field must be one the getter's *result* depends on: returned expression (depth 1)
        ret_fields = set()
        for b, j, st in byname[g].cfg.returns():
            e = st['s'].get('e')
            for x in walk(e):
                if x.get('k') == 'MemberExpr' and not x.get('method'):
                    ret_fields.add(x['n'])
            for c in calls_in(e):
                for cf in facts.fns.get(callee_name(c), []):
                    ret_fields |= fields_read(cf, 1, set())
        hit = sorted(short(f) for f in (ret_fields & wr) if short(f) not in ('opn2_midiPlayer', 'm_synth', 'm_setup'))
        obls.append(Obl('C18.R3', g, 'pair with ' + s, byname[g].loc, 'discharged' if hit else 'finding',
                        why=('getter result depends on %s, stored by the setter' % ', '.join(hit[:4])) if hit else 'getter result depends on no field the setter stores',
                        detail={'returned_fields': sorted(short(f) for f in ret_fields)[:10]}))

    # ---- R4: LoadBank atomic on failure
    lb = [f for f in facts.fns.get('OPNMIDIplay::LoadBank', []) if 'FileAndMemReader' in f.sig]
    if not lb:
        raise build.AnalysisBroken('C18.R4: OPNMIDIplay::LoadBank(FileAndMemReader&) not found')
    fn = lb[0]
    al = local_aliases(fn)
    fails = [(b, j, st) for b, j, st, k in failure_returns(fn) if k == 'fail']
    if len(fails) < 3:
        raise build.AnalysisBroken('C18.R4: LoadBank has %d failing returns (expected >= 3)' % len(fails))
    effs = list(state_effects(fn, mut, al, state_roots=('this', 'global')))
    effs = [e for e in effs if not e[3].startswith('call fr.')]
    for eb, ej, est, what, call, fld, o in effs:
        bad = [fst['loc'].rsplit(':', 1)[1] for fb, fj, fst in fails if fn.cfg.stmt_before((eb, ej), (fb, fj))]
        obls.append(Obl('C18.R4', fn.name, what, est['loc'], 'finding' if bad else 'discharged',
                        why=('bank/setup state is modified and a failing return (line %s) is still reachable: rejected bank does not leave the loaded bank in place' % ','.join(sorted(set(bad)))) if bad else 'all failing returns precede this store'))
    for fb, fj, fst in fails:
        obls.append(Obl('C18.R4', fn.name, 'return false', fst['loc'], 'discharged' if not any(fn.cfg.stmt_before((eb, ej), (fb, fj)) for eb, ej, *_ in effs) else 'finding',
                        why='failing return with no preceding state store', nontrivial=True))

    # ---- R5: error text fallback in the four wrappers
    for name in sorted(LOADERS):
        fn = byname.get(name)
        if fn is None:
            raise build.AnalysisBroken('C18.R5: %s not found' % name)
        fails = [(b, j, st) for b, j, st, k in failure_returns(fn) if k == 'fail']
        for fb, fj, fst in fails:
            # acceptable: a store of a non-empty literal into the global error string, or setErrorString(non-empty literal)
            # executed on every path into this return since the last branch on `err.empty()`
            ok = False
            seen_txt = []
            blk = fn.cfg.blocks[fb]
            cand_blocks = [fb] + [p for p in fn.cfg.pred[fb]]
            for cb in cand_blocks:
                for st in fn.cfg.blocks[cb]['stmts']:
                    for x in walk(st['s']):
                        ap = assign_parts(x)
                        if ap and short(show(ap[0])) in ERROR_FIELDS and any(y.get('k') == 'StringLiteral' and y.get('len', 0) > 0 for y in walk(ap[1])):
                            seen_txt.append('literal')
                        if short(callee_name(x)) == 'setErrorString' and any(y.get('k') == 'StringLiteral' and y.get('len', 0) > 0 for y in walk(x.get('a', []))):
                            seen_txt.append('setErrorString')
            # a local helper that does the same with the text it is given: setErrorString(<its parameter>) unconditionally or under
            # <error text>.empty(); the wrapper passes a non-empty literal
            for cb in cand_blocks:
                for st in fn.cfg.blocks[cb]['stmts']:
                    for x in calls_in(st['s']):
                        for cf in facts.fns.get(callee_name(x), [])[:1]:
                            if not is_local_helper(fn, cf):
                                continue
                            pidx = {p_['id']: i_ for i_, p_ in enumerate(cf.params)}
                            for b2, j2, st2 in cf.cfg.stmts():
                                for y in calls_in(st2['s']):
                                    # the text parameter, possibly wrapped into the std::string the setter takes
                                    prm = [z.get('id') for z in walk(y.get('a') or []) if isinstance(z, dict) and z.get('k') == 'DeclRefExpr' and z.get('id') in pidx]
                                    if short(callee_name(y)) == 'setErrorString' and len(prm) == 1:
                                        gf2 = guard_facts(cf, b2, st2)
                                        guarded_ok = all(f[0] == 'truth' and f[2] and any(short(callee_name(c)) == 'empty' for c in calls_in(f[1])) for f in gf2)
                                        arg = (x.get('a') or [])[pidx[prm[0]]] if len(x.get('a') or []) > pidx[prm[0]] else None
                                        if guarded_ok and arg is not None and any(z.get('k') == 'StringLiteral' and z.get('len', 0) > 0 for z in walk(arg)):
                                            seen_txt.append('literal')
            if 'literal' in seen_txt:
                ok = True
            elif 'setErrorString' in seen_txt:
                # either unconditional in the return's block, or guarded by err.empty() where err = getErrorString()
                in_blk = any(short(callee_name(x)) == 'setErrorString' for st in blk['stmts'] for x in walk(st['s']))
                if in_blk:
                    ok = True
                else:
                    for p in fn.cfg.pred[fb]:
                        for e in fn.cfg.dominating_edges(p):
                            if e['kind'] == 'branch' and e['pol'] and any(short(callee_name(c)) == 'empty' for c in calls_in(e['cond'])):
                                ok = True
            obls.append(Obl('C18.R5', name, 'return -1', fst['loc'], 'discharged' if ok else 'finding',
                            why='non-empty error text is stored (literal, or fallback when the loader left none)' if ok else 'failing return without a non-empty error text'))
    obls += r6_pairs(facts)
    obls += r7_ranges(facts)
    obls += r8_family_forwarded(facts)
    obls += r9_index_validated(facts)
    obls += r10_lock_scope(facts)
    obls += r11_dumper_overrides(facts)
    return obls



def _slot_base(name):
    n = short(name)
    n = re.sub(r'(_userData|UserData|HookData|Data)$', '', n)
    n = re.sub(r'^m_', '', n)
    n = re.sub(r'^on', '', n, flags=re.I)
    n = re.sub(r'Hook$', '', n)
    return n.lower()


def r6_pairs(facts):
    """registered callbacks persist across resets: wherever the sequencer interface is re-wired, the user-data slot of a callback is copied
    from the user-data member that belongs to the same callback (onloopEnd_userData <- onLoopEnd_userData / m_loopEndHookData)"""
    from .. import e2prog
    out = []
    for fn in facts.all_fns():
        if fn.relfile() not in e2prog.CORE_FILES or fn.tree is None:
            continue
        for b, j, st in fn.cfg.stmts():
            for x in walk(st['s']):
                ap = assign_parts(x)
                if not ap:
                    continue
                t, r = strip(ap[0]), strip(ap[1])
                if t.get('k') != 'MemberExpr' or r.get('k') != 'MemberExpr':
                    continue
                is_ud = re.search(r'(_userData|UserData|HookData)$', short(t['n'])) and re.search(r'(_userData|UserData|HookData|Data)$', short(r['n']))
                # the callback slot itself: sequencer-interface / hooks members that hold a function pointer
                is_cb = (not is_ud) and re.match(r'on[A-Za-z]+$', short(t['n'])) and re.match(r'(on[A-Za-z]+|m_[A-Za-z]+Hook)$', short(r['n'])) and \
                    ((t.get('t') or {}).get('p') or (t.get('t') or {}).get('fnptr'))
                if not (is_ud or is_cb):
                    continue
                ok = _slot_base(t['n']) == _slot_base(r['n'])
                out.append(Obl('C18.R6', fn.name, '%s = %s' % (short(t['n']), short(r['n'])), st['loc'], 'discharged' if ok else 'finding',
                               why='callback / user data of the same slot' if ok else
                               'the user-data slot of one callback is wired to the user data registered for another: after this reset the callback fires with a foreign pointer'))
    need = 6 if facts.fns.get('OPNMIDIplay::initSequencerInterface') else 0       # without the sequencer only the hook setters remain; without the VGM dumper no re-wiring in the reset paths
    if len(out) < need:
        raise build.AnalysisBroken('C18.R6: only %d callback user-data re-wirings found' % len(out))
    return out



def r7_ranges(facts):
    """(a) interval engine on opn2_setNumChips: the value stored into the setup lies in [1, OPN_MAX_CHIPS] for every int argument (a lost
    lower bound lets 0 through: the synth is rebuilt with no chips).  (b) every function that derives the live volume model from
    m_setup.VolumeModel stores the bank default under `== OPNMIDI_VolumeModel_AUTO` (sibling agreement of the setter with applySetup):
    handing AUTO to setVolumeScaleModel() does nothing, so the getter would keep reporting the explicit model."""
    from ..e2 import Engine2, St
    out = []
    fn = facts.fn('opn2_setNumChips')
    eng = Engine2(facts, {}, {}, {})
    vals = []
    def hook(eng, e, st):
        for x in walk(e):
            ap = assign_parts(x)
            if ap and strip(ap[0]).get('k') == 'MemberExpr' and short(strip(ap[0])['n']) == 'numChips' and 'Setup' in strip(ap[0])['n']:
                vals.append((x.get('ln'), eng.ev(ap[1], st)))
    eng.value_hooks.append(hook)
    eng.run(fn, record=True)
    if not vals:
        raise build.AnalysisBroken('C18.R7: the store of Setup::numChips in opn2_setNumChips was not reached')
    maxc = None
    for (nm, loc), g in facts.globals.items():
        pass
    for ln, v in vals:
        ok = v is not None and v.lo >= 1 and v.hi <= 100
        out.append(Obl('C18.R7', fn.name, 'stored chip count', '%s:%s' % (fn.file, ln), 'discharged' if ok else 'finding',
                       why='value %s within [1, 100]' % v if ok else 'the accepted chip count %s leaves the documented range 1..100: the setter succeeds and the synthesizer is rebuilt with that count' % v))
    n = 0
    for f2 in facts.all_fns():
        if f2.tree is None or not (f2.name.startswith('opn2_') or f2.name.startswith('OPNMIDIplay::')):
            continue
        reads_setup = any(mentions(st['s'], lambda y: y.get('k') == 'MemberExpr' and short(y['n']) == 'VolumeModel' and 'Setup' in y['n']) for b, j, st in f2.cfg.stmts(conds=True))
        sets_live = [(b, j, st, x) for b, j, st in f2.cfg.stmts() for x in calls_in(st['s']) if short(callee_name(x)) == 'setVolumeScaleModel']
        if not (reads_setup and sets_live):
            continue
        n += 1
        okk = False
        for b, j, st in f2.cfg.stmts():
            for x in walk(st['s']):
                ap = assign_parts(x)
                if ap and strip(ap[0]).get('k') == 'MemberExpr' and short(strip(ap[0])['n']) == 'm_volumeScale' and mentions(ap[1], member_named('volumeModel')):
                    gf = guard_facts(f2, b, st)
                    if any(f[0] == 'cmp' and f[1] == '==' and mentions(f[2], member_named('VolumeModel')) and const_of(f[3]) == 0 for f in gf):
                        okk = True
        out.append(Obl('C18.R7', f2.name, 'AUTO resolves to the bank\'s volume model', f2.loc, 'discharged' if okk else 'finding',
                       why='m_volumeScale = m_insBankSetup.volumeModel under VolumeModel == AUTO' if okk else
                       'the live volume model is set from the setup without resolving AUTO to the bank default: after setting AUTO the previous explicit model stays in force (setVolumeScaleModel ignores AUTO)'))
    if n < 2:
        raise build.AnalysisBroken('C18.R7: functions deriving the live volume model from the setup not found (%d)' % n)
    out += r7_model_table(facts)
    out += r7_auto_sentinel(facts)
    return out


def r7_model_table(facts):
    """(c) the live volume model is a function of two settings (VolumeModel == AUTO?, LogarithmicVolumes != 0?).  applySetup computes
    it at every reset / load; the two setters compute it when they are called.  The value a setter puts in force stays in force only if
    all three compute the same function: evaluate the structured code of each for the four combinations (the last model action on the
    path wins) and compare the tables."""
    out = []
    def action(x, env=None):
        ap = assign_parts(x)
        if ap and strip(ap[0]).get('k') == 'MemberExpr' and short(strip(ap[0])['n']) == 'm_volumeScale' and mentions(ap[1], member_named('volumeModel')):
            return 'bank default'
        if isinstance(x, dict) and 'callee' in x and short(callee_name(x)) == 'setVolumeScaleModel' and x.get('a'):
            a = strip(x['a'][0])
            while a is not None and ((a.get('k') or '').endswith('CastExpr') or a.get('k') == 'ConditionalOperator'):
                if a.get('k') == 'ConditionalOperator':
                    # the model is chosen inside the argument: `set(log != 0 ? Native : requested)`
                    v = cond_value(a['cnd'], env) if env is not None else None
                    if v is None:
                        return 'the requested model'
                    a = strip(a['l'] if v else a['r'])
                else:
                    a = strip(a.get('e'))
            if a is not None and a.get('enumc') and 'Native' in (a.get('n') or ''):
                return 'NativeOPN2'
            return 'the requested model'
        return None
    def cond_value(c, env):
        """truth of a condition under env = (auto, log); None when it does not test the two settings"""
        vals = []
        for f in literals(c, True):
            if f[0] == 'cmp' and mentions(f[2], member_named('VolumeModel')) and const_of(f[3]) == 0 and f[1] in ('==', '!='):
                vals.append(env[0] if f[1] == '==' else not env[0])
            elif f[0] == 'cmp' and mentions(f[2], member_named('LogarithmicVolumes')) and const_of(f[3]) == 0 and f[1] in ('==', '!='):
                vals.append((not env[1]) if f[1] == '==' else env[1])
            elif f[0] == 'truth' and mentions(f[1], member_named('LogarithmicVolumes')):
                vals.append(env[1] if f[2] else not env[1])
            else:
                return None
        return all(vals) if vals else None
    def run(t, env, last):
        if t is None:
            return last
        if isinstance(t, list):
            for y in t:
                last = run(y, env, last)
            return last
        k = t.get('k')
        if k == 'CompoundStmt':
            return run(t.get('body'), env, last)
        if k == 'IfStmt':
            v = cond_value(t.get('cond'), env)
            if v is None:
                a, b = run(t.get('then'), env, last), run(t.get('else'), env, last)
                return a if a != last else b       # conditions on other state (setupLocked): the arm that acts
            return run(t.get('then') if v else t.get('else'), env, last)
        for x in walk(t):
            a = action(x, env)
            if a:
                last = a
        return last
    tables = {}
    for name in ('OPNMIDIplay::applySetup', 'opn2_setVolumeRangeModel', 'opn2_setLogarithmicVolumes'):
        fn = facts.fn(name)
        tab = {}
        for auto in (True, False):
            for log in (True, False):
                tab[(auto, log)] = run(fn.tree, (auto, log), None)
        tables[name] = (fn, tab)
    ref = tables['OPNMIDIplay::applySetup'][1]
    if None in ref.values():
        raise build.AnalysisBroken('C18.R7: applySetup sets no volume model for some combination of the two settings: %s' % ref)
    for name in ('opn2_setVolumeRangeModel', 'opn2_setLogarithmicVolumes'):
        fn, tab = tables[name]
        diff = [(k, tab[k], ref[k]) for k in sorted(tab) if tab[k] != ref[k]]
        out.append(Obl('C18.R7', name, 'volume model: same decision table as applySetup', fn.loc, 'discharged' if not diff else 'finding',
                       why='all four combinations of (VolumeModel == AUTO, LogarithmicVolumes != 0) give the same model' if not diff else
                       'with VolumeModel %s AUTO and LogarithmicVolumes %s the setter puts %s in force but the next reset / load (applySetup) selects %s: the accepted value does not stay in force' % (
                           '==' if diff[0][0][0] else '!=', '!= 0' if diff[0][0][1] else '== 0', diff[0][1], diff[0][2])))
    return out


def r8_family_forwarded(facts):
    """opn2_setChipType stores the request; OPN2::reset creates the chips with it and then takes `family = chip->family()` as the applied
    value the getter reports.  The getter returns the value set only if every constructor on the way (wrapper -> OPNChipBaseBufferedT /
    OPNChipBaseT -> OPNChipBase::m_family) forwards its OPNFamily parameter unchanged (sibling agreement over all chip wrappers)."""
    out = []
    n = 0
    for fn in facts.all_fns():
        if not fn.d.get('ctor') or fn.d.get('copyctor') or not fn.relfile().startswith('src/chips/') or fn.relfile().count('/') != 2:
            continue
        fam = [p for p in fn.params if 'OPNFamily' in ((p.get('t') or {}).get('s') or '')]
        if not fam:
            continue
        inits = [st['s'] for b, j, st in fn.cfg.stmts() if st['s'].get('k') == 'CtorInit']
        if not inits and not any(True for _ in fn.cfg.stmts()):
            continue        # a declaration instantiated without its body in this unit (the defining unit is analysed too)
        tgt = [i for i in inits if i.get('base') and ('OPNChipBase' in i['base'] or 'OPNChipBase' in (callee_name(strip(i.get('init')) or {}) or ''))] or \
              [i for i in inits if 'm_family' in show(i)]
        if not tgt:
            out.append(Obl('C18.R8', fn.name, 'family parameter forwarded', fn.loc, 'finding', why='the constructor takes an OPNFamily but initialises neither a chip base class nor m_family with it'))
            n += 1
            continue
        for i in tgt:
            n += 1
            args = [strip(a) for a in (strip(i.get('init')) or {}).get('a', [])] or [strip(i.get('init'))]
            ok = any(a is not None and a.get('k') == 'DeclRefExpr' and a.get('id') == fam[0]['id'] for a in args)
            out.append(Obl('C18.R8', fn.name, 'family parameter forwarded', '%s:%s' % (fn.file, i.get('ln')), 'discharged' if ok else 'finding',
                           why='base / m_family initialised with the parameter' if ok else
                           'initialised with %s instead of the requested family: OPN2::reset reads the family back from the chip, so opn2_getChipType() reports (and later resets keep) a chip type the user never set' % show(i)[:50]))
    if n < 6:
        raise build.AnalysisBroken('C18.R8: only %d chip constructors with a family parameter found' % n)
    return out


def r9_index_validated(facts):
    """opn2_setTrackOptions / opn2_setChannelEnabled pass their index argument to sequencer methods.  Each such method must be able to
    refuse (non-void result) and the setter must turn the refusal into its error return: an index that names no track stored as the
    solo track mutes every track while the call reports success (sibling agreement: the on / off arms already do this)."""
    out = []
    n = 0
    for name in ('opn2_setTrackOptions', 'opn2_setChannelEnabled'):
        fns = facts.fns.get(name)
        if not fns or fns[0].tree is None:
            continue
        fn = fns[0]
        idx = [p for p in fn.params if 'Number' in (p.get('n') or '') or 'umber' in (p.get('n') or '')]
        if not idx:
            continue
        # the failing outcomes with the facts they happen under: `return -1`, `result = -1` into the local the function returns,
        # `return c ? 0 : -1`
        ret_ids = {strip(st_['s']['e']).get('id') for b_, j_, st_ in fn.cfg.returns() if st_['s'].get('e') is not None and strip(st_['s']['e']).get('k') == 'DeclRefExpr'}
        fail_facts = []
        for b_, j_, st_ in fn.cfg.returns():
            e_ = strip(st_['s'].get('e')) if st_['s'].get('e') is not None else None
            if e_ is None:
                continue
            if (const_of(e_) or 0) < 0:
                fail_facts.append(guard_facts(fn, b_, st_))
            elif e_.get('k') == 'ConditionalOperator':
                for arm, pol in ((e_['l'], True), (e_['r'], False)):
                    if (const_of(arm) or 0) < 0:
                        fail_facts.append(guard_facts(fn, b_, st_) + literals(e_['cnd'], pol))
        for b_, j_, st_ in fn.cfg.stmts():
            for y in walk(st_['s']):
                ap_ = assign_parts_raw(y) if isinstance(y, dict) else None
                if ap_ and ap_[2] == '=' and strip(ap_[0]).get('id') in ret_ids and (const_of(ap_[1]) or 0) < 0:
                    fail_facts.append(guard_facts(fn, b_, st_))
        sd_fn = single_defs(fn.d)
        for b, j, st in fn.cfg.stmts(conds=True):
            for x in calls_in(st['s']):
                cn = callee_name(x)
                if not cn or 'Sequencer::' not in cn or not any(strip(a).get('id') == idx[0]['id'] for a in x.get('a', [])):
                    continue
                n += 1
                cf = facts.fns.get(cn, [None])[0]
                nonvoid = cf is not None and (cf.d.get('ret') or {}).get('s') not in (None, 'void')
                def about_call(f):
                    es = [f[1]] if f[0] == 'truth' else ([f[2], f[3]] if f[0] == 'cmp' else [])
                    for e_ in es:
                        for y in walk(subst(e_, sd_fn)):        # the result may have a name
                            if isinstance(y, dict) and 'callee' in y and short(callee_name(y)) == short(cn):
                                return True
                    return False
                checked = any(any(about_call(f) for f in ff) for ff in fail_facts)
                ok = nonvoid and checked
                out.append(Obl('C18.R9', fn.name, '%s(%s)' % (short(cn), idx[0].get('n')), st['loc'], 'discharged' if ok else 'finding',
                               why='the method can refuse and the refusal becomes the error return' if ok else
                               '%s(%s) %s: an out-of-range number is stored and the call reports success (a solo track that does not exist mutes every track)' % (short(cn), idx[0].get('n'), 'returns void' if not nonvoid else 'is not checked')))
    if n < 3 and facts.view not in ('noSEQ',):
        raise build.AnalysisBroken('C18.R9: only %d index hand-overs to the sequencer found' % n)
    return out


def r10_lock_scope(facts):
    """the formats that lock the setup (EA-MUS) force a few live values in LoadMIDI_post (the stores in the branch that assigns the
    locked music mode).  Only those fields may be withheld from a setter by `!setupLocked()`: for any other field the guard makes the
    setter report nothing and do nothing while such a song is loaded (the value set does not come into force until the next file)."""
    out = []
    if facts.view == 'noSEQ' and not facts.fns.get('OPNMIDIplay::LoadMIDI_post'):
        return out      # no file formats, no setup lock in this configuration
    lp = facts.fn('OPNMIDIplay::LoadMIDI_post')
    forced = set()
    for b, j, st in lp.cfg.stmts():
        ap = assign_parts(st['s'])
        if not ap:
            continue
        t = strip(ap[0])
        if t.get('k') == 'MemberExpr' and short(t['n']) == 'm_musicMode' and 'RSXX' in show(ap[1]):
            # the stores of the same block
            for st2 in lp.cfg.blocks[b]['stmts']:
                ap2 = assign_parts(st2['s'])
                if ap2 and strip(ap2[0]).get('k') == 'MemberExpr':
                    forced.add(short(strip(ap2[0])['n']))
    forced.discard('m_musicMode')
    if not forced:
        raise build.AnalysisBroken('C18.R10: stores of the locked-format branch of LoadMIDI_post not found')
    n = 0
    for fn in exported(facts):
        if not fn.name.startswith('opn2_set') or fn.tree is None:
            continue
        for b, j, st in fn.cfg.stmts():
            ap = assign_parts(st['s'])
            if not ap:
                continue
            t = strip(ap[0])
            if not (t.get('k') == 'MemberExpr' and ('OPN2::' in t['n'])):
                continue
            gf = guard_facts(fn, b, st)
            locked_guard = any(f[0] == 'truth' and not f[2] and 'setupLocked' in show(f[1]) for f in gf)
            if not locked_guard:
                continue
            n += 1
            fld = short(t['n'])
            ok = fld in forced
            out.append(Obl('C18.R10', fn.name, 'live store of %s withheld under the setup lock' % fld, st['loc'], 'discharged' if ok else 'finding',
                           why='%s is forced by the locked formats (LoadMIDI_post)' % fld if ok else
                           '%s is not one of the values the locked formats force (%s): with such a song loaded the setter stores the request but the value does not come into force' % (fld, ', '.join(sorted(forced)))))
    if n < 2:
        raise build.AnalysisBroken('C18.R10: lock-guarded live stores of the setters not found (%d)' % n)
    return out


def r7_auto_sentinel(facts):
    """lfoEnable, lfoFrequency and chipType have -1 = "take the bank's value"; 0 is an ordinary value (LFO off, frequency 0, OPN2).
    In applySetup and in the setters the branch that copies the bank default must be the one taken for a negative setting only:
    fold each condition on such a field at -1, 0 and 1 and look at what the selected branch stores."""
    out = []
    fields = ('lfoEnable', 'lfoFrequency', 'chipType')
    n = 0
    for fname in ('OPNMIDIplay::applySetup', 'opn2_setLfoEnabled', 'opn2_setLfoFrequency', 'opn2_setChipType'):
        fns = facts.fns.get(fname)
        if not fns or fns[0].tree is None:
            continue
        fn = fns[0]
        al7 = alias_defs(fn.d)
        # a selection between two sources: an if / else statement or a conditional expression
        triples = []
        for x in walk(fn.tree):
            if isinstance(x, dict) and x.get('k') == 'IfStmt' and x.get('cond') is not None and x.get('else') is not None:
                triples.append({'cond': x['cond'], 'then': subst(x.get('then'), al7), 'else': subst(x.get('else'), al7), 'ln': x.get('ln')})
            if isinstance(x, dict) and x.get('k') == 'ConditionalOperator':
                triples.append({'cond': x['cnd'], 'then': subst(x.get('l'), al7), 'else': subst(x.get('r'), al7), 'ln': x.get('ln')})
        for x in triples:
            lits = literals(x['cond'], True)
            if len(lits) != 1 or lits[0][0] != 'cmp':
                continue
            nn = cmp_norm(lits[0])
            if not nn or not isinstance(nn[2], int):
                continue
            fld = [short(y['n']) for y in walk(nn[1]) if isinstance(y, dict) and y.get('k') == 'MemberExpr' and short(y.get('n', '')) in fields and 'Setup' in y.get('n', '')]
            if not fld:
                continue
            def src(branch):
                txt = show(branch) if isinstance(branch, dict) else ' '.join(show(b_) for b_ in (branch or []))
                return 'bank' if 'm_insBankSetup' in txt else ('user' if 'm_setup' in txt or 'Setup' in txt else '?')
            st_, se_ = src(x.get('then')), src(x.get('else'))
            if {st_, se_} != {'bank', 'user'}:
                continue
            n += 1
            op, c = nn[0], nn[2]
            f_ = {'<': lambda v: v < c, '<=': lambda v: v <= c, '>': lambda v: v > c, '>=': lambda v: v >= c, '==': lambda v: v == c, '!=': lambda v: v != c}[op]
            sel = tuple(st_ if f_(v) else se_ for v in (-1, 0, 1))
            ok = sel == ('bank', 'user', 'user')
            out.append(Obl('C18.R7', fn.name, '%s: bank default only for a negative setting' % fld[0], '%s:%s' % (fn.file, x.get('ln')), 'discharged' if ok else 'finding',
                           why='-1 -> bank, 0 and 1 -> the value set' if ok else
                           'for %s = -1, 0, 1 the code takes %s: the explicit value 0 is replaced by the bank default the next time the setup is applied (file load, chip type change)' % (fld[0], ', '.join(sel))))
    if n < 3:
        raise build.AnalysisBroken('C18.R7: bank-default selections on lfoEnable / lfoFrequency / chipType not found (%d)' % n)
    return out


def r11_dumper_overrides(facts):
    """(a) OPN2::reset clamps the live chip count to 2 for the VGM dumper; partialReset (every emulator switch and reset) stores
    m_setup.numChips into the live count before it resets the synth, so the requested count is back with the next emulator;
    (b) every function that forces stop-at-loop-end for the dumper (`setLoopHooksOnly(<hook installed>)` under the dumper-hooks test)
    sets it from m_setup.loopHooksOnly in the other branch; (c) the setter records the request in m_setup.loopHooksOnly."""
    out = []
    pr = facts.fn('OPNMIDIplay::partialReset')
    pos_store = pos_reset = None
    for b, j, st in pr.cfg.stmts():
        ap = assign_parts(st['s'])
        if ap and short(strip(ap[0]).get('n', '')) == 'm_numChips' and mentions(ap[1], member_named('numChips')):
            pos_store = (b, j, st)
        for x in calls_in(st['s']):
            if short(callee_name(x)) == 'reset' and 'OPN2::' in callee_name(x):
                pos_reset = (b, j, st)
    ok = pos_store is not None and pos_reset is not None and pr.cfg.stmt_before((pos_store[0], pos_store[1]), (pos_reset[0], pos_reset[1]))
    out.append(Obl('C18.R11', pr.name, 'requested chip count re-applied before the synth is rebuilt', (pos_store or pos_reset or (0, 0, {'loc': pr.loc}))[2]['loc'],
                   'discharged' if ok else 'finding',
                   why='m_numChips = m_setup.numChips precedes OPN2::reset' if ok else
                   'partialReset rebuilds the synth with the live chip count, which the VGM dumper has clamped to 2: after switching to another emulator opn2_getNumChipsObtained stays 2 although the accepted count is larger'))
    n = 0
    for fn in facts.all_fns():
        # member functions of the player and the file-local helpers next to them
        if fn.tree is None or not (fn.name.startswith('OPNMIDIplay::') or fn.relfile() in ('src/opnmidi_midiplay.cpp', 'src/opnmidi_load.cpp', 'src/opnmidi.cpp')):
            continue
        forced = []
        restored = []
        for b, j, st in fn.cfg.stmts():
            for x in calls_in(st['s']):
                if short(callee_name(x)) == 'setLoopHooksOnly' and x.get('a'):
                    if mentions(x['a'][0], member_named('loopHooksOnly')):
                        restored.append((b, j, st))
                    else:
                        forced.append((b, j, st))
        for b, j, st in forced:
            n += 1
            # the restoring call sits under the negation of the condition that guards the forcing call
            # the restoring call sits in the complementary branch: its guard facts contradict those of the forcing call
            gfor = guard_facts(fn, b, st)
            okr = any(unsat(gfor + guard_facts(fn, b2, st2)) for b2, j2, st2 in restored)
            out.append(Obl('C18.R11', fn.name, 'stop-at-loop-end forced for the dumper, restored otherwise', st['loc'], 'discharged' if okr else 'finding',
                           why='the other branch calls setLoopHooksOnly(m_setup.loopHooksOnly)' if okr else
                           'the dumper branch switches stop-at-loop-end on and nothing switches it back: after the dumper was selected once, a looping song ends at its first loop end with every emulator'))
    if n < 3 and facts.view not in ('noVGM', 'noSEQ'):
        raise build.AnalysisBroken('C18.R11: dumper branches that force stop-at-loop-end not found (%d)' % n)
    st_ = None
    for fn in exported(facts):
        if fn.name == 'opn2_setLoopHooksOnly' and fn.tree is not None:
            if not any(short(callee_name(x)) == 'setLoopHooksOnly' for b, j, st in fn.cfg.stmts() for x in calls_in(st['s'])):
                continue        # the sequencer is compiled out: the setter is a stub
            for b, j, st in fn.cfg.stmts():
                ap = assign_parts(st['s'])
                if ap and short(strip(ap[0]).get('n', '')) == 'loopHooksOnly' and 'Setup' in strip(ap[0]).get('n', ''):
                    st_ = st
            out.append(Obl('C18.R11', fn.name, 'request recorded in the setup', st_['loc'] if st_ else fn.loc, 'discharged' if st_ else 'finding',
                           why='m_setup.loopHooksOnly is stored' if st_ else 'the setter changes the sequencer only: the value cannot be re-applied after the dumper has overridden it'))
    return out
