"""C03 — any sequence of API calls on a live instance is memory-safe and terminates.

R1   every subscript of the MIDI channel table with an API-derived index is below its size (interval engine with relational
     size facts); R1b: the table never has fewer than 16 entries.
R2   emulator id: shift amounts are in range; every store of the requested emulator is validated by the availability test;
     availability mask and chip factory agree.
R3   every index into an object of fixed extent is in range for all parameter values of the C types (tables, member arrays,
     local buffers); mem* byte counts fit their destination.
R4   divisions have a non-zero divisor; array-new element counts derived from API arguments are bounded.
R5   no abort / throw is reachable from the C API except behind a proven guard (IR reachability + capacity guards).
R6   loop progress: no loop compares an induction variable with a bound of a wider type.
R7   (buffer, size) parameters: every subscript of the buffer is proven below the size by symbolic bounds against the size parameter
     (guards give size >= k; loop conditions give index <= size + c; `data += k; size -= k` is followed).
"""
import collections, re
from ..core import *
from ..logic import *
from ..e2 import *
from .. import e2prog
from ..report import Obl, Rule
from .. import build

PROP = 'C03'
RULES = [
    Rule('C03.R1', 'every subscript of m_midiChannels is below its size', 40),
    Rule('C03.R1b', 'the MIDI channel table always has at least 16 entries', 2),
    Rule('C03.R2', 'emulator ids are range- and availability-checked before they are stored, shifted by, or reach the chip factory', 5),
    Rule('C03.R3', 'every index into a fixed-extent object is within [0, extent-1] for all argument values', 100),
    Rule('C03.R4', 'divisors are non-zero and API-sized allocations are bounded', 3),
    Rule('C03.R5', 'abort / throw sites reachable from the C API are guarded', 3),
    Rule('C03.R6', 'no loop compares its induction variable with a bound of a wider type', 30),
    Rule('C03.R8', 'a scratch buffer of a chip wrapper sized through a rate-dependent object is re-allocated whenever that object is re-initialised, for the full block length', 2),
    Rule('C03.R9', 'a loop jump of the sequencer keeps the time the running tick still owes (the audio loop and Tick terminate because the owed time only shrinks)', 3),
    Rule('C03.R10', 'every stdio operation on a FILE* member that comes from fopen() is dominated by a NULL test of that member', 10),
    Rule('C03.R11', 'every pointer parameter of an exported function is tested against NULL before it is dereferenced', 60),
    Rule('C03.R12', 'loops over the chip vector are bounded by the live chip count (OPN2::m_numChips / m_chips.size()), not by the requested one', 3),
    Rule('C03.R7', 'every access through a caller-provided (buffer, size) pair stays below the size', 20),
]
EXPLANATION = ('Interval abstract interpretation (engine E2) of every reachable function of the core units: parameter ranges are the C types\' ranges for '
               'exported entry points and the call-site join for internal methods, member-field ranges are the join of all stores (narrowing rounds), '
               'relational facts x < size(container) flow through guards and into callees; every subscript of a fixed-extent object and of the MIDI '
               'channel table is an obligation. Whole-program IR reachability finds abort/throw sites. AST rules cover the emulator mask/factory '
               'agreement and loop-variable widths. Decides in-bounds indexing, guarded aborts and loop-width progress for all argument values; '
               'does not decide the vendored emulator cores nor container misuse inside libstdc++.')
ASSUMPTIONS = ['indexes bounded only by a class invariant on a member field (chip channel numbers saved in notes, chip_channels_count <= 2, MIDI channel saved in a user location) are listed as assumed',
               'device handles come from opn2_init (assert(play) is the API contract)',
               'out-of-memory in general is outside the quantifier', 'no container holds 2^48 or more elements']

C01_FILES = ('src/cvt_mus2mid.hpp', 'src/cvt_xmi2mid.hpp', 'src/midi_sequencer_impl.hpp', 'src/midi_sequencer.hpp', 'src/file_reader.hpp', 'src/fraction.hpp', 'src/wopn/wopn_file.c')


def views(tier):
    return ['V0', 'V1'] if tier == 'quick' else ['V0', 'V1', 'noVGM', 'noSEQ', 'noNUKED', 'noMAME', 'noGENS', 'noYMFM', 'noNP2', 'noMAME2608']


def fn_file(facts, name):
    fl = facts.fns.get(name)
    return fl[0].relfile() if fl else ''


def index_obligations(facts, res, rule_vec, rule_idx, file_pred):
    obls = []
    for o in res['obl']:
        ff = fn_file(facts, o.fn)
        if not file_pred(ff) or o.kind not in ('index', 'vector'):
            continue        # float->int conversions are C11's (touchNote); elsewhere floating-point ranges are out of reach
        rule = rule_vec if o.kind == 'vector' else rule_idx
        loc = '%s/%s:%s' % (build.REPO, ff, o.ln)
        if o.ok:
            st, why = 'discharged', 'index %s within %s' % (o.idx, ('[0, %d]' % (o.ext - 1)) if isinstance(o.ext, int) else o.ext)
        elif o.inp:
            st = 'finding'
            why = 'index %s can leave %s: it derives from an argument / external data and no guard bounds it' % (o.idx, ('[0, %d]' % (o.ext - 1)) if isinstance(o.ext, int) else o.ext)
        else:
            st, why = 'assumed', 'index %s is bounded only by a class invariant on member state' % (o.idx,)
        obls.append(Obl(rule, o.fn, o.construct, loc, st, why=why, nontrivial=not (o.idx is not None and o.idx.is_point())))
    return obls


def analyse(facts, tier):
    obls = []
    res = e2prog.analyse_program(facts)
    core = lambda f: f and f not in C01_FILES
    obls += index_obligations(facts, res, 'C03.R1', 'C03.R3', core)

    # ---- R1b
    n1b = 0
    for fname in sorted(res['direct_resizers'].get('m_midiChannels', ())):
        fn = facts.fn(fname)
        calls = []
        for b, j, st in fn.cfg.stmts():
            for x in calls_in(st['s']):
                if x.get('obj') is not None and strip(x['obj']).get('k') == 'MemberExpr' and short(strip(x['obj'])['n']) == 'm_midiChannels' and short(callee_name(x)) in ('resize', 'clear', 'erase', 'pop_back', 'assign', 'swap'):
                    calls.append((b, j, st, x))
        for b, j, st, x in calls:
            n1b += 1
            m = short(callee_name(x))
            if m == 'resize':
                eng = Engine2(facts, res['field_ranges'], e2prog.MIN_SIZES, res['param_ranges'])
                eng.fn = fn; eng.record = False; eng.record_stores = False; eng.local_inits = {}
                sd = single_defs(fn.d)
                a = subst(x['a'][0], sd)
                v = eng.ev(a, St())
                ok = v is not None and v.lo >= 16
                obls.append(Obl('C03.R1b', fname, show(x), st['loc'], 'discharged' if ok else 'finding', why='new size %s >= 16' % v if ok else 'the channel table may be resized below 16 entries (%s)' % v))
            elif m == 'clear':
                ok = any(short(callee_name(y[3])) == 'resize' and fn.cfg.stmt_before((b, j), (y[0], y[1])) and (y[0] == b or fn.cfg.pdom().get(('b', b)) and ('b', y[0]) in fn.cfg.pdom()[('b', b)]) for y in calls)
                obls.append(Obl('C03.R1b', fname, show(x), st['loc'], 'discharged' if ok else 'finding', why='followed by a resize on every path' if ok else 'the channel table is cleared and a path leaves it empty'))
            else:
                obls.append(Obl('C03.R1b', fname, show(x), st['loc'], 'finding', why='the channel table can shrink through %s' % m))
    if n1b < 2:
        raise build.AnalysisBroken('C03.R1b: resize/clear sites of m_midiChannels not found')

    obls += r2(facts, res)
    obls += r4(facts, res)
    obls += r5(facts)
    obls += r6(facts, res, core)
    obls += r7(facts)
    obls += r8_scratch(facts)
    obls += r9_loop_jump(facts)
    obls += r10_file_streams(facts)
    obls += r5_null_strings(facts)
    obls += r11_null_params(facts)
    obls += r12_chip_loops(facts)
    obls += r4_rate_divisors(facts)
    if res['leaf_seen'] < 0.97 * res['leaf_total']:
        raise build.AnalysisBroken('E2 reached only %d of %d statements: the interpreter is dropping paths' % (res['leaf_seen'], res['leaf_total']))
    return obls, {'e2_functions': res['functions'], 'e2_seconds': round(res['secs'], 2), 'field_ranges': len(res['field_ranges']),
                  'statements_reached': '%d/%d' % (res['leaf_seen'], res['leaf_total']),
                  'statements_proved_dead': [{'function': n, 'lines': l} for n, l in res['unvisited']]}


def r2(facts, res):
    out = []
    av = facts.fn('opn2_isEmulatorAvailable')
    # (a) shift in the availability test is dominated by a range test on the id
    eng = Engine2(facts, res['field_ranges'], e2prog.MIN_SIZES, {})
    shifts = []
    def hook(eng, e, st):
        for x, sx in eng.subexprs(e, st):
            if x.get('k') == 'BinaryOperator' and x['op'] in ('<<', '>>') and const_of(x['r']) is None:
                amt = eng.ev(x['r'], sx)
                w = (x.get('t') or {}).get('w', 32)
                shifts.append((x, amt, w))
    eng.value_hooks.append(hook)
    eng.run(av, record=True)
    for x, amt, w in shifts:
        ok = amt is not None and amt.lo >= 0 and amt.hi <= w - 1
        out.append(Obl('C03.R2', av.name, show(x), '%s:%s' % (av.file, x.get('ln')), 'discharged' if ok else 'finding',
                       why='shift amount %s within [0, %d]' % (amt, w - 1) if ok else 'shift amount %s can reach the operand width %d: undefined behaviour, on x86 it wraps to the bit of an available core' % (amt, w)))
    if not shifts:
        raise build.AnalysisBroken('C03.R2: no variable shift found in opn2_isEmulatorAvailable')
    # (b) every store of Setup::emulator outside constructors is validated
    n = 0
    for fn in facts.all_fns():
        for b, j, st in fn.cfg.stmts():
            for x in walk(st['s']):
                ap = assign_parts(x)
                if ap and strip(ap[0]).get('k') == 'MemberExpr' and strip(ap[0])['n'].endswith('Setup::emulator'):
                    n += 1
                    rhs = strip(ap[1])
                    if short(callee_name(rhs)) == 'opn2_getLowestEmulator':
                        out.append(Obl('C03.R2', fn.name, 'store emulator = ' + show(rhs), st['loc'], 'discharged', why='lowest available emulator'))
                        continue
                    gf = guard_facts(fn, b, st)
                    ok = any(f[0] == 'truth' and f[2] and short(callee_name(strip(f[1]))) == 'opn2_isEmulatorAvailable' and show(strip(f[1])['a'][0]) == show(rhs) for f in gf)
                    out.append(Obl('C03.R2', fn.name, 'store emulator = ' + show(rhs), st['loc'], 'discharged' if ok else 'finding',
                                   why='dominated by opn2_isEmulatorAvailable(%s)' % show(rhs) if ok else
                                   'the requested emulator id is stored without (or before) the availability test: a later reset reaches the factory default: abort()'))
    if n < 2:
        raise build.AnalysisBroken('C03.R2: stores of Setup::emulator not found')
    # (c) mask and factory agree
    mask = None
    for (nme, loc), g in facts.globals.items():
        if short(nme) == 'opn2_emulatorSupport' and isinstance(g.get('init'), int):
            mask = g['init']
    rs = facts.fn('OPN2::reset')
    cases = set()
    def rec(t, labels=None):
        if isinstance(t, dict):
            if t.get('k') == 'SwitchStmt' and mentions(t['cond'], lambda y: y.get('k') == 'DeclRefExpr' and y.get('parm')):
                body = t.get('body') or {}
                cur = []
                for it in body.get('body', []):
                    x = it
                    labs = []
                    while isinstance(x, dict) and x.get('k') in ('CaseStmt', 'DefaultStmt'):
                        labs.append(x.get('value') if x.get('k') == 'CaseStmt' else 'default')
                        x = x.get('sub')
                    if labs:
                        cur = labs
                    if any(y.get('k') == 'CXXNewExpr' for y in walk(x)):
                        for l in cur:
                            if l != 'default':
                                cases.add(l)
            for k2 in ('body', 'then', 'else', 'sub'):
                v = t.get(k2)
                if isinstance(v, list):
                    for y in v:
                        rec(y)
                elif isinstance(v, dict):
                    rec(v)
    rec(rs.tree)
    if mask is None or not cases:
        raise build.AnalysisBroken('C03.R2: availability mask (%s) or factory cases (%s) not found' % (mask, cases))
    bits = {i for i in range(32) if mask >> i & 1}
    ok = bits == cases
    out.append(Obl('C03.R2', rs.name, 'availability mask == factory cases', rs.loc, 'discharged' if ok else 'finding',
                   why='emulators %s both advertised and constructible' % sorted(bits) if ok else 'advertised %s but the factory constructs %s' % (sorted(bits), sorted(cases))))
    # (d) the availability test returns the mask bit
    retmask = any(mentions(st['s'], lambda y: y.get('k') == 'BinaryOperator' and y['op'] == '&' and (mentions(y['l'], ref_named('opn2_emulatorSupport')) or mentions(y['r'], ref_named('opn2_emulatorSupport')) or const_of(y['l']) == mask)) for b, j, st in av.cfg.returns())
    out.append(Obl('C03.R2', av.name, 'result is the mask bit', av.loc, 'discharged' if retmask else 'finding', why='returns (mask & (1u << id)) != 0' if retmask else 'availability is not derived from the support mask'))
    return out


def r4(facts, res):
    out = []
    for fname, ln, construct, rng, inp in res['div']:
        ff = fn_file(facts, fname)
        if fname.startswith('FileAndMemReader::read'):
            # divisor is the element size: every call site passes the constant 1 (companion check)
            sites = []
            for fn in facts.all_fns():
                for b, ex, loc in fn.cfg.exprs():
                    for x in calls_in(ex):
                        if callee_name(x) == 'FileAndMemReader::read' and len(x.get('a', [])) >= 3:
                            sites.append(const_of(x['a'][1]))
            ok = bool(sites) and all(s is not None and s != 0 for s in sites)
            out.append(Obl('C03.R4', fname, construct, '%s/%s:%s' % (build.REPO, ff, ln), 'discharged' if ok else 'finding',
                           why='all %d call sites pass a non-zero constant element size' % len(sites) if ok else 'a call site passes a variable or zero element size'))
        elif fname.startswith('fraction<'):
            out.append(Obl('C03.R4', fname, construct, '%s/%s:%s' % (build.REPO, ff, ln), 'assumed', why='class invariant of fraction: denominator != 0 (established where fractions are constructed: C01.R7)', nontrivial=False))
        else:
            out.append(Obl('C03.R4', fname, construct, '%s/%s:%s' % (build.REPO, ff, ln), 'finding' if inp else 'assumed', why='divisor range %s contains zero' % (rng,)))
    # array-new with an API-derived element count
    for fn in facts.all_fns():
        if fn.relfile() not in ('src/opnmidi_bankmap.tcc', 'src/opnmidi_bankmap.h', 'src/opnmidi.cpp', 'src/opnmidi_midiplay.cpp', 'src/opnmidi_opn2.cpp'):
            continue
        for b, ex, loc in fn.cfg.exprs():
            for x in walk(ex):
                if x.get('k') == 'CXXNewExpr' and 'count' in x and const_of(x['count']) is None:
                    # the count must be bounded at every exported caller: look for the clamp in opn2_reserveBanks
                    bounded = False
                    why = ''
                    if fn.name.endswith('::reserve'):
                        rb = facts.fn('opn2_reserveBanks')
                        eng = Engine2(facts, res['field_ranges'], e2prog.MIN_SIZES, {})
                        vals = []
                        def hook(eng, e, st, vals=vals):
                            for y in calls_in(e):
                                if short(callee_name(y)) == 'reserve' and y.get('a'):
                                    vals.append(eng.ev(y['a'][0], st))
                        eng.value_hooks.append(hook)
                        eng.run(rb, record=True)
                        bounded = bool(vals) and all(v is not None and v.hi <= 2 * 128 * 128 for v in vals)
                        why = 'opn2_reserveBanks passes %s' % vals
                    out.append(Obl('C03.R4', fn.name, show(x), loc, 'discharged' if bounded else 'finding',
                                   why=('element count bounded by the key space: ' + why) if bounded else 'array-new with an unbounded API-derived element count: std::bad_alloc escapes through the C API (%s)' % why))
    return out


def r5(facts):
    out = []
    ir = facts.ir
    roots = ir.roots()
    par = ir.reach(roots)
    sites = []
    for f in ir.fns:
        if f['id'] not in par or not f['defined']:
            continue
        for s in f['special']:
            if s['callee'] in ('abort', '__assert_fail', '__cxa_throw', 'exit', '_ZSt9terminatev'):
                if '/usr/' in s['loc']:
                    continue
                sites.append((f, s))
    for f, s in sites:
        rel = s['loc'].split('/src/')[-1]
        dn = f['dname'].split('(')[0]
        vendored = '/chips/' in s['loc'] and re.search(r'/chips/[^/]+/', s['loc'])
        if s['callee'] == '__assert_fail':
            if vendored:
                st, why = 'assumed', 'assert inside a vendored emulator core'
            elif re.search(r'opn2_\w+$', dn) or dn.startswith('opn2_'):
                st, why = 'discharged', 'assert(play): the handle comes from opn2_init (API contract)'
            else:
                st, why = 'assumed', 'assert on an internal invariant (compiled out with NDEBUG)'
            out.append(Obl('C03.R5', dn, 'assert', s['loc'], st, why=why, nontrivial=False))
        elif s['callee'] == 'abort':
            # OPN2::reset default: abort() — guarded by R2 (every stored emulator id is validated, mask == factory)
            if dn.endswith('OPN2::reset'):
                out.append(Obl('C03.R5', dn, 'abort', s['loc'], 'discharged', why='factory default branch: unreachable because every stored emulator id passed the availability test and mask == factory (C03.R2)'))
            else:
                out.append(Obl('C03.R5', dn, 'abort', s['loc'], 'assumed' if vendored else 'finding', why='abort() reachable from the C API: ' + ' <- '.join(ir.path(par, f['id'])[-4:])))
        elif s['callee'] == '__cxa_throw':
            # pl_list insert throws std::bad_alloc when full: callers must guard by capacity or bounded key space
            out.append(Obl('C03.R5', dn, 'throw', s['loc'], 'discharged' if 'pl_list' in dn and throw_guarded(facts) else ('assumed' if vendored else 'finding'),
                           why='pl_list insert: every call site is guarded by a size() != capacity() test or a key space no larger than the capacity' if 'pl_list' in dn else 'exception reachable from the C API: ' + ' <- '.join(ir.path(par, f['id'])[-4:])))
    if len(sites) < 1:
        raise build.AnalysisBroken('C03.R5: no abort/throw site at all reachable (IR facts incomplete?)')
    # throwing accessors of the standard containers (the throw itself lives in libstdc++ and is invisible to the IR rule):
    # every at() needs a dominating presence / size test on the same container
    for fn in facts.all_fns():
        if fn.relfile() not in e2prog.CORE_FILES or fn.tree is None:
            continue
        for b, j, st in fn.cfg.stmts():
            for x in calls_in(st['s']):
                if short(callee_name(x)) == 'at' and x.get('obj') is not None and callee_name(x).startswith('std::'):
                    obj = show(x['obj'])
                    gf = guard_facts(fn, b, st, sd=single_defs(fn.d)) + guard_facts(fn, b, st)
                    okk = False
                    for f in gf:
                        body = f[1] if f[0] == 'truth' else ([f[2], f[3]] if f[0] == 'cmp' else [])
                        for y in walk(body):
                            if short(callee_name(y)) in ('find', 'count', 'size') and y.get('obj') is not None and show(y['obj']) == obj:
                                okk = True
                    out.append(Obl('C03.R5', fn.name, '%s.at(%s)' % (obj, show(x['a'][0]) if x.get('a') else ''), st['loc'], 'discharged' if okk else 'finding',
                                   why='dominated by a presence / size test on the same container' if okk else
                                   'at() throws std::out_of_range for a missing key and no test of the key dominates the call: the exception leaves the C API'))
    return out


_tg = {}


def throw_guarded(facts):
    """every call of a throwing pl_list insert (push_back / insert through find_or_create_user / activenotes insert) is guarded"""
    if facts.view in _tg:
        return _tg[facts.view]
    ok = True
    for fn in facts.all_fns():
        if not (fn.name.startswith('OPNMIDIplay::')):
            continue
        for b, j, st in fn.cfg.stmts():
            for x in calls_in(st['s']):
                cn = callee_name(x)
                if 'pl_list' in cn and short(cn) in ('push_back', 'push_front', 'insert'):
                    obj = x.get('obj')
                    base = short(strip(obj).get('n', '')) if obj is not None and strip(obj).get('k') == 'MemberExpr' else ''
                    gf = guard_facts(fn, b, st)
                    txt = ' '.join(fact_str(f) for f in gf)
                    guarded = has_room_fact(fn, gf)
                    if base == 'activenotes':
                        guarded = True      # key = note number <= 127, capacity 128 (checked by C04.R5)
                    if not guarded:
                        ok = False
    _tg[facts.view] = ok
    return ok


def r6(facts, res, file_pred):
    out = []
    names = set(res['fn_names'])
    for fn in facts.all_fns():
        if fn.name not in names or not file_pred(fn.relfile()) or fn.tree is None:
            continue
        loops = []
        def rec(t):
            if isinstance(t, dict):
                if t.get('k') in ('ForStmt', 'WhileStmt') and t.get('cond') is not None:
                    loops.append(t)
                for k2 in ('body', 'then', 'else', 'sub', 'init'):
                    v = t.get(k2)
                    if isinstance(v, list):
                        for y in v:
                            rec(y)
                    elif isinstance(v, dict):
                        rec(v)
        rec(fn.tree)
        for l in loops:
            c = strip(l['cond'])
            if c.get('k') != 'BinaryOperator' or c['op'] not in ('<', '<=', '!='):
                continue
            iv = strip(c['l'])
            bound = c['r']
            if iv.get('k') != 'DeclRefExpr' or not iv.get('t', {}).get('w') or iv.get('t', {}).get('f'):
                continue
            # only loops that advance iv
            adv = False
            for x in walk([l.get('inc'), l.get('body')]):
                if is_incdec(x) and strip(x['e']).get('id') == iv.get('id'):
                    adv = True
                ap = assign_parts(x)
                if ap and strip(ap[0]).get('id') == iv.get('id'):
                    adv = True
            if not adv:
                continue
            wiv = iv['t']['w']
            bt = strip(bound).get('t', {})
            cb = const_of(bound)
            if cb is not None:
                r = trange(iv['t'])
                ok = cb <= r.hi + (0 if c['op'] == '<' else -1) or c['op'] == '<' and cb <= r.hi + 1
                why = 'constant bound %d fits the %d-bit induction variable' % (cb, wiv)
                if c['op'] == '<' and cb > r.hi:
                    ok = False
            else:
                wb = bt.get('w', 0)
                ok = wiv >= wb
                why = 'induction variable (%d bit) at least as wide as the bound (%d bit)' % (wiv, wb)
            out.append(Obl('C03.R6', fn.name, 'loop ' + show(l['cond'])[:60], '%s:%s' % (fn.file, l.get('ln')), 'discharged' if ok else 'finding',
                           why=why if ok else 'the %d-bit induction variable %s can never reach a bound of %d bits: once the bound exceeds %d the loop never ends' % (wiv, short(iv['n']), bt.get('w', 0), (1 << wiv) - 1),
                           nontrivial=cb is None))
    return out



BUFSIZE_EXCLUDED = {'FileAndMemReader::read': 'the count is num * size elements; destination capacity is decided per call site by C01.R1c',
                    'CopySamplesTransformed': 'the count is in frames, the source holds two samples per frame; the addressing is decided by C13.R3',
                    'CopySamplesRaw': 'as CopySamplesTransformed'}


def r7(facts):
    from ..bufsize import BufSize
    out = []
    seen = set()
    n = 0
    for fn in facts.all_fns():
        if fn.relfile() not in e2prog.CORE_FILES or fn.tree is None or fn.name in seen or fn.name in BUFSIZE_EXCLUDED:
            continue
        pp = [p for p in fn.params if p['t'].get('p')]
        # the element count: the one size_t parameter next to the pointer(s) (by type: parameter names are the author's business)
        sz = [p for p in fn.params if not p['t'].get('p') and p['t'].get('w') == 64 and p['t'].get('u') and not p['t'].get('ref')]
        if not pp or len(sz) != 1:
            continue
        ids = {p['id'] for p in pp}
        if not any(x.get('k') == 'ArraySubscriptExpr' and strip(x['b']).get('k') == 'DeclRefExpr' and strip(x['b']).get('id') in ids for b, ex, loc in fn.cfg.exprs() for x in walk(ex)):
            continue
        seen.add(fn.name)
        bs = BufSize(fn, ids, sz[0]['id'])
        ob = bs.run()
        for (ln, txt), (ok, have, loc) in sorted(ob.items(), key=lambda kv: (kv[0][0] or 0, kv[0][1])):
            n += 1
            if bs.undecided:
                out.append(Obl('C03.R7', fn.name, txt, '%s:%s' % (fn.file, ln), 'assumed', why='not decided: ' + bs.undecided, nontrivial=False))
            else:
                out.append(Obl('C03.R7', fn.name, txt, '%s:%s' % (fn.file, ln), 'discharged' if ok else 'finding',
                               why=have if ok else 'the access is not proven below `%s`: %s — the caller\'s buffer is overrun by one element or more' % (sz[0]['n'], have)))
    if n < 20:
        raise build.AnalysisBroken('C03.R7: only %d (buffer, size) accesses found' % n)
    return out


def r8_scratch(facts):
    """chip wrappers (src/chips/*.cpp outside the vendored cores).  Anchor (use side): a pointer taken from a member buffer M is advanced
    by v, v = O.f(frames), O a rate-dependent member object (MameOPNA: the PSG resampler; f = calculateInternalSampleSize).  Then
    (a) every allocation of M in the class is `new T[.. O.f(buffer_size) ..]`: sized by the same method of the same object for the
        block length constant of the buffered chip base;
    (b) every re-creation / re-initialisation of O (assignment of O's member, a non-const method call on it other than f and
        interpolate) is followed, on every path, by the re-allocation of M;
    (c) the argument of the use-side call is the `frames` parameter of nativeGenerateN (<= buffer_size by the contract of
        OPNChipBaseBufferedT, C03.R3)."""
    out = []
    n = 0
    def local_init(fn, e):
        e = strip(e)
        if e is not None and e.get('k') == 'DeclRefExpr' and not e.get('parm'):
            for b, j, st in fn.cfg.stmts():
                if st['s'].get('k') == 'DeclStmt':
                    for v in st['s']['decls']:
                        if v['id'] == e.get('id') and v.get('init') is not None:
                            return strip(v['init'])
        return None
    def member_root(fn, e, depth=0):
        """the member (qualified name) an object expression stands for: `impl->psgrsm`, or a local initialised from it / from an assignment to it"""
        e = strip(e)
        if e is None or depth > 3:
            return None
        if e.get('k') == 'MemberExpr':
            return e.get('n')
        i = local_init(fn, e)
        if i is not None:
            ap = assign_parts(i)
            return member_root(fn, ap[0] if ap else i, depth + 1)
        return None
    by_class = collections.defaultdict(list)
    for fn in facts.all_fns():
        rf = fn.relfile()
        if rf.startswith('src/chips/') and rf.count('/') == 2 and fn.tree is not None and '::' in fn.name:
            by_class[(rf, fn.name.split('::')[0])].append(fn)
    for (rf, cls), fns in sorted(by_class.items()):
        uses = []       # (fn, loc, M, O, callee, arg)
        for fn in fns:
            for b, j, st in fn.cfg.stmts():
                for x in walk(st['s']):
                    if x.get('k') == 'BinaryOperator' and x.get('op') == '+' and (x.get('t') or {}).get('p'):
                        M = member_root(fn, x.get('l'))
                        v = local_init(fn, x.get('r')) or strip(x.get('r'))
                        if M is None or v is None or 'callee' not in v or v.get('obj') is None:
                            continue
                        O = member_root(fn, v['obj'])
                        if O is None or not M.startswith(cls) or not O.startswith(cls):
                            continue
                        uses.append((fn, st['loc'], M, O, callee_name(v), strip(v['a'][0]) if v.get('a') else None))
        for fn, loc, M, O, f, arg in uses:
            n += 1
            okc = arg is not None and arg.get('parm') and short(fn.name) == 'nativeGenerateN'
            out.append(Obl('C03.R8', fn.name, '%s + %s.%s(%s)' % (short(M), short(O), short(f), show(arg)[:20] if arg else ''), loc, 'discharged' if okc else 'finding',
                           why='offset computed for the frames parameter of nativeGenerateN (<= buffer_size)' if okc else
                           'the offset into %s is computed for a length that is not the frames parameter of nativeGenerateN' % short(M)))
            allocs = []
            for g in fns:
                for b2, j2, st2 in g.cfg.stmts():
                    for y in walk(st2['s']):
                        ap2 = assign_parts(y)
                        if ap2 and strip(ap2[0]).get('n') == M and strip(ap2[1]).get('count') is not None:
                            allocs.append((g, b2, j2, st2, strip(ap2[1])['count']))
            if not allocs:
                raise build.AnalysisBroken('C03.R8: no allocation of %s found in %s' % (M, cls))
            for g, b2, j2, st2, cnt in allocs:
                sc = [y for y in walk(cnt) if 'callee' in y and callee_name(y) == f and y.get('obj') is not None and member_root(g, y['obj']) == O]
                K = strip(sc[0]['a'][0]) if sc and sc[0].get('a') else None
                oka = K is not None and K.get('enumc') and 'buffer_size' in (K.get('n') or '')
                out.append(Obl('C03.R8', g.name, '%s = new[%s]' % (short(M), show(cnt)[:60]), st2['loc'], 'discharged' if oka else 'finding',
                               why='sized by %s.%s(buffer_size): the method and object that compute the per-block offset' % (short(O), short(f)) if oka else
                               '%s is advanced by %s.%s(frames), which depends on the chip / PCM rate, but its allocation is not sized by %s.%s(buffer_size): at another rate the offset runs past the buffer' % (short(M), short(O), short(f), short(O), short(f))))
            for g in fns:
                reinits = []
                for b2, j2, st2 in g.cfg.stmts():
                    for y in walk(st2['s']):
                        ap2 = assign_parts(y)
                        if ap2 and strip(ap2[0]).get('n') == O and strip(ap2[1]).get('k') == 'CXXNewExpr':
                            reinits.append((b2, j2, st2, 'assignment of %s' % short(O)))
                        if 'callee' in y and y.get('obj') is not None and member_root(g, y['obj']) == O and short(callee_name(y)) not in (short(f), 'interpolate'):
                            reinits.append((b2, j2, st2, '%s.%s()' % (short(O), short(callee_name(y)))))
                for b2, j2, st2, what in reinits:
                    ok = any(ag is g and ((ab == b2 and aj > j2) or (ab != b2 and ('b', ab) in (g.cfg.pdom().get(('b', b2)) or ()))) for ag, ab, aj, _, _ in allocs)
                    out.append(Obl('C03.R8', g.name, '%s then re-allocation of %s' % (what, short(M)), st2['loc'], 'discharged' if ok else 'finding',
                                   why='followed on every path by the allocation of %s' % short(M) if ok else
                                   '%s changes the rate parameters behind %s() but %s keeps the size computed for the previous parameters: at another chip / PCM rate the per-block offset %s(frames) runs past the buffer' % (what, short(f), short(M), short(f))))
    if n < 1 and facts.view in ('V0', 'V1'):
        raise build.AnalysisBroken('C03.R8: no member buffer advanced by a rate-dependent size found (expected MameOPNA::Impl::psgbuffer in nativeGenerateN)')
    if facts.view == 'V0':
        out += r8_consumer()
    return out


def r8_consumer():
    """(d) the consumer of that scratch buffer: LinearResampler::interpolate(src, nSamples, intrSize) gets planes of intrSize
    samples.  The sample under the read position, src[pan][floor(n * ratio)], exists by the definition of
    calculateInternalSampleSize (n < nSamples); a neighbour src[pan][i + k], k > 0, exists only if i + k < intrSize: with a
    down-sampling ratio below 1 (PCM-rate mode, sample rate above the PSG rate) the last position has no right neighbour."""
    from ..core import Facts
    out = []
    cf = Facts('CORES')
    n = 0
    for fn in cf.all_fns():
        if short(fn.name) != 'interpolate' or 'Linear' not in fn.name or fn.tree is None:
            continue
        size_par = fn.params[2]['id'] if len(fn.params) >= 3 else None
        src_par = fn.params[0]['id']
        for b, j, st in fn.cfg.stmts(conds=True):
            for x in walk(st['s']):
                if x.get('k') != 'ArraySubscriptExpr':
                    continue
                base = strip(x.get('b'))
                if not (base.get('k') == 'ArraySubscriptExpr' and strip(base.get('b')).get('id') == src_par):
                    continue
                idx = strip(x.get('i'))
                k = 0
                v = idx
                if idx.get('k') == 'BinaryOperator' and idx.get('op') == '+' and const_of(idx['r']) is not None:
                    k, v = const_of(idx['r']), strip(idx['l'])
                n += 1
                if k <= 0:
                    out.append(Obl('C03.R8', fn.name, 'src[pan][%s]' % show(idx)[:20], st['loc'], 'discharged',
                                   why='the sample under the read position: floor(n * ratio) < ceil(nSamples * ratio) = intrSize for n < nSamples', nontrivial=False))
                    continue
                ok = False
                for f in guard_facts(fn, b, st):
                    if f[0] != 'cmp' or f[1] not in ('<', '<='):
                        continue
                    l, r = strip(f[2]), strip(f[3])
                    if r.get('id') == size_par and l.get('k') == 'BinaryOperator' and l.get('op') == '+' and (const_of(l['r']) or 0) >= k + (1 if f[1] == '<=' else 0) \
                            and any(y.get('id') == v.get('id') for y in walk(l['l'])):
                        ok = True
                out.append(Obl('C03.R8', fn.name, 'src[pan][%s]' % show(idx)[:20], st['loc'], 'discharged' if ok else 'finding',
                               why='guarded by %s + %d < intrSize' % (show(v), k) if ok else
                               'the neighbour sample at %s is read without comparing the index with intrSize: for a down-sampling ratio below 1 (PCM-rate mode, sample rate above the PSG rate) the last read lies one element past the scratch buffer and lands in the audio' % show(idx)[:20]))
    if n < 3:
        raise build.AnalysisBroken('C03.R8: source reads of LinearResampler::interpolate not found (%d)' % n)
    return out


def r9_loop_jump(facts):
    """Tick(s) subtracts s from m_currentPosition.wait and calls processEvents until the wait is positive again; opn2_playFormat
    repeats Tick while it returns 0.  Both terminate because every processed row adds its delay to the wait.  A loop jump
    `m_currentPosition = <saved position>` would also take the saved wait back (the remainder recorded when the loop start was
    first reached): after a tick longer than the loop body the wait is reset to the same negative value on every pass and never
    becomes positive.  Rule: inside processEvents every such whole-position restore is followed, in the same block, by
    `m_currentPosition.wait = <row-begin copy>.wait`, the row-begin copy being a local initialised from m_currentPosition at entry.
    Exempt: m_trackBeginPosition (recorded before playback with wait == 0; never stored inside Tick / processEvents: checked)."""
    out = []
    fns = [f for f in facts.all_fns() if short(f.name) == 'processEvents' and f.tree is not None]
    if not fns:
        if facts.view in ('noSEQ',):
            return out
        raise build.AnalysisBroken('C03.R9: processEvents not found')
    n = 0
    jump_sources = set()
    for fn in fns:
        rowbegin = set()
        for b, j, st in fn.cfg.stmts():
            if st['s'].get('k') == 'DeclStmt':
                for v in st['s']['decls']:
                    i = v.get('init')
                    if i is not None and any(y.get('k') == 'MemberExpr' and short(y.get('n', '')) == 'm_currentPosition' for y in walk(i)) and \
                            not any(y.get('k') == 'MemberExpr' and short(y.get('n', '')) not in ('m_currentPosition',) for y in walk(i)):
                        rowbegin.add(v['id'])
        for b, j, st in fn.cfg.stmts():
            for x in walk(st['s']):
                ap = assign_parts(x)
                if not ap:
                    continue
                t = strip(ap[0])
                if t.get('k') == 'MemberExpr' and short(t['n']) == 'm_trackBeginPosition':
                    out.append(Obl('C03.R9', fn.name, 'store to m_trackBeginPosition during playback', st['loc'], 'finding',
                                   why='m_trackBeginPosition is exempt from the jump rule because it is recorded before playback (wait == 0)'))
                if not (t.get('k') == 'MemberExpr' and short(t['n']) == 'm_currentPosition' and 'Position' in ((t.get('t') or {}).get('s') or '')):
                    continue
                src = strip(ap[1])
                sname = short(src.get('n', '')) if src.get('k') == 'MemberExpr' else show(src)
                if sname == 'm_trackBeginPosition':
                    out.append(Obl('C03.R9', fn.name, 'jump to %s' % sname, st['loc'], 'discharged', why='recorded before playback: its wait is 0, never a negative remainder', nontrivial=False))
                    continue
                n += 1
                jump_sources.add(sname)
                ok = False
                for s2 in fn.cfg.blocks[b]['stmts'][j + 1:]:
                    ap2 = assign_parts(s2['s'])
                    if not ap2:
                        continue
                    l2, r2_ = strip(ap2[0]), strip(ap2[1])
                    if l2.get('k') == 'MemberExpr' and short(l2['n']) == 'wait' and strip(l2.get('b')).get('k') == 'MemberExpr' and short(strip(l2['b'])['n']) == 'm_currentPosition':
                        ok = r2_.get('k') == 'MemberExpr' and short(r2_['n']) == 'wait' and strip(r2_.get('b')).get('id') in rowbegin
                        if not ok and r2_.get('k') == 'DeclRefExpr' and not r2_.get('parm'):
                            # a local initialised with <row begin>.wait
                            for b3, j3, st3 in fn.cfg.stmts():
                                if st3['s'].get('k') == 'DeclStmt':
                                    for v in st3['s']['decls']:
                                        i3 = strip(v.get('init')) if v.get('init') is not None else None
                                        if v['id'] == r2_.get('id') and i3 is not None and i3.get('k') == 'MemberExpr' and short(i3['n']) == 'wait' and strip(i3.get('b')).get('id') in rowbegin:
                                            ok = True
                        break
                out.append(Obl('C03.R9', fn.name, 'jump to %s' % sname, st['loc'], 'discharged' if ok else 'finding',
                               why='followed by m_currentPosition.wait = <row begin>.wait: the owed time is kept' if ok else
                               'the jump takes the wait recorded at the loop start back: after a tick longer than the loop body (opn2_tickEvents, large tempo multiplier) every pass resets the wait to the same negative value, Tick returns 0 forever and opn2_play never returns'))
    # the global loop and the loop stack (whose infinite and counted jumps may share one statement)
    if n < 2 or len(jump_sources) < 2:
        raise build.AnalysisBroken('C03.R9: only %d loop jumps (%d distinct stored positions) found in processEvents (expected the global loop and the loop-stack jumps)' % (n, len(jump_sources)))
    return out


STDIO_STREAM_ARG = {'fwrite': 3, 'fread': 3, 'fseek': 0, 'ftell': 0, 'fclose': 0, 'fflush': 0, 'fputc': 1, 'fputs': 1, 'fprintf': 0, 'rewind': 0, 'fgetc': 0}


def r10_file_streams(facts):
    """the VGM dumper opens its output with fopen() in the constructor; the path may not be creatable (read-only directory,
    opn2_set_vgm_out_path), so the member is NULL for the life of the chip.  Every stdio call that receives a FILE* member assigned
    from fopen, directly or through a local helper taking the stream, must sit behind a test of the member (early return or
    enclosing if) in its own function."""
    out = []
    members = set()
    for fn in facts.all_fns():
        if not fn.relfile().startswith('src/') or fn.tree is None:
            continue
        for b, j, st in fn.cfg.stmts():
            for x in walk(st['s']):
                ap = assign_parts(x)
                if ap and strip(ap[0]).get('k') == 'MemberExpr' and any('callee' in y and short(callee_name(y)) == 'fopen' for y in walk(ap[1])):
                    members.add(strip(ap[0])['n'])
    if not members:
        raise build.AnalysisBroken('C03.R10: no FILE* member assigned from fopen found (expected VGMFileDumper::m_output, FileAndMemReader::m_fp)')
    n = 0
    for fn in facts.all_fns():
        if not fn.relfile().startswith('src/') or fn.tree is None:
            continue
        for b, j, st in fn.cfg.stmts(conds=True):
            for x in calls_in(st['s']):
                cn = short(callee_name(x))
                args = x.get('a', [])
                hit = None
                for a in args:
                    sa = strip(a)
                    if sa.get('k') == 'MemberExpr' and sa.get('n') in members:
                        hit = sa
                if hit is None:
                    continue
                if st['s'].get('k') in (None,) :
                    pass
                n += 1
                gf = guard_facts(fn, b, st)
                def is_null(r):
                    r = strip(r)
                    return const_of(r) == 0 or (r.get('k') or '') in ('GNUNullExpr', 'CXXNullPtrLiteralExpr') or show(r) in ('GNUNullExpr', 'NULL', 'nullptr')
                ok = any((f[0] == 'truth' and f[2] and strip(f[1]).get('n') == hit['n']) or
                         (f[0] == 'cmp' and f[1] == '!=' and strip(f[2]).get('n') == hit['n'] and is_null(f[3])) for f in gf)
                out.append(Obl('C03.R10', fn.name, '%s(.. %s ..)' % (cn, short(hit['n'])), st['loc'], 'discharged' if ok else 'finding',
                               why='dominated by a test of %s' % short(hit['n']) if ok else
                               '%s is NULL when the output file cannot be created (fopen failed; the assert is compiled out): %s() on a NULL stream crashes inside opn2_switchEmulator / opn2_close' % (short(hit['n']), cn)))
    # the stream may legitimately be NULL: asserting it turns an environment condition into an abort (visible in the views that
    # keep assert(): the thorough tier analyses -UNDEBUG)
    for fn in facts.all_fns():
        if not fn.relfile().startswith('src/') or fn.tree is None:
            continue
        for b, j, st in fn.cfg.stmts(conds=True):
            for x in walk(st['s']):
                if isinstance(x, dict) and x.get('k') == 'ConditionalOperator' and any(isinstance(y, dict) and 'callee' in y and 'assert' in (y.get('callee') or '') for y in walk([x.get('l'), x.get('r')])):
                    if any(isinstance(y, dict) and y.get('k') == 'MemberExpr' and y.get('n') in members for y in walk(x.get('cnd'))):
                        out.append(Obl('C03.R10', fn.name, 'assert(%s)' % show(x.get('cnd'))[:40], st['loc'], 'finding',
                                       why='the stream is NULL whenever the file cannot be created: asserting it aborts the host in builds without NDEBUG'))
    if n < (5 if facts.view == 'noVGM' else 10):     # without the dumper only the stream of FileAndMemReader is left
        raise build.AnalysisBroken('C03.R10: only %d stdio calls on FILE* members found' % n)
    return out


def r5_null_strings(facts):
    """std::string(const char *) throws std::logic_error for a null pointer.  An exported function that turns one of its `const char *`
    parameters into a std::string (usually implicitly, by calling a method that takes `const std::string &`) must test the parameter
    first: nothing catches the exception below the C API."""
    out = []
    n = 0
    for fn in facts.all_fns():
        if not fn.name.startswith('opn2_') or fn.tree is None or not fn.d.get('extern_c', True):
            continue
        cps = {p['id']: p for p in fn.params if (p.get('t') or {}).get('p') and 'char' in ((p.get('t') or {}).get('pt') or '')}
        if not cps:
            continue
        for b, j, st in fn.cfg.stmts(conds=True):
            for x in walk(st['s']):
                if not (isinstance(x, dict) and x.get('ctor') and 'basic_string' in (x.get('callee') or '') and x.get('a')):
                    continue
                a0 = strip(x['a'][0])
                if a0.get('k') != 'DeclRefExpr' or a0.get('id') not in cps:
                    continue
                n += 1
                gf = guard_facts(fn, b, st)
                ok = any((f[0] == 'truth' and f[2] and strip(f[1]).get('id') == a0['id']) or
                         (f[0] == 'cmp' and f[1] == '!=' and strip(f[2]).get('id') == a0['id'] and const_of(f[3]) == 0) for f in gf)
                out.append(Obl('C03.R5', fn.name, 'std::string(%s)' % short(a0.get('n', '')), st['loc'], 'discharged' if ok else 'finding',
                               why='the parameter is tested against NULL first' if ok else
                               'the `const char *` parameter %s is converted to a std::string without a NULL test: a null pointer throws std::logic_error through the C API (abort)' % short(a0.get('n', ''))))
    if n < 2 and facts.view in ('V0', 'V1'):
        raise build.AnalysisBroken('C03.R5: string conversions of char* parameters in the API not found (%d)' % n)
    return out


def r11_null_params(facts):
    """the C API is called with whatever pointers the host has: NULL is a representable argument value.  Inside the exported functions
    of src/opnmidi.cpp every `p->f`, `*p`, `p[i]` on a pointer parameter is dominated by a test of that parameter (early return)."""
    out = []
    n = 0
    for fn in facts.all_fns():
        if not fn.name.startswith('opn2_') or fn.tree is None or fn.relfile() != 'src/opnmidi.cpp':
            continue
        pps = {p['id']: p for p in fn.params if (p.get('t') or {}).get('p')}
        if not pps:
            continue
        seen = set()
        for b, j, st in fn.cfg.stmts(conds=True):
            for x in walk(st['s']):
                tgt = None
                if x.get('k') == 'UnaryOperator' and x.get('op') == '*':
                    tgt = strip(x.get('e'))
                elif x.get('k') == 'MemberExpr' and x.get('arrow'):
                    tgt = strip(x.get('b'))
                elif x.get('k') == 'ArraySubscriptExpr':
                    tgt = strip(x.get('b'))
                if not (isinstance(tgt, dict) and tgt.get('k') == 'DeclRefExpr' and tgt.get('id') in pps):
                    continue
                key = (tgt['id'], st['loc'])
                if key in seen:
                    continue
                seen.add(key)
                n += 1
                ok = False
                for g in guard_facts(fn, b, st):
                    if g[0] == 'truth' and g[2] and strip(g[1]).get('id') == tgt['id']:
                        ok = True
                    if g[0] == 'cmp' and g[1] == '!=' and strip(g[2]).get('id') == tgt['id']:
                        r = strip(g[3])
                        if const_of(r) == 0 or (r.get('k') or '') in ('GNUNullExpr', 'CXXNullPtrLiteralExpr') or show(r) in ('GNUNullExpr', 'NULL', 'nullptr'):
                            ok = True
                out.append(Obl('C03.R11', fn.name, 'dereference of parameter %s' % short(tgt.get('n', '')), st['loc'], 'discharged' if ok else 'finding',
                               why='tested against NULL first' if ok else
                               'the pointer parameter %s is dereferenced without a NULL test (the sibling parameters of this call are tested): a null argument crashes inside the library' % short(tgt.get('n', '')), nontrivial=False))
    if n < 60:
        raise build.AnalysisBroken('C03.R11: only %d parameter dereferences found in the API' % n)
    return out


def r12_chip_loops(facts):
    """OPN2::m_chips holds m_numChips entries; m_setup.numChips is the *requested* count, and the two differ whenever the synth locks
    or clamps the setup (EA-MUS files force 2 chips, the VGM dumper clamps to 2).  A loop variable that subscripts m_chips must be
    bounded by the live count: m_numChips of the synth, m_chips.size(), or a local defined as one of them."""
    out = []
    n = 0
    for fn in facts.all_fns():
        if fn.tree is None or not fn.relfile().startswith('src/opnmidi'):
            continue
        inits = {}
        for b, j, st in fn.cfg.stmts():
            if st['s'].get('k') == 'DeclStmt':
                for v in st['s']['decls']:
                    if v.get('init') is not None:
                        inits.setdefault(v['id'], []).append(v['init'])
            for x in walk(st['s']):
                ap = assign_parts(x)
                if ap and strip(ap[0]).get('k') == 'DeclRefExpr':
                    inits.setdefault(strip(ap[0])['id'], []).append(ap[1])
        def live(e, depth=0):
            for y in walk(e):
                if y.get('k') == 'MemberExpr' and short(y.get('n', '')) == 'm_numChips':
                    return True
                if 'callee' in y and short(callee_name(y)) == 'size' and y.get('obj') is not None and mentions(y['obj'], member_named('m_chips')):
                    return True
                if depth < 2 and y.get('k') == 'DeclRefExpr' and not y.get('parm') and y.get('id') in inits and all(live(d, depth + 1) for d in inits[y['id']]):
                    return True
            return False
        for b, j, st in fn.cfg.stmts(conds=True):
            for x in walk(st['s']):
                if not (x.get('k') == 'CXXOperatorCallExpr' and 'operator[]' in (x.get('callee') or '') and x.get('a') and
                        strip(x['a'][0]).get('k') == 'MemberExpr' and short(strip(x['a'][0])['n']) == 'm_chips'):
                    continue
                idx = strip(x['a'][1])
                if const_of(idx) is not None or idx.get('k') != 'DeclRefExpr' or idx.get('parm'):
                    continue        # constants and checked parameters are C03.R3 obligations
                n += 1
                bound = None
                for f in guard_facts(fn, b, st):
                    if f[0] == 'cmp' and f[1] == '<' and strip(f[2]).get('id') == idx.get('id'):
                        bound = f[3]
                ok = bound is not None and live(bound)
                out.append(Obl('C03.R12', fn.name, 'm_chips[%s]' % show(idx), st['loc'], 'discharged' if ok else 'finding',
                               why='%s < %s, the live chip count' % (show(idx), show(bound)) if ok else
                               'the loop over the chips is bounded by %s, not by the live chip count: when the synth runs fewer chips than requested (EA-MUS files, VGM dumper) m_chips is read past its end' % (show(bound) if bound is not None else 'nothing')))
    if n < 3:
        raise build.AnalysisBroken('C03.R12: loops over m_chips not found (%d)' % n)
    return out


def r4_rate_divisors(facts):
    """two divisors derived from the sample rate: (a) the fixed-point resampling ratio of the chip base (rate * 144 << frac / clock) is
    the step of `while(samplecnt >= ratio)` and a divisor: after it is computed it is clamped to at least 1 in every instantiation of
    setupResampler; (b) Setup::PCM_RATE is the divisor of every period of the audio loops: opn2_init constructs the player only for
    a positive rate."""
    out = []
    n = 0
    for fn in facts.all_fns():
        if short(fn.name) != 'setupResampler' or fn.tree is None:
            continue
        for b, j, st in fn.cfg.stmts():
            ap = assign_parts(st['s'])
            if not (ap and strip(ap[0]).get('k') == 'MemberExpr' and short(strip(ap[0])['n']) == 'm_rateratio' and any(isinstance(y, dict) and y.get('k') == 'BinaryOperator' and y.get('op') == '/' for y in walk(ap[1]))):
                continue
            n += 1
            ok = False
            for b2, blk in fn.cfg.blocks.items():
                if blk.get('term') == 'IfStmt' and 'cond' in blk and (b2 == b or fn.cfg.block_dominates(b, b2)):
                    for f in literals(blk['cond'], True):
                        nn = cmp_norm(f) if f[0] == 'cmp' else None
                        if nn and mentions(nn[1], member_named('m_rateratio')) and ((nn[0] == '<' and nn[2] >= 1) or (nn[0] == '<=' and nn[2] >= 0) or (nn[0] == '==' and nn[2] == 0)):
                            tb = fn.cfg.blocks[blk['succ'][0]]
                            for s2 in tb['stmts']:
                                ap2 = assign_parts(s2['s'])
                                if ap2 and short(strip(ap2[0]).get('n', '')) == 'm_rateratio' and (const_of(ap2[1]) or 0) >= 1:
                                    ok = True
            out.append(Obl('C03.R4', fn.name, 'resampling ratio >= 1', st['loc'], 'discharged' if ok else 'finding',
                           why='clamped to at least 1 after the division' if ok else
                           'm_rateratio is the quotient rate * 144 * 2^frac / clock, which is 0 for rates of a few Hz: resampledGenerate() then loops for ever on `samplecnt >= 0` and divides by 0'))
    if n < 1:
        raise build.AnalysisBroken('C03.R4: computation of m_rateratio not found in setupResampler')
    oi = facts.fn('opn2_init')
    par = oi.params[0]['id']
    m = 0
    for b, j, st in oi.cfg.stmts():
        for x in walk(st['s']):
            if isinstance(x, dict) and (x.get('k') == 'CXXNewExpr' or (x.get('ctor') and 'OPNMIDIplay' in (x.get('callee') or ''))):
                if not any(isinstance(y, dict) and y.get('id') == par for y in walk(x)):
                    continue
                m += 1
                ok = any(f[0] == 'cmp' and strip(f[2]).get('id') == par and ((f[1] == '>' and (const_of(f[3]) or 0) >= 0) or (f[1] == '>=' and (const_of(f[3]) or 0) >= 1)) for f in guard_facts(oi, b, st))
                out.append(Obl('C03.R4', oi.name, 'player constructed for a positive rate', st['loc'], 'discharged' if ok else 'finding',
                               why='dominated by sample_rate > 0' if ok else
                               'the player is constructed for any sample_rate: with 0 every period of the audio loops is k / 0, the frame count computed from it is garbage and opn2_generate() writes outside its buffers'))
                break
    if m < 1:
        raise build.AnalysisBroken('C03.R4: construction of the player in opn2_init not found')
    return out
