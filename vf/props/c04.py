"""C04 — voice-allocation bookkeeping stays consistent after every call.

R1  last user leaving => key-off test (shared with C05.R1).
R2  note removal keeps the counters: activenotes.erase is preceded by cleanupNote on the same iterator or sits on the blank-note
    path; counter updates sit next to the field transition they count, and the transition is stored before anything that can
    run cleanupNote.
R3  a note's instrument is &m_emptyInstrument or an entry &bank.ins[k] with k in [0,127].
R4  evacuation moves both sides: the four updates all happen, and the capacity and duplicate-location tests dominate the push_back.
R5  throwing inserts are guarded (capacity test, or key space no larger than the capacity).
"""
from ..core import *
from ..logic import *
from ..e2 import *
from .. import e2prog
from ..report import Obl, Rule
from .. import build
from .voices import erase_keyoff_obligations, users_calls, key_release_calls

PROP = 'C04'
RULES = [
    Rule('C04.R1', 'removal of a chip-channel user is followed on every path by the last-user key-off test', 3),
    Rule('C04.R2', 'note removal and the gliding/extended counters move together with the fields they count', 6),
    Rule('C04.R3', 'note instruments are the empty instrument or one of the 128 entries of a bank', 4),
    Rule('C04.R4', 'evacuation updates note and both chip channels, guarded by capacity and duplicate tests', 5),
    Rule('C04.R5', 'inserts into the fixed-capacity lists cannot overflow; a full user list (find_or_create_user answers end) makes the note drop the chip channel', 5),
    Rule('C04.R7', 'OPN2::noteOn reaches its key-on write for every tone: no return before it except under a guard that cannot hold', 2),
    Rule('C04.R6', 'the chip-channel table is rebuilt only after every sounding note has been dropped', 3),
]
EXPLANATION = ('CFG pairing rules (dominance, statement order, post-dominance with contradiction pruning) over the voice bookkeeping functions of '
               'OPNMIDIplay, plus interval obligations (E2) for the bank-entry index and the active-note key. Decides the pairing discipline that keeps '
               'the two-container invariant on every path; does not decide the invariant itself over histories.')
ASSUMPTIONS = ['find_if / erase of pl_list behave as specified (unit-tested container)', 'a note number is the key of the active-note list (capacity 128)']


def views(tier):
    return ['V0', 'V1'] if tier == 'quick' else ['V0', 'V1', 'noSEQ']


def analyse(facts, tier):
    obls = erase_keyoff_obligations(facts, 'C04.R1')
    res = e2prog.analyse_program(facts)

    # ---- R2a: activenotes.erase(i)
    n = 0
    for fn in facts.all_fns():
        if not fn.name.startswith('OPNMIDIplay::'):
            continue
        for b, j, st in fn.cfg.stmts():
            for x in calls_in(st['s']):
                if short(callee_name(x)) == 'erase' and x.get('obj') is not None and strip(x['obj']).get('k') == 'MemberExpr' and short(strip(x['obj'])['n']) == 'activenotes':
                    n += 1
                    it = show(x['a'][0]) if x.get('a') else ''
                    ok = False
                    why = ''
                    for b2, j2, st2 in fn.cfg.stmts():
                        for y in calls_in(st2['s']):
                            if short(callee_name(y)) == 'cleanupNote' and y.get('a') and show(y['a'][0]) == it and \
                                    ((b2 == b and j2 < j) or (b2 != b and fn.cfg.block_dominates(b2, b))):
                                ok, why = True, 'cleanupNote(%s) dominates the erase' % it
                    if not ok:
                        gf = guard_facts(fn, b, st)
                        if any(f[0] == 'truth' and f[2] and mentions(f[1], member_named('isBlank')) for f in gf):
                            ok, why = True, 'blank note: it was never counted (isBlank path)'
                    obls.append(Obl('C04.R2', fn.name, 'activenotes.erase(%s)' % it, st['loc'], 'discharged' if ok else 'finding',
                                    why=why if ok else 'a note is erased without cleanupNote: the gliding / extended-lifetime counters keep counting it'))
    if n < 2:
        raise build.AnalysisBroken('C04.R2: activenotes.erase sites not found')
    # ---- R2b: counter updates next to the transition they count
    for fn in facts.all_fns():
        if not (fn.name.startswith('OPNMIDIplay::')):
            continue
        for b, j, st in fn.cfg.stmts():
            for x in walk(st['s']):
                if not (is_incdec(x) and strip(x['e']).get('k') == 'MemberExpr' and short(strip(x['e'])['n']) in ('gliding_note_count', 'extended_note_count')):
                    continue
                cnt = short(strip(x['e'])['n'])
                fld = 'glideRate' if cnt.startswith('gliding') else 'ttl'
                gf = expand_locals(fn, guard_facts(fn, b, st))      # `const bool wasGliding = (glideRate != HUGE_VAL); if(wasGliding)`
                tests = any(mentions(f[1] if f[0] == 'truth' else [f[2], f[3]] if f[0] == 'cmp' else [], lambda y: y.get('k') == 'MemberExpr' and short(y['n']) == fld) or
                            mentions(f[1] if f[0] == 'truth' else [f[2], f[3]] if f[0] == 'cmp' else [], lambda y: y.get('k') == 'DeclRefExpr' and short(y['n']) == fld) for f in gf)
                # or a store to the field in the same block region (the transition itself)
                stores = []
                for b2, j2, st2 in fn.cfg.stmts():
                    for y in walk(st2['s']):
                        ap = assign_parts(y)
                        if ap and strip(ap[0]).get('k') == 'MemberExpr' and short(strip(ap[0])['n']) == fld:
                            stores.append((b2, j2, st2))
                near = [s_ for s_ in stores if s_[0] == b or fn.cfg.block_dominates(s_[0], b) or fn.cfg.block_dominates(b, s_[0])]
                ok = tests or bool(near)
                obls.append(Obl('C04.R2', fn.name, '%s%s' % (x['op'], cnt), st['loc'], 'discharged' if ok else 'finding',
                                why='counter update is tied to the %s transition (%s)' % (fld, 'guard' if tests else 'store in the same region') if ok else
                                'counter changes without the %s transition it counts' % fld))
                # a direct decrement must store the new field value before anything that can run cleanupNote
                if x['op'] == '--' and not fn.name.endswith('cleanupNote'):
                    calls_after = []
                    for b2, j2, st2 in fn.cfg.stmts():
                        for y in calls_in(st2['s']):
                            if short(callee_name(y)) in ('noteUpdate', 'noteUpdateAll', 'noteOff', 'cleanupNote') and fn.cfg.stmt_before((b, j), (b2, j2)):
                                calls_after.append((b2, j2, st2, short(callee_name(y))))
                    for cb, cj, cst, cn in calls_after:
                        # some store of the field must lie on every path before the call: dominate it
                        okc = any((sb == cb and sj < cj) or (sb != cb and fn.cfg.block_dominates(sb, cb)) for sb, sj, sst in stores)
                        obls.append(Obl('C04.R2', fn.name, '%s stored before %s' % (fld, cn), cst['loc'], 'discharged' if okc else 'finding',
                                        why='the new %s is stored before the call that may clean the note up' % fld if okc else
                                        '%s is still stale when %s runs cleanupNote: the counter is decremented twice for one note' % (fld, cn)))

    # ---- R2c: the converse direction — a store that takes a note out of (or into) the counted set moves the counter in the same block.
    # realTime_NoteOn initialises the fields of the note it has just created (the preceding implicit note-off cleaned any old one up).
    HUGE = ('HUGE_VAL', '__builtin_huge_val', 'inf')
    for fn in facts.all_fns():
        if not fn.name.startswith('OPNMIDIplay::') or fn.name.endswith('::realTime_NoteOn') or fn.d.get('ctor'):
            continue
        for b, j, st in fn.cfg.stmts():
            for x in walk(st['s']):
                ap = assign_parts(x)
                if not (ap and strip(ap[0]).get('k') == 'MemberExpr' and short(strip(ap[0])['n']) == 'glideRate'):
                    continue
                rhs = show(ap[1])
                leaving = any(h in rhs for h in HUGE) or (strip(ap[1]).get('fc') is not None and strip(ap[1]).get('fc') > 1e300)
                want = '--' if leaving else '++'
                blk = fn.cfg.blocks[b]
                same = any(is_incdec(y) and y['op'] == want and strip(y['e']).get('k') == 'MemberExpr' and short(strip(y['e'])['n']) == 'gliding_note_count'
                           for st2 in blk['stmts'] for y in walk(st2['s']))
                obls.append(Obl('C04.R2', fn.name, 'glideRate = %s' % rhs[:30], st['loc'], 'discharged' if same else 'finding',
                                why='%sgliding_note_count in the same block' % want if same else
                                'the note %s the set of gliding notes but gliding_note_count is not %s: the counter no longer equals the number of gliding notes (cleanupNote will not correct it)' % (
                                    'leaves' if leaving else 'enters', 'decremented' if leaving else 'incremented')))

    # ---- R3
    non = facts.fn('OPNMIDIplay::realTime_NoteOn')
    # the instrument pointer of the note being started: the local that is stored into NoteInfo::ains
    ains_id = None
    for b, j, st in non.cfg.stmts():
        for x in walk(st['s']):
            ap = assign_parts_raw(x)
            if ap and strip(ap[0]).get('k') == 'MemberExpr' and short(strip(ap[0])['n']) == 'ains' and 'NoteInfo' in strip(ap[0])['n'] and strip(ap[1]).get('k') == 'DeclRefExpr' and not strip(ap[1]).get('parm'):
                ains_id = strip(ap[1])['id']
    if ains_id is None:
        raise build.AnalysisBroken('C04.R3: the local stored into NoteInfo::ains not found in realTime_NoteOn')
    for b, j, st in non.cfg.stmts():
        for x in walk(st['s']):
            ap = assign_parts(x)
            tgt = rhs = None
            if ap and strip(ap[0]).get('k') == 'DeclRefExpr' and strip(ap[0]).get('id') == ains_id:
                rhs = strip(ap[1])
            if x.get('k') == 'DeclStmt':
                for v in x['decls']:
                    if v['id'] == ains_id and 'init' in v:
                        rhs = strip(v['init'])
            if rhs is None:
                continue
            # a pointer local that holds the answer of a local look-up helper stands for what the helper returns: NULL (tested by the
            # caller before the store) or the address of a bank entry whose index obligation lies in the helper
            via = None
            if rhs.get('k') == 'DeclRefExpr' and not rhs.get('parm'):
                d0 = single_defs(non.d).get(rhs.get('id'))
                c0 = strip(d0) if d0 is not None else None
                if c0 is not None and 'callee' in c0:
                    for cf in facts.fns.get(callee_name(c0), [])[:1]:
                        if is_local_helper(non, cf):
                            rets = [strip(st2['s'].get('e')) for b2, j2, st2 in cf.cfg.returns() if st2['s'].get('e') is not None]
                            addr = [r_ for r_ in rets if r_.get('k') == 'UnaryOperator' and r_.get('op') == '&']
                            nulls = [r_ for r_ in rets if const_of(r_) == 0 or r_.get('k') in ('CXXNullPtrLiteralExpr', 'GNUNullExpr')]
                            tested = any(f_[0] == 'truth' and f_[2] and strip(f_[1]).get('id') == rhs.get('id') for f_ in guard_facts(non, b, st))
                            if addr and len(addr) + len(nulls) == len(rets) and (tested or not nulls):
                                via = (cf, addr)
            if via is not None:
                cf, addr = via
                okv = True
                idxs = []
                for r_ in addr:
                    t = strip(r_['e'])
                    if not (t.get('k') == 'ArraySubscriptExpr' and t.get('ext') == 128 and mentions(t['b'], member_named('ins'))):
                        okv = False
                        continue
                    o = [o for o in res['obl'] if o.fn == cf.name and o.ln == t.get('ln') and o.construct == show(t)]
                    okv = okv and bool(o) and all(q.ok for q in o)
                    idxs += [str(q.idx) for q in o]
                obls.append(Obl('C04.R3', non.name, 'ains = %s (answer of %s)' % (show(rhs), short(cf.name)), st['loc'], 'discharged' if okv else 'finding',
                                why='the helper returns NULL (tested) or &bank->ins[i] with i in %s' % ', '.join(idxs) if okv else 'the helper can return a pointer that is not one of the 128 entries of a bank'))
                continue
            if rhs.get('k') == 'UnaryOperator' and rhs['op'] == '&':
                t = strip(rhs['e'])
                if t.get('k') == 'ArraySubscriptExpr' and t.get('ext') == 128 and mentions(t['b'], member_named('ins')):
                    o = [o for o in res['obl'] if o.fn == non.name and o.ln == t.get('ln') and o.construct == show(t)]
                    ok = bool(o) and all(q.ok for q in o)
                    obls.append(Obl('C04.R3', non.name, 'ains = &' + show(t), st['loc'], 'discharged' if ok else 'finding',
                                    why='entry index %s within [0,127]' % (o[0].idx if o else '?') if ok else 'instrument pointer can leave the 128 entries of the bank (index %s)' % (o[0].idx if o else '?')))
                elif mentions(t, lambda y: short(y.get('n', '')) == 'm_emptyInstrument'):
                    obls.append(Obl('C04.R3', non.name, 'ains = &m_emptyInstrument', st['loc'], 'discharged', why='the empty instrument', nontrivial=False))
                else:
                    obls.append(Obl('C04.R3', non.name, 'ains = ' + show(rhs), st['loc'], 'finding', why='instrument pointer is neither the empty instrument nor a bank entry'))
            else:
                obls.append(Obl('C04.R3', non.name, 'ains = ' + show(rhs), st['loc'], 'finding', why='instrument pointer is neither the empty instrument nor a bank entry'))

    # ---- R4 evacuation
    ke = facts.fn('OPNMIDIplay::killOrEvacuate')
    pb = list(users_calls(ke, 'push_back'))
    er = list(users_calls(ke, 'erase'))
    pe = [(b, j, st) for b, j, st in ke.cfg.stmts() for x in calls_in(st['s']) if short(callee_name(x)) == 'phys_erase']
    pc = [(b, j, st) for b, j, st in ke.cfg.stmts() for x in calls_in(st['s']) if short(callee_name(x)) == 'phys_ensure_find_or_create']
    if not pb or not er:
        raise build.AnalysisBroken('C04.R4: evacuation push_back / erase not found in killOrEvacuate')
    b0 = pb[0][0]
    same = all(x[0] == b0 for x in er[:1] + pe[:1] + pc[:1]) and pe and pc
    obls.append(Obl('C04.R4', ke.name, 'all four updates on the evacuation path', pb[0][2]['loc'], 'discharged' if same else 'finding',
                    why='phys_erase(from), phys_ensure_find_or_create(to), users.push_back(to), users.erase(from) in one block' if same else
                    'evacuation does not update the note and both chip channels together'))
    gf = guard_facts(ke, b0, pb[0][2])
    txt = ' '.join(fact_str(f) for f in gf)
    cap = has_room_fact(ke, gf)
    dup = any((f[0] == 'truth' and f[2] and short(callee_name(strip(f[1]))) == 'is_end' and mentions(f[1], lambda y: short(callee_name(y)) == 'find_user')) for f in gf)
    obls.append(Obl('C04.R4', ke.name, 'target capacity test dominates push_back', pb[0][2]['loc'], 'discharged' if cap else 'finding',
                    why='users.size() != users.capacity()' if cap else 'push_back into a possibly full user list (pl_list::insert throws)'))
    obls.append(Obl('C04.R4', ke.name, 'duplicate-location test dominates push_back', pb[0][2]['loc'], 'discharged' if dup else 'finding',
                    why='find_user(jd.loc).is_end() on the target channel' if dup else 'the moved location may already be listed on the target channel: a user appears twice'))
    # source and destination are the right ones
    a_to = show(pb[0][3]['obj']) if pb[0][3].get('obj') else ''
    a_from = show(er[0][3]['obj']) if er[0][3].get('obj') else ''
    okd = 'from_channel' in a_from and 'from_channel' not in a_to
    obls.append(Obl('C04.R4', ke.name, 'erase from the source, push to the target', er[0][2]['loc'], 'discharged' if okd else 'finding', why='%s / %s' % (a_from, a_to)))
    skip_self = any(f[0] == 'cmp' and f[1] == '!=' and 'from_channel' in fact_str(f) for f in gf)
    obls.append(Obl('C04.R4', ke.name, 'target differs from the source', pb[0][2]['loc'], 'discharged' if skip_self else 'finding', why='c != from_channel' if skip_self else 'a note may be evacuated onto its own channel'))

    # ---- R5b: find_or_create_user() answers end() when the user list of the chip channel is full.  The caller holds (or is about
    # to record) the note's reference to that chip channel: on every path on which the answer may be end(), the reference is dropped
    # (phys_erase / phys_erase_at) before the function returns - otherwise the note refers to a channel that does not list it.
    nfc = 0
    for fn in facts.all_fns():
        if not fn.name.startswith('OPNMIDIplay::') or fn.tree is None or '::OpnChannel::' in fn.name:
            continue
        for b, j, st in fn.cfg.stmts():
            res = None
            if st['s'].get('k') == 'DeclStmt':
                for v in st['s']['decls']:
                    if v.get('init') is not None and any(short(callee_name(y)) == 'find_or_create_user' for y in calls_in(v['init'])):
                        res = v['id']
            if res is None:
                continue
            nfc += 1
            cfg = fn.cfg
            def drops(bid, from_idx=0):
                return any(short(callee_name(y)) in ('phys_erase_at', 'phys_erase') for s2 in cfg.blocks[bid]['stmts'][from_idx:] for y in calls_in(s2['s']))
            bad_path = False
            seen = set()
            work = [(b, j + 1)]
            while work:
                bid, idx = work.pop()
                if (bid, idx > 0) in seen:
                    continue
                seen.add((bid, idx > 0))
                if drops(bid, idx):
                    continue
                if bid == cfg.exit:
                    bad_path = True
                    break
                for k_, sx in enumerate(cfg.blocks[bid]['succ']):
                    if sx is None:
                        continue
                    e = cfg.edge_info(bid, k_)
                    if e and e['kind'] == 'branch':
                        # the edge on which the answer is known not to be end(): the user is listed, nothing to drop
                        fs = literals(e['cond'], e['pol'])
                        if any(f[0] == 'truth' and not f[2] and short(callee_name(strip(f[1]))) == 'is_end' and strip(strip(f[1]).get('obj') or {}).get('id') == res for f in fs):
                            continue
                    work.append((sx, 0))
            obls.append(Obl('C04.R5', fn.name, 'find_or_create_user answered end()', st['loc'], 'finding' if bad_path else 'discharged',
                            why='a path on which the user list was full reaches the end of the function with the note still referring to the chip channel: the note is keyed on there '
                                'but the channel does not list it (its note-off finds no user and the voice is never released by the bookkeeping)' if bad_path else
                                'on every path that may carry end() the note drops the chip channel (phys_erase_at)'))
    if nfc < 2:
        raise build.AnalysisBroken('C04.R5: call sites of find_or_create_user not found (%d)' % nfc)
    # ---- R5
    for fn in facts.all_fns():
        if not fn.name.startswith('OPNMIDIplay::'):
            continue        # the container's own copy operations copy a list of equal capacity
        for b, j, st in fn.cfg.stmts():
            for x in calls_in(st['s']):
                cn = callee_name(x)
                if 'pl_list' in cn and short(cn) in ('push_back', 'push_front', 'insert'):
                    obj = strip(x.get('obj') or {})
                    base = short(obj.get('n', '')) if obj.get('k') == 'MemberExpr' else show(obj)
                    gf = guard_facts(fn, b, st)
                    txt = ' '.join(fact_str(f) for f in gf)
                    if base == 'activenotes':
                        # one entry per key: inserted only when find_activenote(note) found nothing; key <= 127 by the clamp in note-on
                        found_none = any(f[0] == 'truth' and f[2] and short(callee_name(strip(f[1]))) == 'is_end' for f in gf)
                        obls.append(Obl('C04.R5', fn.name, 'activenotes.insert', st['loc'], 'discharged' if found_none else 'finding',
                                        why='inserted only when the key is not present; 128 keys, capacity 128' if found_none else 'insert is not conditional on the key being absent'))
                    else:
                        ok = has_room_fact(fn, gf)
                        obls.append(Obl('C04.R5', fn.name, '%s.%s' % (base, short(cn)), st['loc'], 'discharged' if ok else 'finding',
                                        why='guarded by size() != capacity()' if ok else 'insert into a fixed-capacity list without a capacity test: std::bad_alloc escapes the C API'))
    # ---- R6: m_chipChannels.clear() only after the notes that reference the old table are gone
    def drops_notes(fn, b, j, depth=0):
        """a call of realTime_panic / resetMIDI (or clearing the MIDI channel table) executes before (b, j) on every path"""
        for b2, j2, st2 in fn.cfg.stmts():
            for y in calls_in(st2['s']):
                sn = short(callee_name(y))
                hit = sn in ('realTime_panic', 'resetMIDI') or (sn == 'clear' and y.get('obj') is not None and mentions(y['obj'], member_named('m_midiChannels')))
                if not hit and depth == 0:
                    # a helper whose successful return is dominated by such a call (LoadMIDI_pre: `if(!LoadMIDI_pre()) return false;`)
                    for cf in facts.fns.get(callee_name(y), []):
                        rets = [(rb, rj) for rb, rj, rst in cf.cfg.returns() if const_of(rst['s'].get('e')) not in (0,)]
                        if rets and all(drops_notes(cf, rb, rj, 1) for rb, rj in rets):
                            hit = True
                if hit and ((b2 == b and j2 < j) or (b2 != b and fn.cfg.block_dominates(b2, b))):
                    return short(callee_name(y))
        return None
    from .voices import callers_of
    n6 = 0
    for fn in facts.all_fns():
        if not fn.name.startswith('OPNMIDIplay::'):
            continue
        for b, j, st in fn.cfg.stmts():
            for x in calls_in(st['s']):
                if short(callee_name(x)) == 'clear' and x.get('obj') is not None and strip(x['obj']).get('k') == 'MemberExpr' and short(strip(x['obj'])['n']) == 'm_chipChannels':
                    n6 += 1
                    d = drops_notes(fn, b, j)
                    if d:
                        obls.append(Obl('C04.R6', fn.name, 'm_chipChannels.clear()', st['loc'], 'discharged', why='preceded by %s on every path' % d))
                        continue
                    if fn.d.get('ctor'):
                        continue
                    cs = callers_of(facts, fn)
                    for g, cb, cj, cst in cs:
                        if g.d.get('ctor'):
                            obls.append(Obl('C04.R6', g.name, 'call ' + short(fn.name), cst['loc'], 'discharged', why='constructor: no note exists yet', nontrivial=False))
                            continue
                        d = drops_notes(g, cb, cj)
                        obls.append(Obl('C04.R6', g.name, 'call ' + short(fn.name), cst['loc'], 'discharged' if d else 'finding',
                                        why='preceded by %s on every path' % d if d else
                                        '%s rebuilds the chip-channel table while notes may be sounding: active notes keep references to chip channels whose user lists were just cleared' % short(fn.name)))
    if n6 < 2:
        raise build.AnalysisBroken('C04.R6: m_chipChannels.clear() sites not found')
    # the discharge above relies on realTime_panic() leaving no active note: panic() must key off immediately (a deferred
    # key-off of a short drum note keeps the note, and its chip-channel references, alive across the rebuild)
    pn = facts.fn('OPNMIDIplay::panic')
    forced = [1 if f_ else 0 for x, keyargs, f_ in key_release_calls(pn, pn.tree, facts.enums.get('Upd_Off'))]
    okf = bool(forced) and all(v == 1 for v in forced)
    obls.append(Obl('C04.R6', pn.name, 'panic drops every active note at once', pn.loc, 'discharged' if okf else 'finding',
                    why='noteOff(channel, key, forceNow = true) for every channel and key' if okf else
                    'panic() defers the key-off of drum notes younger than the minimal drum time: such a note survives realTime_panic() and keeps references into the chip-channel table that is rebuilt next (use-after-free in find_user when its time runs out)'))
    # ... and on resetMIDI() forgetting every note: the MIDI channel table is cleared (or panic runs) on every path through it
    rm = facts.fn('OPNMIDIplay::resetMIDI')
    hit = None
    for b2, j2, st2 in rm.cfg.stmts():
        for y in calls_in(st2['s']):
            sn = short(callee_name(y))
            if (sn == 'clear' and y.get('obj') is not None and mentions(y['obj'], member_named('m_midiChannels'))) or sn == 'realTime_panic':
                if b2 == rm.cfg.entry or ('b', b2) in (rm.cfg.pdom().get(('b', rm.cfg.entry)) or ()):
                    hit = st2['loc']
    obls.append(Obl('C04.R6', rm.name, 'resetMIDI forgets every sounding note', hit or rm.loc, 'discharged' if hit else 'finding',
                    why='m_midiChannels.clear() on every path: the active-note lists go with the channels' if hit else
                    'resetMIDI() keeps the MIDIchannel objects (and their activenotes) alive: its callers rebuild the chip-channel table right after it, so the surviving notes refer to chip channels that no longer list them'))
    obls += r7_keyon(facts)
    obls += r6_panic_all_keys(facts)
    obls += r3_bank_map_after_panic(facts)
    return obls


def r7_keyon(facts):
    """the user of a chip channel is registered by the caller before OPN2::noteOn runs: if noteOn returns without the key-on write
    (register 0x28, 0xF0 | channel) the channel has a user and is keyed off.  Every return that is not dominated by the key-on write
    must sit under `v < 0` with v the result of a function that returns std::exp(..) (never negative: the guard cannot hold)."""
    out = []
    fn = facts.fn('OPN2::noteOn')
    kon = None
    for b, j, st in fn.cfg.stmts():
        for x in calls_in(st['s']):
            a = x.get('a', [])
            if short(callee_name(x)) == 'writeRegI' and len(a) >= 4 and const_of(a[2]) == 0x28 and any(const_of(y) == 0xF0 for y in walk(a[3])):
                kon = (b, j, st)
    if kon is None:
        raise build.AnalysisBroken('C04.R7: key-on write (register 0x28, 0xF0 | channel) of OPN2::noteOn not found')
    out.append(Obl('C04.R7', fn.name, 'key-on write', kon[2]['loc'], 'discharged', why='writeRegI(chip, 0, 0x28, 0xF0 + channel)', nontrivial=False))
    def nonneg_source(v):
        v = strip(v)
        if v.get('k') != 'DeclRefExpr':
            return False
        defs = []
        for b, j, st in fn.cfg.stmts():
            if st['s'].get('k') == 'DeclStmt':
                defs += [d['init'] for d in st['s']['decls'] if d['id'] == v.get('id') and d.get('init') is not None]
            for x in walk(st['s']):
                ap = assign_parts(x)
                if ap and strip(ap[0]).get('id') == v.get('id'):
                    defs.append(ap[1])
        # the guard is evaluated right after the first definition; later clamps only lower the value
        first = strip(defs[0]) if defs else None
        if first is None or 'callee' not in first:
            return False
        for cf in facts.fns.get(callee_name(first), []):
            rets = [strip(rst['s'].get('e')) for rb, rj, rst in cf.cfg.returns()]
            if rets and all(r is not None and 'callee' in r and short(callee_name(r)) == 'exp' for r in rets):
                return True
        return False
    # exits: explicit returns and the fall-through end
    exits = []
    for i, blk in fn.cfg.blocks.items():
        if fn.cfg.exit in [x for x in blk['succ'] if x is not None] and i != fn.cfg.exit:
            exits.append(i)
    for i in exits:
        blk = fn.cfg.blocks[i]
        if i == kon[0] or fn.cfg.block_dominates(kon[0], i):
            continue
        last = blk['stmts'][-1] if blk['stmts'] else None
        loc = last['loc'] if last else fn.loc
        gf = guard_facts(fn, i, last) if last else []
        ok = False
        for f in gf:
            if f[0] != 'cmp' or len(gf) != 1:
                continue
            def zero(e):
                e = strip(e)
                while e is not None and (e.get('k') or '').endswith('CastExpr'):
                    e = strip(e.get('e'))
                return e is not None and (const_of(e) == 0 or e.get('fc') == 0)
            if (f[1] == '<' and zero(f[3]) and nonneg_source(f[2])) or (f[1] == '>' and zero(f[2]) and nonneg_source(f[3])):
                ok = True
        out.append(Obl('C04.R7', fn.name, 'return before the key-on write', loc, 'discharged' if ok else 'finding',
                       why='guard %s cannot hold: the value is an exponential' % ' ; '.join(fact_str(f) for f in gf) if ok else
                       'OPN2::noteOn returns under [%s] without writing the key-on: the caller has already registered the user, so the chip channel has a user and stays keyed off' % ' ; '.join(fact_str(f) for f in gf)[:120]))
    return out


def r6_panic_all_keys(facts):
    """C04.R6 discharges every rebuild of the chip-channel table with "realTime_panic() ran first".  That needs panic() to reach every
    key: its key loop starts at 0 and runs while key < 128 (a loop that stops at 126 leaves key 127 sounding across the rebuild)."""
    out = []
    pn = facts.fn('OPNMIDIplay::panic')
    n = 0
    for t in walk(pn.tree):
        if not (isinstance(t, dict) and t.get('k') == 'ForStmt' and t.get('cond') is not None):
            continue
        c = strip(t['cond'])
        if not (c.get('k') == 'BinaryOperator' and c.get('op') in ('<', '<=') and const_of(c.get('r')) is not None):
            continue
        iv = strip(c['l'])
        uses_as_key = False
        for x, keyargs, forced in key_release_calls(pn, t.get('body'), facts.enums.get('Upd_Off')):
            if any(strip(a).get('id') == iv.get('id') for a in keyargs[:1]):
                uses_as_key = True
        if not uses_as_key:
            continue
        n += 1
        bound = const_of(c['r'])
        ok = (c['op'] == '<' and bound == 128) or (c['op'] == '<=' and bound == 127)
        out.append(Obl('C04.R6', pn.name, 'panic reaches every key: %s' % show(c), '%s:%s' % (pn.file, t.get('ln')), 'discharged' if ok else 'finding',
                       why='keys 0..127' if ok else 'the key loop of panic() stops before key 127: that note survives realTime_panic() and keeps its references into the chip-channel table that is rebuilt next'))
    if n < 1:
        raise build.AnalysisBroken('C04.R6: key loop of panic() not found')
    return out


def r3_bank_map_after_panic(facts):
    """note instruments point into the bank map (C04.R3).  LoadBank() may empty the map only after the notes that point into it were
    dropped: m_insBanks.clear() is dominated by realTime_panic() - which also puts it behind every failing return of the parser, so a
    rejected file leaves the old bank and the sounding notes alone."""
    out = []
    n = 0
    for fn in facts.all_fns():
        if not fn.name.startswith('OPNMIDIplay::') or fn.tree is None:
            continue
        for b, j, st in fn.cfg.stmts():
            for x in calls_in(st['s']):
                if short(callee_name(x)) == 'clear' and x.get('obj') is not None and strip(x['obj']).get('k') == 'MemberExpr' and short(strip(x['obj'])['n']) == 'm_insBanks':
                    n += 1
                    ok = False
                    for b2, j2, st2 in fn.cfg.stmts():
                        if any(short(callee_name(y)) == 'realTime_panic' for y in calls_in(st2['s'])) and ((b2 == b and j2 < j) or (b2 != b and fn.cfg.block_dominates(b2, b))):
                            ok = True
                    out.append(Obl('C04.R3', fn.name, 'm_insBanks.clear()', st['loc'], 'discharged' if ok else 'finding',
                                   why='realTime_panic() runs first on every path: no note refers to a bank entry any more' if ok else
                                   'the bank map is emptied while notes may be sounding (and before the new file is known to be valid): their instrument pointers refer to freed bank slots'))
    if n < 1:
        raise build.AnalysisBroken('C04.R3: m_insBanks.clear() not found')
    return out
