"""C08 — seeking equals playing up to the target, minus the sounding notes (thin claim).

R1  opn2_positionSeek: a negative target returns before any effect; realTime_panic() precedes the sequencer seek; the seek's
    return value becomes the next delay and the carry is cleared; panic keys off all notes first and then releases every held one.
R2  replay under seek skips note-ons only: the isSeek flag is used solely in a conjunction with `type == T_NOTEON`.
R3  flag restore pairing: after looping is switched off for the replay every return of seek() restores the saved value.
R4  a target beyond the song length rewinds and returns 0; the replay starts from the rewound position.
R5  loop state after a seek: the loop counts as passed only for targets at or after the loop END time.
R6  reset completeness: every MIDIchannel field stored (transitively) by a channel-event handler is stored (transitively) by
    realTime_ResetState, the song-begin hook a replay starts with; otherwise the value of a later part of the song survives a backward seek.
"""
from ..core import *
from ..logic import *
from ..report import Obl, Rule
from .. import build
from . import gating

PROP = 'C08'
RULES = [
    Rule('C08.R1', 'seek entry point screens negative targets, silences notes first, stores the remaining wait and clears the carry', 5),
    Rule('C08.R2', 'the replay skips note-on events only', 2),
    Rule('C08.R3', 'every return of the sequencer seek restores the loop-enabled flag', 1),
    Rule('C08.R4', 'targets beyond the end rewind and return 0; replay starts from the rewound position', 3),
    Rule('C08.R5', 'the loop is treated as passed only for targets at or beyond the loop end', 1),
    Rule('C08.R6', 'the state reset that precedes the replay restores every channel field a channel event can change', 20),
    Rule('C08.R8', 'Tick moves the reported position and the pending wait by the same, tempo-scaled step (seek stores the position in song seconds)', 2),
    Rule('C08.R7', 'rewind() restores every sequencer member that playback changes', 4),
]
EXPLANATION = ('CFG order / dominance rules over opn2_positionSeek, BW_MidiSequencer::seek and processEvents. Thin claim: necessary conditions of "seek equals '
               'linear playback"; equality of position, controller state and subsequent events is not decided.')
ASSUMPTIONS = ['processEvents(true) replays controller events exactly like processEvents(false) apart from the skip that R2 pins down']
SEQ = 'OpnMidiSequencer'


def views(tier):
    return ['V0'] if tier == 'quick' else ['V0', 'V1']


def analyse(facts, tier):
    obls = []
    if not facts.fns.get(SEQ + '::seek'):
        raise build.AnalysisBroken('C08: sequencer not compiled in this view')
    ps = facts.fn('opn2_positionSeek')
    E = facts.enums
    sec = ps.params[1]['id']
    order = []
    for b, j, st, s_, owner, bind in with_helpers(facts, ps):
        if owner is ps:
            for x in calls_in(s_):
                sn = short(callee_name(x))
                if sn in ('realTime_panic', 'seek'):
                    order.append((sn, b, j, st))
        for x in walk(s_):
            ap = assign_parts(x)
            if ap and strip(ap[0]).get('k') == 'MemberExpr' and short(strip(ap[0])['n']) in ('delay', 'carry'):
                order.append(('store ' + short(strip(ap[0])['n']), b, j, st, subst(ap[1], bind)))     # also through a helper that receives the value
    names = [o[0] for o in order]
    # negative screen dominates everything
    eff = [o for o in order]
    neg_ok = bool(eff) and all(any(f[0] == 'cmp' and strip(f[2]).get('id') == sec and f[1] == '>=' and (f[3].get('fc') == 0.0 or const_of(f[3]) == 0) for f in guard_facts(ps, o[1], o[3])) for o in eff)
    obls.append(Obl('C08.R1', ps.name, 'negative target is ignored', ps.loc, 'discharged' if neg_ok else 'finding', why='every effect is dominated by seconds >= 0' if neg_ok else 'a negative target can reach an effect (%s)' % names))
    ok = 'realTime_panic' in names and 'seek' in names and names.index('realTime_panic') < names.index('seek')
    obls.append(Obl('C08.R1', ps.name, 'panic before seek', ps.loc, 'discharged' if ok else 'finding', why='realTime_panic() precedes m_sequencer->seek()' if ok else 'notes are not silenced before the replay (%s)' % names))
    d = [o for o in order if o[0] == 'store delay']
    sd_ps = single_defs(ps.d)
    if d:
        d = [d[0][:4] + (subst(d[0][4], sd_ps),)] + d[1:]       # the value may pass through a local that names it
    ok = bool(d) and short(callee_name(strip(d[0][4]))) == 'seek' and strip(strip(d[0][4])['a'][0]).get('id') == sec
    obls.append(Obl('C08.R1', ps.name, 'remaining wait becomes the next delay', d[0][3]['loc'] if d else ps.loc, 'discharged' if ok else 'finding', why='m_setup.delay = seek(seconds, mindelay)' if ok else 'the value returned by seek() is not stored as the next delay'))
    c = [o for o in order if o[0] == 'store carry']
    ok = bool(c) and (c[0][4].get('fc') == 0.0 or const_of(c[0][4]) == 0)
    obls.append(Obl('C08.R1', ps.name, 'carry cleared', c[0][3]['loc'] if c else ps.loc, 'discharged' if ok else 'finding', why='m_setup.carry = 0.0' if ok else 'the sample carry is not cleared'))
    rp = facts.fn('OPNMIDIplay::realTime_panic')
    seq = []
    for b, j, st in rp.cfg.stmts():
        for x in calls_in(st['s']):
            if short(callee_name(x)) == 'panic':
                seq.append('panic')
            if short(callee_name(x)) == 'killSustainingNotes' and const_of(x['a'][0]) == -1 and const_of(x['a'][2]) == E.get('Sustain_ANY'):
                seq.append('kill')
    ok = seq == ['panic', 'kill']
    obls.append(Obl('C08.R1', rp.name, 'note-offs first, then release of held notes', rp.loc, 'discharged' if ok else 'finding',
                    why='panic(); killSustainingNotes(-1, -1, Sustain_ANY)' if ok else 'order %s: note-offs issued while a pedal is down turn keys into pedal-held voices after the release sweep already ran' % seq))

    # ---- R2
    pe = facts.fn(SEQ + '::processEvents')
    isk = pe.params[0]['id']
    uses = []
    for b, ex, loc in pe.cfg.exprs():
        for x in walk(ex):
            if x.get('k') == 'DeclRefExpr' and x.get('id') == isk:
                uses.append((b, ex, loc))
    # the flag is only ever tested (never stored, passed on or computed with) ...
    in_conds = 0
    def count_conds(t):
        nonlocal in_conds
        if isinstance(t, dict):
            if t.get('k') in ('IfStmt', 'WhileStmt', 'ForStmt', 'DoStmt') and t.get('cond') is not None:
                in_conds += sum(1 for y in walk(t['cond']) if y.get('k') == 'DeclRefExpr' and y.get('id') == isk)
            for k2 in ('body', 'then', 'else', 'sub', 'init'):
                v = t.get(k2)
                if isinstance(v, (dict, list)):
                    count_conds(v)
        elif isinstance(t, list):
            for y in t:
                count_conds(y)
    count_conds(pe.tree)
    total_refs = sum(1 for y in walk(pe.tree) if isinstance(y, dict) and y.get('k') == 'DeclRefExpr' and y.get('id') == isk)
    only = total_refs == in_conds and in_conds >= 1
    # ... and what it decides is exactly "a note-on is skipped while seeking": whatever the spelling (one condition, nested ifs), a
    # statement that runs only when the flag is set is the `continue` of a note-on event, nothing runs only when it is clear, and the
    # statements behind the skip carry at most the negation of (flag && note-on)
    def about_flag(f):
        body = [f[1]] if f[0] == 'truth' else ([f[2], f[3]] if f[0] == 'cmp' else [])
        return any(isinstance(y, dict) and y.get('id') == isk for y in walk(body))
    def is_noteon(f, neg=False):
        return f[0] == 'cmp' and f[1] == ('!=' if neg else '==') and const_of(f[3]) == E.get('T_NOTEON') and mentions(f[2], member_named('type'))
    okc = True
    seen = 0
    bad = None
    guarded = [(node, g) for node, g in pe.jump_guards()] + [(None, g) for g in pe.tree_guards().values()]
    for node, g in guarded:
        fs = facts_of_guards(g)
        for f in fs:
            if f[0] == 'or':
                if any(about_flag(l) for alt in f[1] for l in alt):
                    alts = f[1]
                    exact = len(alts) == 2 and all(len(a) == 1 for a in alts) and \
                        any(a[0][0] == 'truth' and not a[0][2] and about_flag(a[0]) for a in alts) and any(is_noteon(a[0], neg=True) for a in alts)
                    if not exact:
                        okc, bad = False, fact_str(f)
            elif about_flag(f):
                if f[0] == 'truth' and f[2]:
                    is_skip = node is not None and node.get('k') == 'ContinueStmt' and any(is_noteon(f2) for f2 in fs)
                    if is_skip:
                        seen += 1
                    else:
                        okc, bad = False, 'a statement other than the skip of a note-on runs only while seeking'
                else:
                    okc, bad = False, 'a statement runs only when not seeking (%s)' % fact_str(f)
    obls.append(Obl('C08.R2', pe.name, 'isSeek && type == T_NOTEON', pe.loc, 'discharged' if (okc and seen >= 1 and only) else 'finding',
                    why='the seek flag is only tested, and the only thing it decides is the skip of note-on events (%d skip)' % seen if (okc and seen >= 1 and only) else
                    'the seek flag gates something else than note-on events (%s)' % (bad or ('no skip of note-ons found' if seen < 1 else 'the flag is used outside conditions'))))
    # the skipped branch is a `continue` of the event loop, handleEvent follows otherwise
    he_after = any(short(callee_name(x)) == 'handleEvent' for b, j, st in pe.cfg.stmts() for x in calls_in(st['s']))
    obls.append(Obl('C08.R2', pe.name, 'all other events are handled during the replay', pe.loc, 'discharged' if he_after else 'finding', why='handleEvent is called for every event that is not skipped'))

    # ---- R3
    sk = facts.fn(SEQ + '::seek')
    clear = restore = None
    saved_id = None
    for b, j, st in sk.cfg.stmts():
        if st['s'].get('k') == 'DeclStmt':
            for v in st['s']['decls']:
                if 'init' in v and strip(v['init']).get('k') == 'MemberExpr' and short(strip(v['init'])['n']) == 'm_loopEnabled':
                    saved_id = v['id']
    stores = []
    for b, j, st in sk.cfg.stmts():
        for x in walk(st['s']):
            ap = assign_parts(x)
            if ap and strip(ap[0]).get('k') == 'MemberExpr' and short(strip(ap[0])['n']) == 'm_loopEnabled':
                stores.append((b, j, st, 'restore' if strip(ap[1]).get('id') == saved_id and saved_id is not None else ('clear' if const_of(ap[1]) == 0 else 'other')))
    clears = [s_ for s_ in stores if s_[3] == 'clear']
    restores = [s_ for s_ in stores if s_[3] == 'restore']
    if not clears or saved_id is None:
        raise build.AnalysisBroken('C08.R3: save / clear of m_loopEnabled not found in seek()')
    cb, cj = clears[0][0], clears[0][1]
    for b, j, st in sk.cfg.returns():
        if not sk.cfg.stmt_before((cb, cj), (b, j)):
            continue
        ok = any(((rb == b and rj < j) or (rb != b and sk.cfg.block_dominates(rb, b))) and sk.cfg.stmt_before((cb, cj), (rb, rj)) for rb, rj, rst, kind in restores)
        obls.append(Obl('C08.R3', sk.name, show(st['s']), st['loc'], 'discharged' if ok else 'finding',
                        why='m_loopEnabled = saved value dominates this return' if ok else 'this return leaves looping switched off: the user\'s loop setting is lost after a seek'))

    # ---- R4
    first_rewind = None
    beyond = None
    for b, j, st in sk.cfg.stmts():
        for x in calls_in(st['s']):
            if short(callee_name(x)) == 'rewind':
                gf = guard_facts(sk, b, st)
                if any(f[0] == 'cmp' and f[1] == '>' and 'm_fullSongTimeLength' in fact_str(f) for f in gf):
                    beyond = (b, j, st)
                elif first_rewind is None and not any('m_atEnd' in fact_str(f) for f in gf):
                    first_rewind = (b, j, st)
    ok = beyond is not None and any(rb == beyond[0] and (rst['s'].get('e') or {}).get('fc') == 0.0 or (rb != beyond[0] and False) for rb, rj, rst in sk.cfg.returns() if rb == beyond[0] or sk.cfg.block_dominates(beyond[0], rb))
    obls.append(Obl('C08.R4', sk.name, 'target beyond the end', beyond[2]['loc'] if beyond else sk.loc, 'discharged' if ok else 'finding', why='seconds > m_fullSongTimeLength: rewind(); return 0.0' if ok else 'a target beyond the song end does not rewind and return 0'))
    loop_blocks = [bid for bid, blk in sk.cfg.blocks.items() if blk.get('term') == 'WhileStmt']
    ok = first_rewind is not None and loop_blocks and all(sk.cfg.block_dominates(first_rewind[0], lb) for lb in loop_blocks)
    obls.append(Obl('C08.R4', sk.name, 'replay starts from the beginning', first_rewind[2]['loc'] if first_rewind else sk.loc, 'discharged' if ok else 'finding', why='rewind() dominates the replay loop' if ok else 'the replay loop is not preceded by rewind()'))
    calls_pe = any(short(callee_name(x)) == 'processEvents' and const_of(x['a'][0]) == 1 for b, j, st in sk.cfg.stmts() for x in calls_in(st['s']))
    obls.append(Obl('C08.R4', sk.name, 'replay runs processEvents(true)', sk.loc, 'discharged' if calls_pe else 'finding', why='isSeek = true'))

    # ---- R5
    tb = None
    for b, j, st in sk.cfg.stmts():
        for x in walk(st['s']):
            ap = assign_parts(x)
            if ap and strip(ap[0]).get('k') == 'MemberExpr' and short(strip(ap[0])['n']) == 'temporaryBroken':
                tb = (strip(ap[1]), st['loc'])
    # the value says "the target lies at or behind the loop end": it implies `target >= m_loopEndTime`, and it is false whenever
    # m_loopEndTime holds the place holder it has in a song without a (valid) loop end (the negative constant the sequencer stores
    # into it: every target is >= -1.0, and a loop marked as passed makes the next song end jump back without counting the pass)
    def num_of(e):
        e = strip(e)
        c = const_of(e)
        return c if c is not None else (e.get('fc') if isinstance(e, dict) else None)       # folded floating constant
    sentinels = set()
    for f_ in facts.all_fns():
        if f_.tree is None or 'Sequencer' not in f_.name:
            continue
        for x in walk(f_.tree):
            ap = assign_parts(x) if isinstance(x, dict) else None
            if ap and ap[2] == '=' and strip(ap[0]).get('k') == 'MemberExpr' and short(strip(ap[0])['n']) == 'm_loopEndTime' and num_of(ap[1]) is not None:
                sentinels.add(num_of(ap[1]))
    if not sentinels:
        raise build.AnalysisBroken('C08.R5: the place holder stored into m_loopEndTime (no loop end) not found')
    lits = literals(tb[0], True) if tb is not None else []
    def is_end(e):
        e = strip(e)
        return e.get('k') == 'MemberExpr' and short(e['n']) == 'm_loopEndTime'
    def is_target(e):
        return strip(e).get('id') == sk.params[0]['id']
    behind = any(f[0] == 'cmp' and ((f[1] in ('>=', '>') and is_target(f[2]) and is_end(f[3])) or (f[1] in ('<=', '<') and is_end(f[2]) and is_target(f[3]))) for f in lits)
    def excludes(c):
        import operator
        ops = {'>=': operator.ge, '>': operator.gt, '<': operator.lt, '<=': operator.le, '==': operator.eq, '!=': operator.ne}
        for f in lits:
            if f[0] != 'cmp':
                continue
            for op_, e_, c_ in ((f[1], f[2], num_of(f[3])), (SWAP[f[1]], f[3], num_of(f[2]))):
                if is_end(e_) and isinstance(c_, (int, float)) and op_ in ops and not ops[op_](c, c_):
                    return True
        return False
    open_for = sorted(c for c in sentinels if not excludes(c))
    ok = tb is not None and behind and not open_for
    obls.append(Obl('C08.R5', sk.name, 'temporaryBroken = a loop end exists and target >= loop end', tb[1] if tb else sk.loc, 'discharged' if ok else 'finding',
                    why=show(tb[0]) if ok else
                    ('the loop is marked as passed by `%s`, which also holds when m_loopEndTime is the place holder %s of a song without a loop end: after any seek the next song end jumps back without counting the pass, the song plays once more than requested' % (show(tb[0]), open_for[0])
                     if tb is not None and behind else
                     'loop is marked as passed by %s: a target inside the loop makes the next loop end jump to the song start' % (show(tb[0]) if tb else 'nothing'))))
    obls += r6(facts)
    obls += r7(facts)
    obls += r1b_audio(facts)
    obls += r8_tick_units(facts)
    return obls



EVENT_HANDLERS = ('realTime_Controller', 'realTime_PatchChange', 'realTime_PitchBend', 'realTime_BankChangeLSB', 'realTime_BankChangeMSB', 'realTime_BankChange',
                  'realTime_ChannelAfterTouch', 'realTime_NoteAfterTouch')


def channel_stores(facts, fn, depth=0, seen=None):
    """MIDIchannel fields stored by fn or by the OPNMIDIplay / MIDIchannel methods it calls (NoteInfo members are per-note state, not channel state)"""
    seen = seen if seen is not None else set()
    out = {}
    if fn.name in seen:
        return out
    seen.add(fn.name)
    for b, j, st in fn.cfg.stmts():
        for x in walk(st['s']):
            ap = assign_parts(x)
            tgt = ap[0] if ap else (x['e'] if is_incdec(x) else None)
            if tgt is not None:
                t = strip(tgt)
                while isinstance(t, dict) and t.get('k') == 'ArraySubscriptExpr':
                    t = strip(t['b'])
                if isinstance(t, dict) and t.get('k') == 'MemberExpr' and 'MIDIchannel::' in t['n'] and 'NoteInfo' not in t['n']:
                    out.setdefault(short(t['n']), st['loc'])
            if short(callee_name(x)) in ('memset', 'memcpy') and x.get('a'):
                for y in walk(x['a'][0]):
                    if y.get('k') == 'MemberExpr' and 'MIDIchannel::' in y['n'] and 'NoteInfo' not in y['n']:
                        out.setdefault(short(y['n']), st['loc'])
            cn = callee_name(x)
            if cn and depth < 3 and cn in facts.fns and ('MIDIchannel::' in cn and 'NoteInfo' not in cn or (depth == 0 and cn.startswith('OPNMIDIplay::') and short(cn) in ('setRPN', 'updatePortamento'))):
                for k2, v2 in channel_stores(facts, facts.fns[cn][0], depth + 1, seen).items():
                    out.setdefault(k2, v2)
    return out


def r6(facts):
    out = []
    written = {}
    for h in EVENT_HANDLERS:
        for fn in facts.fns.get('OPNMIDIplay::' + h, []):
            for fld, loc in channel_stores(facts, fn).items():
                written.setdefault(fld, (h, loc))
    rs = facts.fn('OPNMIDIplay::realTime_ResetState')
    reset = channel_stores(facts, rs)
    if len(written) < 20:
        raise build.AnalysisBroken('C08.R6: only %d channel fields found to be written by the event handlers' % len(written))
    # the song-begin hook is wired to realTime_ResetState
    sb = [f for f in facts.all_fns() if f.name == 'rtSongBegin']
    def reaches_reset(fn, depth=0):
        # on every path: the call (or a callee that itself always reaches it) sits in a block that post-dominates the entry
        for b, j, st in fn.cfg.stmts():
            if not (b == fn.cfg.entry or ('b', b) in (fn.cfg.pdom().get(('b', fn.cfg.entry)) or ())):
                continue
            for x in calls_in(st['s']):
                cn = callee_name(x)
                if short(cn) == 'realTime_ResetState':
                    return True
                if depth < 2 and cn in facts.fns and cn.startswith('OPNMIDIplay::') and reaches_reset(facts.fns[cn][0], depth + 1):
                    return True
        return False
    wired = bool(sb) and reaches_reset(sb[0])
    out.append(Obl('C08.R6', 'rtSongBegin', 'song-begin hook resets the synthesizer state', sb[0].loc if sb else rs.loc, 'discharged' if wired else 'finding',
                   why='reaches realTime_ResetState() on every path' if wired else 'the song-begin hook does not reach realTime_ResetState'))
    out += r6_player_members(facts, sb[0] if sb else None)
    out += r6_hook_not_gated(facts)
    for fld, (h, loc) in sorted(written.items()):
        ok = fld in reset
        out.append(Obl('C08.R6', rs.name, 'channel field ' + fld, rs.loc, 'discharged' if ok else 'finding',
                       why='written by %s, restored by the reset' % h if ok else
                       '%s stores MIDIchannel::%s (%s) but the reset that precedes a replay never restores it: after a backward seek the channel keeps the value from later in the song' % (h, fld, loc.rsplit('/', 1)[-1])))
    return out



REWIND_EXEMPT = {'m_loopBeginPosition': 'set again when playback passes the loop start; it is only read after that point'}


def seq_member_stores(facts, fn, depth=0, seen=None):
    """direct members (m_*) of the sequencer that fn stores to, assigns through, or mutates by a member call, following sequencer methods"""
    seen = seen if seen is not None else set()
    out = {}
    if fn.name in seen:
        return out
    seen.add(fn.name)
    for b, j, st in fn.cfg.stmts():
        for x in walk(st['s']):
            ap = assign_parts(x)
            tgt = ap[0] if ap else (x['e'] if is_incdec(x) else None)
            roots = []
            if tgt is not None:
                roots.append(tgt)
            cn = callee_name(x)
            if x.get('obj') is not None and cn and not short(cn).startswith(('get', 'is', 'size', 'empty', 'begin', 'end', 'value', 'find', 'c_str', 'data')) and 'const' not in (x.get('quals') or ''):
                if short(cn) in ('reset', 'clear', 'stackUp', 'stackDown', 'push_back', 'resize', 'swap', 'assign', 'erase'):
                    roots.append(x['obj'])
            for r0 in roots:
                t = strip(r0)
                last = None
                while isinstance(t, dict):
                    if t.get('k') == 'MemberExpr':
                        last = t; t = strip(t['b'])
                    elif t.get('k') == 'ArraySubscriptExpr':
                        t = strip(t['b'])
                    elif t.get('k') == 'CXXOperatorCallExpr' and short(t.get('callee', '')) in ('operator[]', 'operator*', 'operator->') and t.get('a'):
                        t = strip(t['a'][0])
                    else:
                        break
                if last is not None and isinstance(t, dict) and t.get('k') == 'CXXThisExpr' and (SEQ + '::m_') in last['n']:
                    out.setdefault(short(last['n']), st['loc'])
            if cn and depth < 2 and cn.startswith(SEQ + '::') and cn in facts.fns and short(cn) not in ('rewind', 'seek', 'loadMIDI'):
                for k2, v2 in seq_member_stores(facts, facts.fns[cn][0], depth + 1, seen).items():
                    out.setdefault(k2, v2)
    return out


def r7(facts):
    out = []
    written = {}
    for h in ('handleEvent', 'processEvents', 'Tick'):
        for fn in facts.fns.get(SEQ + '::' + h, []):
            for fld, loc in seq_member_stores(facts, fn).items():
                written.setdefault(fld, (h, loc))
    rw = facts.fn(SEQ + '::rewind')
    restored = seq_member_stores(facts, rw)
    if len(written) < 4:
        raise build.AnalysisBroken('C08.R7: only %d sequencer members found to be written during playback' % len(written))
    for fld, (h, loc) in sorted(written.items()):
        if fld in REWIND_EXEMPT:
            out.append(Obl('C08.R7', rw.name, 'member ' + fld, rw.loc, 'assumed', why=REWIND_EXEMPT[fld], nontrivial=False))
            continue
        ok = fld in restored
        out.append(Obl('C08.R7', rw.name, 'member ' + fld, rw.loc, 'discharged' if ok else 'finding',
                       why='changed during playback (%s), restored by rewind()' % h if ok else
                       '%s changes %s during playback (%s) but rewind() does not restore it: a seek, which replays from the rewound position, starts with the value from later in the song' % (h, fld, loc.rsplit('/', 1)[-1])))
    return out



def r1b_audio(facts):
    """every API function that moves the sequencer position (seek / rewind) also restarts the audio-path period: it stores Setup::delay,
    Setup::carry and Setup::tick_skip_samples_delay after the move; a stale pending period delays the first events at the new position"""
    out = []
    need = ('delay', 'carry', 'tick_skip_samples_delay')
    n = 0
    for fn in facts.all_fns():
        if not fn.name.startswith('opn2_') or fn.tree is None:
            continue
        moves = [(b, j, st, short(callee_name(x))) for b, j, st in fn.cfg.stmts() for x in calls_in(st['s'])
                 if short(callee_name(x)) in ('seek', 'rewind') and 'Sequencer' in callee_name(x)]
        for b, j, st, what in moves:
            n += 1
            missing = []
            for fld in need:
                okf = False
                for b2, j2, st2, s2, owner, bind in with_helpers(facts, fn):
                    if not ((b2 == b and j2 >= j) or fn.cfg.stmt_before((b, j), (b2, j2))):
                        continue
                    for y in walk(s2):
                        ap = assign_parts(y)
                        if ap and strip(ap[0]).get('k') == 'MemberExpr' and short(strip(ap[0])['n']) == fld and 'Setup' in strip(ap[0])['n']:
                            okf = True
                if not okf:
                    missing.append(fld)
            out.append(Obl('C08.R1', fn.name, 'audio period restarted after %s()' % what, st['loc'], 'finding' if missing else 'discharged',
                           why=('m_setup.%s keep(s) the value of the position that was left: in audio-driven playback the first events at the new position are delivered late' % ', '.join(missing)) if missing else
                           'delay, carry and tick_skip_samples_delay are stored after the move'))
    if n < 2:
        raise build.AnalysisBroken('C08.R1: API functions that seek / rewind the sequencer not found')
    # loading another song is a move to its begin as well: the API functions that call LoadMIDI store the three fields
    nl = 0
    for fn in facts.all_fns():
        if not fn.name.startswith('opn2_') or fn.tree is None:
            continue
        loads = [(b, j, st) for b, j, st in fn.cfg.stmts(conds=True) for x in calls_in(st['s']) if short(callee_name(x)) == 'LoadMIDI']
        if not loads:
            continue
        nl += 1
        stored = set()
        for b2, j2, st2, s2, owner, bind in with_helpers(facts, fn):
            for y in walk(s2):
                ap = assign_parts(y)
                if ap and strip(ap[0]).get('k') == 'MemberExpr' and 'Setup' in strip(ap[0])['n']:
                    stored.add(short(strip(ap[0])['n']))
        missing = [f_ for f_ in need if f_ not in stored]
        out.append(Obl('C08.R1', fn.name, 'audio period restarted when a song is loaded', loads[0][2]['loc'], 'finding' if missing else 'discharged',
                       why=('m_setup.%s keep(s) the value left by the previous song: the first events of the new song are delivered up to one period late' % ', '.join(missing)) if missing else
                       'delay, carry and tick_skip_samples_delay are reset'))
    if nl < 2 and facts.view not in ('noSEQ',):
        raise build.AnalysisBroken('C08.R1: API functions that load a song not found')
    return out


def r8_tick_units(facts):
    """seek(t) stores absTimePosition = t in song seconds and replays song time; Tick(s) must therefore advance absTimePosition in
    song seconds too: by the step after it was multiplied by the tempo multiplier, the same value it subtracts from the wait.
    Rule: in Tick the statement `s *= m_tempoMultiplier` executes before both `wait -= s` and `absTimePosition += s`, and both take
    the parameter itself (no other expression)."""
    out = []
    fn = facts.fn(SEQ + '::Tick')
    par = fn.params[0]['id']
    scale = None
    uses = []
    for b, j, st in fn.cfg.stmts():
        for x in walk(st['s']):
            ap = assign_parts(x)
            if not ap:
                continue
            t = strip(ap[0])
            if t.get('id') == par and ap[2] in ('*=', '=') and any(y.get('k') == 'MemberExpr' and short(y['n']) == 'm_tempoMultiplier' for y in walk(ap[1])) and \
                    (ap[2] == '*=' or (strip(ap[1]).get('k') == 'BinaryOperator' and strip(ap[1]).get('op') == '*' and any(y.get('id') == par for y in walk(ap[1])))):
                scale = (b, j)
            if t.get('k') == 'MemberExpr' and short(t['n']) in ('wait', 'absTimePosition') and ap[2] in ('-=', '+='):
                uses.append((b, j, st, short(t['n']), ap[1]))
    if scale is None or len(uses) < 2:
        raise build.AnalysisBroken('C08.R8: tempo scaling / position update of Tick not found')
    for b, j, st, fld, rhs in uses:
        r = strip(rhs)
        if r.get('id') != par:
            continue        # the anti-freeze penalty and other constant adjustments
        after = (b == scale[0] and j > scale[1]) or (b != scale[0] and fn.cfg.block_dominates(scale[0], b))
        out.append(Obl('C08.R8', fn.name, '%s advanced by the scaled step' % fld, st['loc'], 'discharged' if after else 'finding',
                       why='executes after s *= m_tempoMultiplier' if after else
                       '%s is advanced by the unscaled step while seek() stores it in song seconds: with a tempo multiplier != 1 the reported position and the positions reached by seeking disagree' % fld))
    if sum(1 for o in out) < 2:
        raise build.AnalysisBroken('C08.R8: Tick no longer advances both wait and absTimePosition by its parameter')
    return out


# player-level members stored by sequencer-driven entry points that the song-begin callback need not restore
PLAYER_EXEMPT = {'m_midiDevices': 'device name -> channel block: no positional state, a name keeps its block as long as the channel table lives (dropped with it in resetMIDI)'}
_MUT = ('clear', 'insert', 'erase', 'push_back', 'resize', 'assign', 'swap', 'pop_back')


def player_stores(facts, fn, depth=0, seen=None):
    """direct members of OPNMIDIplay (this->m_x) stored by fn or by the OPNMIDIplay methods it calls: assignment (through [] and
    operator[]), ++/--, mutating container methods"""
    seen = seen if seen is not None else set()
    out = {}
    if fn.name in seen:
        return out
    seen.add(fn.name)
    fn = deref_view(fn, None)       # a store through `T &ch = m_midiChannels[i];` is a store to the member
    def member_of(t):
        t = strip(t)
        while isinstance(t, dict):
            if t.get('k') == 'ArraySubscriptExpr':
                t = strip(t['b']); continue
            if t.get('k') == 'CXXOperatorCallExpr' and 'operator[]' in (t.get('callee') or '') and t.get('a'):
                t = strip(t['a'][0]); continue
            if t.get('k') == 'MemberExpr' and t.get('b') is not None and not (t['n'].startswith('OPNMIDIplay::m_') and t['n'].count('::') == 1):
                t = strip(t['b']); continue
            break
        if isinstance(t, dict) and t.get('k') == 'MemberExpr' and t['n'].startswith('OPNMIDIplay::m_') and t['n'].count('::') == 1 and strip(t.get('b')).get('k') == 'CXXThisExpr':
            return short(t['n'])
        return None
    for b, j, st in fn.cfg.stmts():
        for x in walk(st['s']):
            ap = assign_parts(x)
            tgt = ap[0] if ap else (x['e'] if is_incdec(x) else None)
            if tgt is not None:
                m = member_of(tgt)
                if m:
                    out.setdefault(m, st['loc'])
            if 'callee' in x and x.get('obj') is not None and short(callee_name(x)) in _MUT:
                m = member_of(x['obj'])
                if m:
                    out.setdefault(m, st['loc'])
            cn = callee_name(x)
            if cn and depth < 4 and cn in facts.fns and cn.startswith('OPNMIDIplay::') and cn.count('::') == 1:
                for k2, v2 in player_stores(facts, facts.fns[cn][0], depth + 1, seen).items():
                    out.setdefault(k2, v2)
    return out


def r6_player_members(facts, sb):
    """state outside the channel records: every OPNMIDIplay member that an event delivered by the sequencer can store (through the rt*
    wrappers of opnmidi_sequencer.cpp) is restored by what the song-begin callback reaches, or is exempt with a reason"""
    out = []
    if sb is None:
        return out
    rts = [fn for fn in facts.all_fns() if fn.relfile() == 'src/opnmidi_sequencer.cpp' and fn.name.startswith('rt') and fn.name != 'rtSongBegin']
    written = {}
    for fn in rts:
        for b, ex, loc in fn.cfg.exprs():
            for x in calls_in(ex):
                cn = callee_name(x)
                if cn and cn.startswith('OPNMIDIplay::') and cn in facts.fns:
                    for k, v in player_stores(facts, facts.fns[cn][0]).items():
                        written.setdefault(k, (short(cn), v))
    restored = {}
    for b, ex, loc in sb.cfg.exprs():
        for x in calls_in(ex):
            cn = callee_name(x)
            if cn in facts.fns:
                restored.update(player_stores(facts, facts.fns[cn][0]))
    if len(written) < 4:
        raise build.AnalysisBroken('C08.R6: only %d player members found to be stored by sequencer-driven events' % len(written))
    for m, (h, loc) in sorted(written.items()):
        if m in PLAYER_EXEMPT:
            out.append(Obl('C08.R6', 'rtSongBegin', 'player member ' + m, sb.loc, 'discharged', why='reviewed: ' + PLAYER_EXEMPT[m], nontrivial=False))
            continue
        ok = m in restored
        out.append(Obl('C08.R6', 'rtSongBegin', 'player member ' + m, sb.loc, 'discharged' if ok else 'finding',
                       why='stored by %s, restored at the song begin' % h if ok else
                       '%s stores OPNMIDIplay::%s (%s) but nothing the song-begin callback reaches restores it: after a backward seek or a rewind the replay runs with the value set later in the song' % (h, m, loc.rsplit('/', 1)[-1])))
    return out


def r6_hook_not_gated(facts):
    """the reset is delivered as a synthetic event of track 0: the track solo / disable returns of handleEvent must not apply to it"""
    out = []
    he = facts.fn(SEQ + '::handleEvent')
    hook = facts.enums.get('ST_SONG_BEGIN_HOOK')
    if hook is None:
        raise build.AnalysisBroken('C08.R6: ST_SONG_BEGIN_HOOK not found')
    n = 0
    E_ = {'T_SPECIAL': facts.enums.get('T_SPECIAL'), 'ST_SONG_BEGIN_HOOK': hook}
    if E_['T_SPECIAL'] is None:
        raise build.AnalysisBroken('C08.R6: T_SPECIAL not found')
    for b, j, st, gf in gating.gating_returns(he):
        n += 1
        # no song-begin event reaches the return: its guard contradicts "type == T_SPECIAL && subtype == ST_SONG_BEGIN_HOOK"
        ok = gating.excluded(gf, gating.hook_event(he, E_))
        out.append(Obl('C08.R6', he.name, 'track gating does not drop the song-begin event', st['loc'], 'discharged' if ok else 'finding',
                       why='the gating return is reached only for events other than ST_SONG_BEGIN_HOOK' if ok else
                       'with a track soloed (or track 0 switched off) the synthetic song-begin event is dropped with the rest of track 0: the state reset of a seek / rewind never runs'))
    if n < 1:
        raise build.AnalysisBroken('C08.R6: track gating returns of handleEvent not found')
    return out
