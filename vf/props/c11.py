"""C11 — loudness controls are monotone and stay within the chip's level range.

R1  range: for inputs in the ranges the callers can deliver (call-site join; the C types' ranges at the API), every table index
    of OPN2::touchNote is in range, no negative double is converted to unsigned, and every *scaled* level written to 0x40..0x4F
    lies in [0,127].
R2  zero silences: with channel volume, expression or master volume fixed to 0 the model output `volume` is [0,0] in all models.
R3  monotone: per volume model, `volume` is non-decreasing in velocity, channel volume, expression and master volume; the scaled
    level is non-increasing in `volume`; the brightness mappings are non-decreasing and the level non-increasing in brightness.
R4  carrier mask: alg_do (8 x 4 booleans, or one bit mask per algorithm read by `(T[alg] >> op) & 1` / `T[alg] & (1 << op)`) equals the YM2612 output-operator sets; modulators are written unchanged unless modulator scaling or a
    reduced brightness is in force.
"""
import copy
from ..core import *
from ..logic import *
from ..e2 import *
from ..e6 import *
from .. import e2prog
from ..report import Obl, Rule
from .. import build

PROP = 'C11'
RULES = [
    Rule('C11.R1', 'table indexes, float->unsigned conversions and scaled levels of touchNote stay in range', 8),
    Rule('C11.R2', 'a zero channel volume, expression or master volume yields model output 0 (carriers silenced) in every model', 3),
    Rule('C11.R3', 'model output is non-decreasing in each loudness input, level non-increasing in it; brightness mapping monotone', 20),
    Rule('C11.R4', 'carrier mask per algorithm equals the YM2612 output operators; modulators untouched unless scaling/brightness applies', 3),
    Rule('C11.R6', 'a note that takes over a time-shared chip channel writes its own levels (the arpeggio refresh includes the volume update)', 1),
    Rule('C11.R7', 'a controller case of realTime_Controller ends before the next one begins: a volume message stores the volume only', 20),
    Rule('C11.R8', 'modulator scaling is in force only for a positive setting (-1 selects the bank default, which no bank format carries)', 2),
    Rule('C11.R5', 'the timbre that touchNote scales is the one setPatch uploaded last', 1),
]
EXPLANATION = ('Interval abstract interpretation (E2) of OPN2::touchNote and of the Upd_Volume branch of noteUpdate with the parameter ranges obtained from the '
               'call-site join, specialised per volume model by fixing the model selector; a monotonicity lattice (E6: constant / non-decreasing / '
               'non-increasing / unknown, with interval side conditions for products, divisions, threshold branches and monotone tables) evaluated per model '
               'and per input; constant-table comparison for the carrier mask. Decides range, zero-silence and monotonicity for all input values at once; '
               'does not decide the perceptual curve.')
ASSUMPTIONS = ['log/sqrt/round/floor are monotone and evaluated at interval end points', 'velocity, volume, expression, master volume reach touchNote only through the call sites seen (call-site join)']

# YM2612: output (carrier) operators per algorithm, in the register order 0x30/0x34/0x38/0x3C = OP1, OP3, OP2, OP4
CARRIERS = [
    [0, 0, 0, 1], [0, 0, 0, 1], [0, 0, 0, 1], [0, 0, 0, 1],
    [0, 0, 1, 1], [0, 1, 1, 1], [0, 1, 1, 1], [1, 1, 1, 1],
]



def scaling_flag_ids(tn):
    """ids of the locals that decide whether an operator is scaled: initialised as `<table>[..][..] || m_scaleModulators`"""
    ids = set()
    sd = single_defs(tn.d)
    for b, j, st in tn.cfg.stmts():
        if st['s'].get('k') == 'DeclStmt':
            for v in st['s']['decls']:
                i = strip(v.get('init')) if v.get('init') is not None else None
                # (the member may have been cached in a const local first)
                if i is not None and i.get('k') == 'BinaryOperator' and i.get('op') == '||' and mentions(subst(i, sd), member_named('m_scaleModulators')):
                    ids.add(v['id'])
    return ids


def _mask_decision(tn, i, tid):
    """`((T[alg] >> op) & 1) [!= 0] || m_scaleModulators` or `(T[alg] & (1 << op)) [!= 0] || ...` with alg = fbalg & 7 and op the
    operator counter: returns (decision has that shape, row selected by fbalg & 7).  Bit k of an entry is operator k in both forms."""
    sd = single_defs(tn.d)
    if not (i.get('k') == 'BinaryOperator' and i['op'] == '||' and mentions(i['r'], member_named('m_scaleModulators'))):
        return False, False
    l = strip(i['l'])
    if l.get('k') == 'BinaryOperator' and l.get('op') == '!=' and const_of(l['r']) == 0:
        l = strip(l['l'])
    if not (l.get('k') == 'BinaryOperator' and l.get('op') == '&'):
        return False, False
    a, b = strip(l['l']), strip(l['r'])
    sub = sh = None
    for x, y in ((a, b), (b, a)):
        # (T[alg] >> op) & 1
        if x.get('k') == 'BinaryOperator' and x.get('op') == '>>' and const_of(y) == 1 and strip(x['l']).get('k') == 'ArraySubscriptExpr':
            sub, sh = strip(x['l']), strip(x['r'])
        # T[alg] & (1 << op)
        if x.get('k') == 'ArraySubscriptExpr' and y.get('k') == 'BinaryOperator' and y.get('op') == '<<' and const_of(y['l']) == 1:
            sub, sh = x, strip(y['r'])
    if sub is None or strip(sub['b']).get('id') != tid:
        return False, False
    # the shift count is the operator counter: the variable that also subscripts the level array in the same loop
    if sh.get('k') != 'DeclRefExpr':
        return False, False
    a_ = strip(subst(sub['i'], sd))
    oka = a_.get('k') == 'BinaryOperator' and a_.get('op') == '&' and 7 in (const_of(a_['l']), const_of(a_['r'])) and mentions(a_, member_named('fbalg'))
    return True, oka


def views(tier):
    return ['V0'] if tier == 'quick' else ['V0', 'noVGM', 'noSEQ']


def model_values(tn):
    """enumerator values of the switch over the volume model"""
    vals = {}
    def rec(t):
        if isinstance(t, dict):
            if t.get('k') == 'SwitchStmt' and mentions(t['cond'], member_named('m_volumeScale')):
                for it in (t.get('body') or {}).get('body', []):
                    x = it
                    while isinstance(x, dict) and x.get('k') in ('CaseStmt', 'DefaultStmt'):
                        if x.get('k') == 'CaseStmt' and 'value' in x:
                            vals[x['value']] = x.get('ln')
                        x = x.get('sub')
            for k2 in ('body', 'then', 'else', 'sub'):
                v = t.get(k2)
                if isinstance(v, list):
                    for y in v:
                        rec(y)
                elif isinstance(v, dict):
                    rec(v)
    rec(tn.tree)
    return vals


def volume_local(tn):
    """id of the local that holds the model output: the one clamped by `if(v > 127) v = 127;` (the clamp that precedes the operator loop)"""
    c = getattr(tn, '_c11_vol', None)
    if c is None:
        for x in walk(tn.tree):
            if isinstance(x, dict) and x.get('k') == 'IfStmt' and x.get('cond') is not None and x.get('else') is None:
                cc = strip(x['cond'])
                if cc.get('k') == 'BinaryOperator' and cc.get('op') == '>' and const_of(cc['r']) == 127 and strip(cc['l']).get('k') == 'DeclRefExpr' and not strip(cc['l']).get('parm'):
                    for y in walk(x.get('then')):
                        ap = assign_parts_raw(y) if isinstance(y, dict) else None
                        if ap and strip(ap[0]).get('id') == strip(cc['l'])['id'] and const_of(ap[1]) == 127:
                            c = strip(cc['l'])['id']
        tn._c11_vol = c if c is not None else -1
        c = tn._c11_vol
    return c


def level_local(tn):
    """id of the local written to the total-level registers: the value argument of writeRegI(.., 0x40 + .., v)"""
    for x in walk(tn.tree):
        if isinstance(x, dict) and 'callee' in x and short(callee_name(x)) == 'writeRegI' and len(x.get('a', [])) >= 4:
            if not any(isinstance(y, dict) and const_of(y) == 0x40 for y in walk(subst(x['a'][2], single_defs(tn.d)))):
                continue
            v = strip(x['a'][3])
            if v.get('k') == 'DeclRefExpr':
                return v['id']
            # the levels are collected in a local array first and written in a second pass: the local stored into that array
            if v.get('k') == 'ArraySubscriptExpr' and strip(v['b']).get('k') == 'DeclRefExpr':
                for y in walk(tn.tree):
                    ap = assign_parts_raw(y) if isinstance(y, dict) else None
                    if ap and ap[2] == '=' and strip(ap[0]).get('k') == 'ArraySubscriptExpr' and strip(strip(ap[0])['b']).get('id') == strip(v['b'])['id'] and strip(ap[1]).get('k') == 'DeclRefExpr':
                        return strip(ap[1])['id']
    return None


def probe_volume(eng, tn, results):
    """value hook: state of `volume` where the final clamp `volume > 127` is evaluated"""
    def hook(e_, e, st):
        c = strip(e)
        if c.get('k') == 'BinaryOperator' and c['op'] == '>' and const_of(c['r']) == 127 and strip(c['l']).get('k') == 'DeclRefExpr' and strip(c['l']).get('id') == volume_local(tn):
            key = e_.key_of(strip(c['l']))
            results.append((e_.ev(c['l'], st), getattr(e_, 'mono', {}).get(key)))
    eng.value_hooks.append(hook)


def analyse(facts, tier):
    obls = []
    res = e2prog.analyse_program(facts)
    tn = facts.fn('OPN2::touchNote')
    SCALE_IDS = scaling_flag_ids(tn)
    if not SCALE_IDS:
        raise build.AnalysisBroken('C11: the scaling decision of touchNote (<table>[alg][op] || m_scaleModulators) not found')
    nu = facts.fn('OPNMIDIplay::noteUpdate')
    pr = res['param_ranges']
    # the inputs of touchNote by position (the declaration in the class fixes the order): chip channel, velocity, channel volume,
    # expression, brightness - the names below are labels of the roles, not the spelling of the parameters
    need = ('velocity', 'channelVolume', 'channelExpression', 'brightness')
    if len(tn.params) < 5 or not all((p_['t'] or {}).get('w') for p_ in tn.params[:5]):
        raise build.AnalysisBroken('C11: OPN2::touchNote does not have the five integer parameters (channel, velocity, volume, expression, brightness)')
    pidx = {n: i_ + 1 for i_, n in enumerate(need)}
    for n in need:
        if ('OPN2::touchNote', pidx[n]) not in pr:
            raise build.AnalysisBroken('C11: no call-site range for touchNote parameter %s' % n)

    def scaling_arm(x):
        """True / False when the assignment x stands in the then / else arm of an `if` on the scaling decision itself, else None"""
        g = tn.tree_guards().get((x.get('ln'), show(x)))
        for it in reversed(g or []):
            if it[0] == 'if':
                c = strip(it[1])
                if c.get('k') == 'DeclRefExpr' and c.get('id') in SCALE_IDS:
                    return bool(it[2])
                if mentions(c, lambda y: y.get('k') == 'DeclRefExpr' and y.get('id') in SCALE_IDS):
                    return None
        return None

    # ---- R1
    for o in res['obl']:
        if o.fn not in ('OPN2::touchNote',) or o.kind not in ('index', 'fcast'):
            continue
        loc = '%s:%s' % (tn.file, o.ln)
        if o.ok:
            obls.append(Obl('C11.R1', o.fn, o.construct, loc, 'discharged', why='%s within %s' % (o.idx, o.ext if not isinstance(o.ext, int) else '[0, %d]' % (o.ext - 1)), nontrivial=not (o.idx is not None and o.idx.is_point())))
        else:
            obls.append(Obl('C11.R1', o.fn, o.construct, loc, 'finding',
                            why=('value %s can leave %s' % (o.idx, o.ext if not isinstance(o.ext, int) else '[0, %d]' % (o.ext - 1))) +
                            (': a negative or oversized double converted to an unsigned level wraps (the 127 clamp then writes full loudness)' if o.kind == 'fcast' else ': table read out of bounds')))
    # scaled level values
    eng = Engine2(facts, res['field_ranges'], e2prog.MIN_SIZES, pr, resizers=res['resizers'])
    levels = []
    def lvl_hook(e_, e, st):
        for x in walk(e):
            if x.get('k') == 'ConditionalOperator' and mentions(x['cnd'], lambda y: y.get('k') == 'DeclRefExpr' and y.get('id') in SCALE_IDS):
                levels.append((x.get('ln'), 'scaled level (do_op)', e_.ev(x['l'], st)))
            ap = assign_parts(x)
            if ap and strip(ap[0]).get('k') == 'DeclRefExpr' and strip(ap[0]).get('id') == level_local(tn):
                arm = scaling_arm(x)
                if arm is True:
                    levels.append((x.get('ln'), 'scaled level (do_op)', e_.ev(ap[1], st)))      # `if(do_op) level = ..` instead of `do_op ? .. : ..`
                elif arm is False and not mentions(ap[1], lambda y: y.get('k') == 'DeclRefExpr' and y.get('id') == tn.params[pidx['brightness']]['id']):
                    pass        # the unscaled arm of the same decision: the byte of the patch as it is
                else:
                    levels.append((x.get('ln'), 'brightness-scaled level', e_.ev(ap[1], st)))
    def decl_hook(e_, e, st):
        pass
    eng.value_hooks.append(lvl_hook)
    eng.run(tn, record=True)
    # DeclStmt initialisers are passed to hooks as expressions too
    if not levels:
        raise build.AnalysisBroken('C11.R1: scaled level expressions not found in touchNote')
    seen = set()
    for ln, what, v in levels:
        if (ln, what) in seen:
            continue
        seen.add((ln, what))
        ok = v is not None and not v.f and v.lo >= 0 and v.hi <= 127
        obls.append(Obl('C11.R1', tn.name, what, '%s:%s' % (tn.file, ln), 'discharged' if ok else 'finding',
                        why='value %s within [0, 127]' % v if ok else 'level %s can leave the 7-bit total-level range' % v))
    # the brightness handed over by noteUpdate
    b = pr[('OPN2::touchNote', pidx['brightness'])][0]
    obls.append(Obl('C11.R1', nu.name, 'brightness passed to touchNote', nu.loc, 'discharged' if (b.lo >= 0 and b.hi <= 127) else 'finding', why='call-site range %s' % b))
    for n in ('velocity', 'channelVolume', 'channelExpression'):
        v = pr[('OPN2::touchNote', pidx[n])][0]
        ok = v.lo >= 0 and v.hi <= 127
        obls.append(Obl('C11.R1', nu.name, '%s passed to touchNote' % n, nu.loc, 'discharged' if ok else 'finding',
                        why='call-site range %s' % v if ok else 'call sites can deliver %s, outside 0..127' % v))

    # ---- R2 zero silences
    # the volume models are the enumerators of the type of OPN2::m_volumeScale (how touchNote dispatches on them - a switch, an
    # if / else-if chain - is the interval engine's business: each model is analysed with the member fixed to its value)
    labels = model_values(tn)
    enum_models = facts.enum_names.get('OPN2::VolumesScale') or {}
    if len(enum_models) < 5:
        raise build.AnalysisBroken('C11: only %d volume models found in enum OPN2::VolumesScale' % len(enum_models))
    models = {v: labels.get(v, tn.d['line']) for v in enum_models.values()}
    for zero in ('channelVolume', 'channelExpression', 'm_masterVolume'):
        fr = dict(res['field_ranges'])
        pr2 = dict(pr)
        if zero == 'm_masterVolume':
            fr['OPN2::m_masterVolume'] = V(0, 0)
        else:
            pr2[('OPN2::touchNote', pidx[zero])] = (V(0, 0), set())
        out = []
        e2 = Engine2(facts, fr, e2prog.MIN_SIZES, pr2, resizers=res['resizers'])
        probe_volume(e2, tn, out)
        e2.run(tn, record=True)
        if not out:
            raise build.AnalysisBroken('C11.R2: clamp probe `volume > 127` not found in touchNote')
        v = out[0][0]
        ok = v is not None and v.lo == 0 and v.hi == 0
        obls.append(Obl('C11.R2', tn.name, '%s = 0 => volume = 0' % zero, tn.loc, 'discharged' if ok else 'finding',
                        why='model output is %s in all %d models: carriers get level 127' % (v, len(models)) if ok else 'with %s = 0 the model output can be %s: the note is not silenced' % (zero, v)))

    # ---- R3 monotone, per model and input
    inputs = [('velocity', 'param'), ('channelVolume', 'param'), ('channelExpression', 'param'), ('m_masterVolume', 'field')]
    for mval, mln in sorted(models.items()):
        fr = dict(res['field_ranges'])
        fr['OPN2::m_volumeScale'] = V(mval, mval)
        for iname, kind in inputs:
            m = Mono(facts, fr, e2prog.MIN_SIZES, pr, resizers=res['resizers'])
            m.wrt_field = 'OPN2::m_masterVolume' if kind == 'field' else None
            m.wrt = ('v', tn.params[pidx[iname]]['id']) if kind == 'param' else ('f', 'm_masterVolume')
            out = []
            probe_volume(m, tn, out)
            m.run(tn, record=True)
            d = out[0][1] if out else None
            ok = d in (INC, C)
            obls.append(Obl('C11.R3', tn.name, 'model %d: volume vs %s' % (mval, iname), '%s:%s' % (tn.file, mln), 'discharged' if ok else 'finding',
                            why='non-decreasing (%s)' % d if ok else 'monotonicity of the model output in %s cannot be established (%s): raising it may lower the loudness' % (iname, d)))
    # level vs volume, level vs brightness
    m = Mono(facts, res['field_ranges'], e2prog.MIN_SIZES, pr, resizers=res['resizers'])
    m.wrt_field = None
    dirs = {}
    vol_id = volume_local(tn)
    vol_id = None if vol_id == -1 else vol_id
    if vol_id is None:
        raise build.AnalysisBroken('C11.R3: local `volume` not found')
    def dir_hook(e_, e, st):
        for x in walk(e):
            if x.get('k') == 'ConditionalOperator' and mentions(x['cnd'], lambda y: y.get('k') == 'DeclRefExpr' and y.get('id') in SCALE_IDS):
                # evaluate the direction of the scaled branch with `volume` as the input
                save = e_.wrt, dict(e_.mono)
                e_.wrt = ('v', vol_id); e_.mono = {}
                dirs['level_vs_volume'] = (e_.dir_of(x['l'], st), x.get('ln'))
                e_.wrt, e_.mono = save
            ap = assign_parts(x)
            if ap and strip(ap[0]).get('k') == 'DeclRefExpr' and strip(ap[0]).get('id') == level_local(tn) and scaling_arm(x) is True:
                save = e_.wrt, dict(e_.mono)
                e_.wrt = ('v', vol_id); e_.mono = {}
                dirs['level_vs_volume'] = (e_.dir_of(ap[1], st), x.get('ln'))
                e_.wrt, e_.mono = save
            elif ap and strip(ap[0]).get('k') == 'DeclRefExpr' and strip(ap[0]).get('id') == level_local(tn) and not (
                    scaling_arm(x) is False and not mentions(ap[1], lambda y: y.get('k') == 'DeclRefExpr' and y.get('id') == tn.params[pidx['brightness']]['id'])):
                save = e_.wrt, dict(e_.mono)
                e_.wrt = ('v', tn.params[pidx['brightness']]['id']); e_.mono = {}
                dirs['level_vs_brightness'] = (e_.dir_of(ap[1], st), x.get('ln'))
                e_.wrt, e_.mono = save
            if ap and strip(ap[0]).get('k') == 'DeclRefExpr' and strip(ap[0]).get('id') == tn.params[pidx['brightness']]['id']:
                save = e_.wrt, dict(e_.mono)
                e_.wrt = ('v', tn.params[pidx['brightness']]['id']); e_.mono = {}
                dirs['brightness_curve'] = (e_.dir_of(ap[1], st), x.get('ln'))
                e_.wrt, e_.mono = save
    m.wrt = ('v', -1)
    m.value_hooks.append(dir_hook)
    m.run(tn, record=True)
    for key, want, text in (('level_vs_volume', DEC, 'scaled level is non-increasing in the model output'),
                            ('brightness_curve', INC, 'brightness curve is non-decreasing'),
                            ('level_vs_brightness', DEC, 'modulator level is non-increasing in brightness (lower brightness never brightens)')):
        d = dirs.get(key)
        ok = d is not None and d[0] in (want, C)
        obls.append(Obl('C11.R3', tn.name, key.replace('_', ' '), '%s:%s' % (tn.file, d[1] if d else tn.d['line']), 'discharged' if ok else 'finding',
                        why=text if ok else 'expected %s, found %s' % (want, d[0] if d else 'nothing')))
    # brightness pre-mapping in noteUpdate (half-range mode): threshold branch
    mb = Mono(facts, res['field_ranges'], e2prog.MIN_SIZES, pr, resizers=res['resizers'])
    mb.wrt_field = 'OPNMIDIplay::MIDIchannel::brightness'
    mb.wrt = ('f', '?')
    got = []
    def bh(e_, e, st):
        for x in calls_in(e):
            if callee_name(x) == 'OPN2::touchNote' and len(x.get('a', [])) >= 5:
                got.append((e_.dir_of(x['a'][4], st), x.get('ln')))
    mb.value_hooks.append(bh)
    mb.run(nu, record=True)
    if got:
        ok = got[0][0] in (INC, C)
        obls.append(Obl('C11.R3', nu.name, 'brightness handed to touchNote vs CC74', '%s:%s' % (nu.file, got[0][1]), 'discharged' if ok else 'finding',
                        why='non-decreasing in the channel brightness (%s)' % got[0][0] if ok else 'the CC74 pre-mapping is not monotone (%s)' % got[0][0]))
    else:
        raise build.AnalysisBroken('C11.R3: touchNote call with 5 arguments not found in noteUpdate')
    # tables
    for tname, want in (('s_dmx_volume_model', 'inc'), ('W9X_volume_mapping_table', 'dec')):
        g = facts.glob(tname)
        tv = g.get('init')
        flat = [x for x in tv if isinstance(x, int)] if isinstance(tv, list) else []
        ok = len(flat) >= 32 and (all(flat[i] <= flat[i + 1] for i in range(len(flat) - 1)) if want == 'inc' else all(flat[i] >= flat[i + 1] for i in range(len(flat) - 1)))
        obls.append(Obl('C11.R3', tn.name, 'table %s monotone' % tname, g['loc'], 'discharged' if ok else 'finding',
                        why='%d entries, %s' % (len(flat), 'non-decreasing' if want == 'inc' else 'non-increasing (63 - T[.] is non-decreasing)') if ok else 'table is not monotone: a louder input can map to a quieter level'))

    # ---- R4 carrier mask
    table = None
    for b_, j_, st_ in tn.cfg.stmts():
        s = st_['s']
        if s.get('k') == 'DeclStmt':
            for v in s['decls']:
                # the carrier table: the 8 x 4 boolean table the scaling decision subscripts
                i0 = strip(v['init']) if 'init' in v else None
                if i0 is not None and i0.get('k') == 'InitListExpr' and len(i0.get('inits', [])) == 8 and all(len(strip(r_).get('inits', [])) == 4 for r_ in i0['inits']):
                    rows = []
                    for r in strip(v['init']).get('inits', []):
                        rows.append([const_of(c) for c in strip(r).get('inits', [])])
                    table = (rows, st_['loc'])
    mask_form = None
    if table is None:
        # the same table packed as one bit mask per algorithm: 8 integer entries, bit k <-> operator k when the decision reads
        # `(T[alg] >> op) & 1` or `T[alg] & (1 << op)` (decoded below; any other use of such a table is not understood)
        for b_, j_, st_ in tn.cfg.stmts():
            s = st_['s']
            if s.get('k') == 'DeclStmt':
                for v in s['decls']:
                    i0 = strip(v['init']) if 'init' in v else None
                    if i0 is not None and i0.get('k') == 'InitListExpr' and len(i0.get('inits', [])) == 8:
                        vals = [const_of(c) for c in i0['inits']]
                        if all(isinstance(x_, int) and 0 <= x_ < 16 for x_ in vals):
                            mask_form = (v['id'], vals, st_['loc'])
        if mask_form is not None:
            table = ([[(m_ >> k_) & 1 for k_ in range(4)] for m_ in mask_form[1]], mask_form[2])
    if table is None:
        raise build.AnalysisBroken('C11.R4: alg_do table not found')
    rows, loc = table
    ok = rows == CARRIERS
    bad = [i for i in range(min(len(rows), 8)) if rows[i] != CARRIERS[i]]
    obls.append(Obl('C11.R4', tn.name, 'alg_do == YM2612 carrier sets', loc, 'discharged' if ok else 'finding',
                    why='8 algorithms x 4 operators agree' if ok else 'algorithm(s) %s mark the wrong operators as carriers: %s' % (bad, [rows[i] for i in bad])))
    # do_op = alg_do[alg][op] || m_scaleModulators ; alg = fbalg & 7
    okd = oka = False
    al_tn = alias_defs(tn.d)
    for b_, j_, st_ in tn.cfg.stmts():
        s = st_['s']
        if s.get('k') == 'DeclStmt':
            for v in s['decls']:
                if v['id'] in SCALE_IDS and 'init' in v:
                    i = strip(canon_access(subst(v['init'], single_defs(tn.d)), al_tn))      # `row = T[alg]; *(row + op)` reads as T[alg][op]
                    # <carrier table>[algorithm][operator] || m_scaleModulators: the left operand is a doubly subscripted local table
                    l_ = strip(i['l'])
                    if mask_form is not None:
                        okd, oka = _mask_decision(tn, strip(v['init']), mask_form[0])      # unsubstituted: the table stays a name
                        continue
                    okd = i.get('k') == 'BinaryOperator' and i['op'] == '||' and l_.get('k') == 'ArraySubscriptExpr' and strip(l_.get('b')).get('k') == 'ArraySubscriptExpr' and \
                        mentions(i['r'], member_named('m_scaleModulators'))
                    if okd:
                        # the row is selected by the algorithm bits of the cached patch: fbalg & 7 (directly, or through a local)
                        a_ = strip(subst(strip(l_['b'])['i'], single_defs(tn.d)))
                        if a_.get('k') == 'BinaryOperator' and a_.get('op') == '&' and 7 in (const_of(a_['l']), const_of(a_['r'])) and mentions(a_, member_named('fbalg')):
                            oka = True
                if 'init' in v:
                    i = strip(v['init'])
                    if i.get('k') == 'BinaryOperator' and i['op'] == '&' and const_of(i['r']) == 7 and mentions(i['l'], member_named('fbalg')):
                        oka = True
    obls.append(Obl('C11.R4', tn.name, 'operator is scaled iff carrier or modulator scaling', tn.loc, 'discharged' if (okd and oka) else 'finding',
                    why='do_op = alg_do[fbalg & 7][op] || m_scaleModulators' if (okd and oka) else 'scaling decision is not (carrier || modulator scaling) on algorithm fbalg & 7'))
    # brightness branch only under brightness != 127 and only for unscaled operators
    okb = False
    for b_, j_, st_ in tn.cfg.stmts():
        for x in walk(st_['s']):
            ap = assign_parts(x)
            if ap and strip(ap[0]).get('k') == 'DeclRefExpr' and strip(ap[0]).get('id') == level_local(tn):
                gf = guard_facts(tn, b_, st_)
                br_id = tn.params[pidx['brightness']]['id']
                reduced = any(f[0] == 'cmp' and f[1] == '!=' and strip(f[2]).get('id') == br_id and const_of(f[3]) == 127 for f in gf)
                unscaled = any(f[0] == 'truth' and not f[2] and strip(f[1]).get('id') in SCALE_IDS for f in gf)
                okb = reduced and unscaled
    obls.append(Obl('C11.R4', tn.name, 'brightness only dims unscaled operators when reduced', tn.loc, 'discharged' if okb else 'finding',
                    why='guarded by brightness != 127 and !do_op' if okb else 'brightness scaling is not restricted to reduced brightness on unscaled operators'))
    obls += r5_cache(facts)
    obls += r6_arpeggio_levels(facts)
    obls += r7_no_fallthrough(facts)
    obls += r8_scale_flag(facts)
    return obls



def r5_cache(facts):
    """touchNote takes the algorithm (carrier mask) and the patch levels from m_insCache[c]; setPatch must refresh the whole entry on every
    path, otherwise the levels of one instrument are scaled with the carrier mask of another"""
    out = []
    sp = facts.fn('OPN2::setPatch')
    cfg = sp.cfg
    pd = cfg.pdom().get(('b', cfg.entry)) or ()
    ok = False
    loc = sp.loc
    for b, j, st in cfg.stmts():
        for x in walk(st['s']):
            ap = assign_parts(x)
            if ap and mentions(ap[0], member_named('m_insCache')) and strip(ap[0]).get('k') in ('ArraySubscriptExpr', 'CXXOperatorCallExpr') and strip(ap[1]).get('parm'):
                loc = st['loc']
                if b == cfg.entry or ('b', b) in pd:
                    ok = True
    reads = any(mentions(st['s'], member_named('m_insCache')) for b, j, st in facts.fn('OPN2::touchNote').cfg.stmts())
    if not reads:
        raise build.AnalysisBroken('C11.R5: touchNote does not read m_insCache any more')
    out.append(Obl('C11.R5', sp.name, 'm_insCache[c] = instrument on every path', loc, 'discharged' if ok else 'finding',
                   why='whole-entry store post-dominates the entry' if ok else
                   'the cached timbre is refreshed only on some paths / in part: touchNote then scales the operators with the algorithm of a previous instrument (modulators get volume-scaled, carriers stay at bank level)'))
    return out


def r6_arpeggio_levels(facts):
    """several notes of one timbre share a chip channel under automatic arpeggio; on every switch updateArpeggio re-programs the
    channel for the note whose turn it is.  The total levels on the chip are those of that note only if the refresh includes
    Upd_Volume (velocity and the channel volumes differ between the notes, which may even sit on different MIDI channels)."""
    out = []
    fn = facts.fn('OPNMIDIplay::updateArpeggio')
    E = facts.enums
    vol, off = E.get('Upd_Volume'), E.get('Upd_Off')
    if vol is None or off is None:
        raise build.AnalysisBroken('C11.R6: Upd_* enumerators not found')
    n = 0
    for b, j, st in fn.cfg.stmts():
        for x in calls_in(st['s']):
            if short(callee_name(x)) == 'noteUpdate' and len(x.get('a', [])) >= 4:
                m = const_of(x['a'][2])
                if m is None or m & off:
                    continue
                n += 1
                ok = bool(m & vol)
                out.append(Obl('C11.R6', fn.name, 'arpeggio refresh mask %s' % show(x['a'][2])[:40], st['loc'], 'discharged' if ok else 'finding',
                               why='includes Upd_Volume: touchNote runs with the levels of the note taking the channel' if ok else
                               'the refresh does not include Upd_Volume: the chip keeps the total levels of the previous note of the share (a note on a muted channel sounds with the loudness of its neighbour)'))
    if n < 1:
        raise build.AnalysisBroken('C11.R6: arpeggio refresh call not found in updateArpeggio')
    return out


def r7_no_fallthrough(facts):
    """realTime_Controller stores each controller in its own channel field.  A case that falls through into the next one stores the
    value in a second field as well (CC7 falling into CC74 turns every volume message into a brightness message: the modulators
    follow the channel volume).  Every case group of the controller switch ends with break / return before the next label."""
    out = []
    fn = facts.fn('OPNMIDIplay::realTime_Controller')
    sws = [x for x in walk(fn.tree) if isinstance(x, dict) and x.get('k') == 'SwitchStmt' and mentions(x.get('cond'), lambda y: y.get('parm'))]
    if not sws:
        raise build.AnalysisBroken('C11.R7: controller switch not found')
    sw = max(sws, key=lambda x: len((x.get('body') or {}).get('body', [])))
    items = (sw.get('body') or {}).get('body', [])
    def ends(t):
        if not isinstance(t, dict):
            return False
        k = t.get('k')
        if k in ('BreakStmt', 'ReturnStmt'):
            return True
        if k == 'CompoundStmt':
            b = t.get('body') or []
            return bool(b) and ends(b[-1])
        if k == 'IfStmt':
            return ends(t.get('then')) and t.get('else') is not None and ends(t.get('else'))
        return False
    prev_label = None
    prev_stmt = None
    n = 0
    for it in items:
        x = it
        labs = []
        while isinstance(x, dict) and x.get('k') in ('CaseStmt', 'DefaultStmt'):
            labs.append(x.get('value') if x.get('k') == 'CaseStmt' else 'default')
            x = x.get('sub')
        if labs:
            if prev_label is not None and prev_stmt is not None:
                n += 1
                ok = ends(prev_stmt)
                out.append(Obl('C11.R7', fn.name, 'case %s ends before case %s' % (prev_label, labs[0]), '%s:%s' % (fn.file, it.get('ln')), 'discharged' if ok else 'finding',
                               why='break / return' if ok else
                               'controller %s falls through into the statements of controller %s: its value is stored in that controller\'s channel field as well' % (prev_label, labs[0]), nontrivial=False))
            prev_label = labs[-1]
            prev_stmt = x if isinstance(x, dict) and x.get('k') not in (None,) else None
            if isinstance(x, dict) and x.get('k') in ('CaseStmt', 'DefaultStmt'):
                prev_stmt = None
        else:
            prev_stmt = it
    if n < 20:
        raise build.AnalysisBroken('C11.R7: only %d case boundaries found in the controller switch' % n)
    return out


def r8_scale_flag(facts):
    """opn2_setScaleModulators documents 0 = off, 1 = on, -1 = bank default; WOPN has no such flag, so the default is off.  Every
    store of the live flag m_scaleModulators is a comparison of the setting with a constant that is false for -1 and 0 and true
    for 1 (folded on the three values): `!= 0` would scale the modulators although neither scaling nor brightness was asked for."""
    out = []
    n = 0
    for fn in facts.all_fns():
        if fn.tree is None or not (fn.name.startswith('opn2_') or fn.name.startswith('OPNMIDIplay::')):
            continue
        for b, j, st in fn.cfg.stmts():
            ap = assign_parts(st['s'])
            if not ap or short(strip(ap[0]).get('n', '')) != 'm_scaleModulators':
                continue
            n += 1
            r = strip(ap[1])
            bad = None
            if not (r.get('k') == 'BinaryOperator' and r.get('op') in ('>', '>=', '!=', '==', '<', '<=') and const_of(r.get('r')) is not None and
                    mentions(r.get('l'), member_named('ScaleModulators'))):
                bad = 'the live flag is not a comparison of the setting with a constant (%s)' % show(r)[:40]
            else:
                c = const_of(r['r'])
                f_ = {'>': lambda v: v > c, '>=': lambda v: v >= c, '!=': lambda v: v != c, '==': lambda v: v == c, '<': lambda v: v < c, '<=': lambda v: v <= c}[r['op']]
                got = (f_(-1), f_(0), f_(1))
                if got != (False, False, True):
                    bad = 'the setting values -1, 0, 1 give %s, documented: off, off, on' % (got,)
            out.append(Obl('C11.R8', fn.name, 'm_scaleModulators = %s' % show(r)[:40], st['loc'], 'discharged' if bad is None else 'finding',
                           why='false for -1 and 0, true for 1' if bad is None else bad + ': with -1 (bank default) the modulators are scaled although no scaling was requested'))
    if n < 2:
        raise build.AnalysisBroken('C11.R8: stores of m_scaleModulators not found (%d)' % n)
    return out
