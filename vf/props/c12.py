"""C12 — bank select + program change pick the documented instrument, with fallbacks.

R1  key agreement: the bank key composed by the loader, by opn2_getBank, decomposed by opn2_getBankId and composed at note-on
    agree as linear forms (msb*256 + lsb + percussion tag); GS mode drops the LSB; percussion keys are program (+128 for XG SFX) + tag.
R2  fallback chain: exact key -> key with the low 7 bits cleared -> bank 0 of the same kind, each later look-up control-dependent
    on the previous result being blank; a blank final result returns false before any chip channel is allocated.
R3  entry index in range (interval engine; same obligations as C04.R3).
R4  one storage: the instrument API writes the bank map the note-on path reads; the per-channel cache is refreshed on Upd_Patch.
R5  percussion role: channel % 16 == 9 or is_xg_percussion; the XG MSB test (126/127) is applied only outside GS mode.
R6  bank-select siblings agree: every function that stores the bank bytes performs the same role update.
"""
from ..core import *
from ..logic import *
from .. import e2prog
from .. import affine
from ..report import Obl, Rule
from .. import build

PROP = 'C12'
RULES = [
    Rule('C12.R1', 'bank keys are composed / decomposed consistently by loader, bank API and note-on', 5),
    Rule('C12.R2', 'three-step fallback in order, each step only when the previous entry is blank; blank result is rejected before allocation', 4),
    Rule('C12.R3', 'program / key index into the 128 entries is in range', 1),
    Rule('C12.R4', 'bank API and note-on share one instrument storage; the chip-channel cache is refreshed on patch updates', 3),
    Rule('C12.R5', 'percussion role tests and the GS guard of the XG drum-bank test', 4),
    Rule('C12.R7', 'the bank bytes of a channel stay within 0..127 for every argument value (bit 7 of the MSB is the percussion tag of the bank key, bit 7 of the LSB survives the LSB-cleared fallback)', 2),
    Rule('C12.R6', 'every function storing the bank bytes also updates the XG percussion role', 5),
]
EXPLANATION = ('AST agreement rules: the bank-key expressions of OPNMIDIplay::LoadBank, opn2_getBank, opn2_getBankId and realTime_NoteOn are normalised to linear forms '
               '(shifts and disjoint ORs become multiplications and sums, constants folded) and compared; the fallback chain is checked with guard facts and '
               'statement order on the CFG; role updates are compared across the sibling functions that store the bank bytes. Decides the structural '
               'agreement for all bank layouts and histories; what is audible is not decided.')
ASSUMPTIONS = ['OR-ed fields of a bank key are bit-disjoint for msb, lsb <= 127 (validated by opn2_getBank; the loader takes the bytes of the file)',
               'BankMap::find returns the entry of exactly the key it is given (C16)']


def views(tier):
    return ['V0'] if tier == 'quick' else ['V0', 'V1', 'noSEQ']


def linear(e, sd=None, depth=0):
    """normalise an integer expression to ({symbol: coeff}, const); None when it is not linear"""
    e = strip(e)
    if e is None:
        return None
    c = const_of(e)
    if c is not None:
        return ({}, c)
    k = e.get('k')
    if k == 'DeclRefExpr':
        if sd and e.get('id') in sd and depth < 3:
            return linear(sd[e['id']], sd, depth + 1)
        return ({short(e['n']): 1}, 0)
    if k == 'MemberExpr':
        return ({short(e['n']): 1}, 0)
    if k == 'ArraySubscriptExpr':
        return ({show(e): 1}, 0)
    if k == 'ConditionalOperator':
        # cond ? K : 0  -> K * [cond]
        a, b = linear(e['l'], sd, depth), linear(e['r'], sd, depth)
        if a and b and not a[0] and not b[0]:
            if b[1] == 0:
                return ({'[%s]' % show(e['cnd']): a[1]}, 0)
            if a[1] == 0:
                return ({'[!%s]' % show(e['cnd']): b[1]}, 0)
        return None
    if k == 'BinaryOperator':
        op = e['op']
        l, r = linear(e['l'], sd, depth), linear(e['r'], sd, depth)
        if l is None or r is None:
            return None
        if op in ('+', '|'):
            d = dict(l[0])
            for s_, c_ in r[0].items():
                d[s_] = d.get(s_, 0) + c_
            return (d, l[1] + r[1])
        if op == '*':
            if not r[0]:
                return ({s_: c_ * r[1] for s_, c_ in l[0].items()}, l[1] * r[1])
            if not l[0]:
                return ({s_: c_ * l[1] for s_, c_ in r[0].items()}, l[1] * r[1])
            return None
        if op == '<<' and not r[0]:
            m = 1 << r[1]
            return ({s_: c_ * m for s_, c_ in l[0].items()}, l[1] * m)
        return None
    return None


def norm_form(f):
    """rename source-specific symbols to roles: msb, lsb, tag, program"""
    if f is None:
        return None
    out = {}
    for s_, c_ in f[0].items():
        t = s_
        low = s_.lower()
        if 'msb' in low and not low.startswith('['):
            t = 'msb'
        elif 'lsb' in low and not low.startswith('['):
            t = 'lsb'
        elif low.startswith('['):
            t = 'tag' if ('percuss' in low or low.strip('[]!') in ('ss', 'ispercussion')) else s_
        out[t] = out.get(t, 0) + c_
    return (out, f[1])


def analyse(facts, tier):
    obls = []
    TAG = facts.enums.get('PercussionTag')
    if TAG is None:
        raise build.AnalysisBroken('C12: PercussionTag not found')
    want = ({'msb': 256, 'lsb': 1, 'tag': TAG}, 0)

    # ---- R1
    lb = [f for f in facts.fns.get('OPNMIDIplay::LoadBank', []) if 'FileAndMemReader' in f.sig][0]
    TAG_ = facts.enums.get('PercussionTag')
    if not any(isinstance(y, dict) and const_of(y) == TAG_ for y in walk(lb.tree)):
        # the copy of the banks (and with it the key) may live in a local helper of the loader
        for x in calls_in(lb.tree):
            for cf in facts.fns.get(callee_name(x), [])[:1]:
                if is_local_helper(lb, cf) and any(isinstance(y, dict) and const_of(y) == TAG_ for y in walk(cf.tree)):
                    lb = cf
    gb = facts.fn('opn2_getBank')
    gi = facts.fn('opn2_getBankId')
    non = deref_view(facts.fn('OPNMIDIplay::realTime_NoteOn'), ('m_insBanks',))
    def decl_init(fn, name):
        for b, j, st in fn.cfg.stmts():
            if st['s'].get('k') == 'DeclStmt':
                for v in st['s']['decls']:
                    if v['n'] == name and 'init' in v:
                        return v['init'], st['loc']
        return None, fn.loc
    raw_leaves = {}
    def composed_key(fn):
        """{percussive?: normalised affine form} of the bank key a function composes: the integer local that receives the percussion
        tag, read in front of its first use, for both values of the condition that selects the tag"""
        key_id, loc_ = None, fn.loc
        tag_conds = []
        for x in walk(fn.tree):
            if not isinstance(x, dict):
                continue
            if x.get('k') == 'DeclStmt':
                for v in x.get('decls', []):
                    if v.get('init') is not None and any(isinstance(y, dict) and const_of(y) == TAG for y in walk(v['init'])) and (v.get('t') or {}).get('w'):
                        key_id, loc_ = v['id'], '%s:%s' % (fn.file, x.get('ln'))
            ap = assign_parts_raw(x)
            if ap and strip(ap[0]).get('k') == 'DeclRefExpr' and any(isinstance(y, dict) and const_of(y) == TAG for y in walk(ap[1])):
                key_id = strip(ap[0])['id']
        if key_id is None:
            return None, fn.loc, 'no local receives the percussion tag'
        # the condition under which the tag is added: of the conditional expression / if statement that holds the constant
        def conds(t, cur):
            if isinstance(t, list):
                for y in t:
                    conds(y, cur)
            elif isinstance(t, dict):
                if t.get('k') == 'ConditionalOperator' and any(const_of(t.get(a_)) == TAG for a_ in ('l', 'r')):
                    tag_conds.append(t['cnd'])
                if t.get('k') == 'IfStmt' and any(isinstance(y, dict) and const_of(y) == TAG for y in walk(t.get('then'))) and not any(isinstance(y, dict) and y.get('k') == 'IfStmt' for y in walk(t.get('then'))):
                    tag_conds.append(t['cond'])
                for k_, v in t.items():
                    if k_ not in ('t', 'ot') and isinstance(v, (dict, list)):
                        conds(v, cur)
        conds(fn.tree, None)
        if not tag_conds:
            return None, loc_, 'the percussion tag is added unconditionally'
        ctext = show(strip(tag_conds[0]))
        base = strip(tag_conds[0])
        neg = False
        while base.get('k') == 'UnaryOperator' and base.get('op') == '!':
            base, neg = strip(base['e']), not neg
        if base.get('k') == 'BinaryOperator' and base.get('op') in ('!=', '==') and const_of(base.get('r')) == 0:
            neg = neg != (base['op'] == '==')
            base = strip(base['l'])
        btext = show(base)
        atoms_ = [('perc', lambda e: True if show(e) == btext else None)]
        def first_use(t, env, eng):
            if isinstance(t, dict) and t.get('k') == 'DeclStmt' and any(v['id'] == key_id for v in t.get('decls', [])):
                return False
            ap_ = assign_parts_raw(t) if isinstance(t, dict) else None
            if ap_ and strip(ap_[0]).get('id') == key_id:
                return False
            return key_id in env and mentions(t, lambda y: y.get('k') == 'DeclRefExpr' and y.get('id') == key_id)
        forms_ = {}
        for val in affine.valuations(['perc']):
            eng = affine.Affine(fn, atoms_, val)
            env = eng.run(first_use)
            f_ = env.get(key_id) if env else None
            raw_leaves.setdefault(fn.name, {})[val['perc']] = sorted(f_[0]) if f_ is not None else None
            if f_ is not None:
                d = {}
                for s_, c_ in f_[0].items():
                    low = s_.lower()
                    t_ = 'msb' if 'msb' in low else ('lsb' if 'lsb' in low else s_)
                    d[t_] = d.get(t_, 0) + c_
                f_ = (d, f_[1])
            forms_[val['perc']] = f_
        return forms_, loc_, None
    for fn_, label, what in ((lb, 'loader key', 'loader'), (gb, 'bank API key', 'opn2_getBank')):
        forms_, loc, err = composed_key(fn_)
        okk = forms_ is not None and forms_.get(False) == ({'msb': 256, 'lsb': 1}, 0) and forms_.get(True) == ({'msb': 256, 'lsb': 1}, TAG)
        obls.append(Obl('C12.R1', fn_.name, label, loc, 'discharged' if okk else 'finding',
                        why='msb*256 + lsb, + percussion tag for percussive banks' if okk else
                        '%s composes %s, expected msb*256 + lsb (+ %d for percussive banks)' % (what, err or forms_, TAG)))
    # range validation in getBank: lsb, msb <= 127, percussive <= 1 before the key is built
    val = []
    for b, j, st in gb.cfg.returns():
        if const_of(st['s'].get('e')) == -1:
            for f_ in guard_facts(gb, b, st):
                val.append(fact_str(f_))
    txt = ' '.join(val)
    # (member names of the public OPN2_BankId struct; the local that holds the copy may have any name)
    def rng(f_, fld, lim):
        if f_[0] == 'or':
            return any(rng(l_, fld, lim) for alt in f_[1] for l_ in alt)
        n_ = cmp_norm(f_) if f_[0] == 'cmp' else None
        return bool(n_) and n_[0] == '>' and n_[2] == lim and strip(n_[1]).get('k') == 'MemberExpr' and short(strip(n_[1])['n']) == fld
    gfs = [f_ for b, j, st in gb.cfg.returns() if const_of(st['s'].get('e')) == -1 for f_ in guard_facts(gb, b, st)]
    okv = all(any(rng(f_, fld, lim) for f_ in gfs) for fld, lim in (('lsb', 127), ('msb', 127), ('percussive', 1)))
    obls.append(Obl('C12.R1', gb.name, 'identifier range validated', gb.loc, 'discharged' if okv else 'finding', why='lsb, msb <= 127 (melodic) and percussive <= 1 or -1 is returned' if okv else 'identifier fields are not range-checked: %s' % txt[:120]))
    # the identifiers must be able to name every bank the loader creates: when the loader keeps all 8 bits of a percussive LSB (XG
    # SFX kits are the percussion sets 128..255 of a bank file), opn2_getBank refuses an LSB above 127 for melodic banks only
    lk = raw_leaves.get(lb.name, {}).get(True) or []
    loader_perc_lsb8 = any('lsb' in l_.lower() for l_ in lk) and not any('lsb' in l_.lower() and '&0x7f' in l_.lower() for l_ in lk)
    def not_perc(l_):
        if l_[0] == 'truth':
            return not l_[2] and strip(l_[1]).get('k') == 'MemberExpr' and short(strip(l_[1])['n']) == 'percussive'
        n_ = cmp_norm(l_) if l_[0] == 'cmp' else None
        return bool(n_) and strip(n_[1]).get('k') == 'MemberExpr' and short(strip(n_[1])['n']) == 'percussive' and ((n_[0] == '==' and n_[2] == 0) or (n_[0] == '<' and n_[2] == 1))
    def flat_alts(f__):
        for alt in f__[1]:
            if len(alt) == 1 and alt[0][0] == 'or':
                yield from flat_alts(alt[0])
            else:
                yield alt
    # every way of refusing an LSB above 127 - an alternative of a refusing disjunction, or a refusing return of its own - also says
    # "not percussive"
    refusals = []      # (literals that hold together with lsb > 127)
    for b_, j_, st_ in gb.cfg.returns():
        if const_of(st_['s'].get('e')) != -1:
            continue
        F = guard_facts(gb, b_, st_)
        top = [f_ for f_ in F if f_[0] != 'or']
        if any(f_[0] == 'cmp' and rng(f_, 'lsb', 127) for f_ in top):
            refusals.append(top)
        for f_ in F:
            if f_[0] == 'or':
                for alt in flat_alts(f_):
                    if any(l_[0] == 'cmp' and rng(l_, 'lsb', 127) for l_ in alt):
                        refusals.append(list(alt) + top)
    ok8 = (not loader_perc_lsb8) or all(any(not_perc(l_) for l_ in r_) for r_ in refusals)
    obls.append(Obl('C12.R1', gb.name, 'every percussion set the loader creates can be named', gb.loc, 'discharged' if ok8 else 'finding',
                    why=('the LSB test applies to melodic banks only' if loader_perc_lsb8 else 'the loader masks the percussive LSB to 7 bits as well') if ok8 else
                    'LoadBank keeps all 8 bits of a percussive LSB (sets 128..255 are the XG SFX kits) but opn2_getBank refuses every LSB above 127: a loaded SFX kit is played by note-on and cannot be looked up, replaced or removed through the bank API'))
    # decode
    dec = {}
    for b, j, st in gi.cfg.stmts():
        for x in walk(st['s']):
            ap = assign_parts(x)
            if ap and strip(ap[0]).get('k') == 'MemberExpr':
                fld = short(strip(ap[0])['n'])
                r = strip(ap[1])
                sh, mask = 0, None
                for y in walk(r):
                    if y.get('k') == 'BinaryOperator' and y['op'] == '>>' and const_of(y['r']) is not None:
                        sh = const_of(y['r'])
                    if y.get('k') == 'BinaryOperator' and y['op'] == '&' and const_of(y['r']) is not None:
                        mask = const_of(y['r'])
                dec[fld] = (sh, mask)
    want_lsb = (255,) if loader_perc_lsb8 else (127, 255)
    okd = dec.get('msb') == (8, 127) and dec.get('lsb', (None, None))[0] == 0 and dec.get('lsb', (None, None))[1] in want_lsb and dec.get('percussive') == (0, TAG)
    obls.append(Obl('C12.R1', gi.name, 'identifier decode is the inverse of the key', gi.loc, 'discharged' if okd else 'finding',
                    why='msb = (key >> 8) & 127, lsb = key & %d, percussive = key & tag' % dec['lsb'][1] if okd else
                    'decode does not invert the key (%s): the LSB of a percussion set is the low byte of the key%s' % (dec, ', all 8 bits of it (the loader creates sets 128..255)' if loader_perc_lsb8 else '')))
    # note-on: the key handed to the bank map and the entry index, as affine forms of the channel's bank bytes / program / key, for
    # every combination of: percussion channel, GS mode, XG mode, MSB == 0x7E, MSB != 0, LSB != 0 (affine propagation with trace
    # partitioning: however the computation is spread over assignments, `+=` and branches, the value in front of the first look-up
    # is what counts)
    Mode_GS, Mode_XG = facts.enums.get('Mode_GS'), facts.enums.get('Mode_XG')
    if Mode_GS is None or Mode_XG is None:
        raise build.AnalysisBroken('C12.R1: Mode_GS / Mode_XG not found')
    perc_id = bank_id = ins_id = None
    for b, j_, st in non.cfg.stmts():
        if st['s'].get('k') == 'DeclStmt':
            for v in st['s']['decls']:
                if v.get('init') is not None and (v.get('t') or {}).get('bool') and mentions(v['init'], member_named('is_xg_percussion')):
                    perc_id = v['id']
        for x in walk(st['s']):
            ap = assign_parts_raw(x)
            if ap and strip(ap[0]).get('k') == 'DeclRefExpr' and any(isinstance(y, dict) and const_of(y) == TAG for y in walk(ap[1])):
                bank_id = strip(ap[0])['id']
            if isinstance(x, dict) and x.get('k') == 'ArraySubscriptExpr' and x.get('ext') == 128 and mentions(x['b'], member_named('ins')) and strip(x['i']).get('k') == 'DeclRefExpr':
                ins_id = strip(x['i'])['id']
    if ins_id is None:
        # the entry may be subscripted in a local helper: the index is then the argument bound to the subscripting parameter
        for b, j_, st in non.cfg.stmts():
            for x in calls_in(st['s']):
                for cf in facts.fns.get(callee_name(x), [])[:1]:
                    if not is_local_helper(non, cf):
                        continue
                    pidx = {p_['id']: i_ for i_, p_ in enumerate(cf.params)}
                    for y in walk(cf.tree):
                        if isinstance(y, dict) and y.get('k') == 'ArraySubscriptExpr' and y.get('ext') == 128 and mentions(y['b'], member_named('ins')) and strip(y['i']).get('id') in pidx:
                            a = strip((x.get('a') or [])[pidx[strip(y['i'])['id']]])
                            if a.get('k') == 'DeclRefExpr':
                                ins_id = a['id']
    if None in (perc_id, bank_id, ins_id):
        raise build.AnalysisBroken('C12.R1: percussion flag / bank key / entry index locals of realTime_NoteOn not found (%s)' % [perc_id, bank_id, ins_id])
    def mode_atom(flag):
        def m(e):
            return True if (e.get('k') == 'BinaryOperator' and e.get('op') == '&' and mentions(e, member_named('m_synthMode')) and any(const_of(y) == flag for y in (e['l'], e['r']))) else None
        return m
    def sfx_atom(e):
        if e.get('k') == 'BinaryOperator' and e.get('op') in ('==', '!=') and mentions(e, member_named('bank_msb')) and 0x7E in (const_of(e['l']), const_of(e['r'])):
            return e['op'] == '=='
        return None
    def member_truth(name):
        return lambda e: True if (e.get('k') == 'MemberExpr' and short(e['n']) == name) else None
    atoms = [('perc', lambda e: True if (e.get('k') == 'DeclRefExpr' and e.get('id') == perc_id) else None), ('gs', mode_atom(Mode_GS)), ('xg', mode_atom(Mode_XG)),
             ('sfx', sfx_atom), ('msbnz', member_truth('bank_msb')), ('lsbnz', member_truth('bank_lsb'))]
    def stop(t, env, eng):
        return mentions(t, member_named('m_insBanks'))
    def zero_out(f, val):
        if f is None:
            return None
        d = {k_: c_ for k_, c_ in f[0].items() if not ((k_ == 'bank_msb' and not val['msbnz']) or (k_ == 'bank_lsb' and not val['lsbnz']))}
        return (d, f[1])
    bad_mel = bad_perc = bad_ent = None
    nval = 0
    loc_key = non.loc
    for val in affine.valuations([a[0] for a in atoms]):
        if val['sfx'] and not val['msbnz']:
            continue        # MSB == 0x7E is not zero
        eng = affine.Affine(non, atoms, val)
        env = eng.run(stop)
        if env is None:
            raise build.AnalysisBroken('C12.R1: the first bank look-up of realTime_NoteOn was not reached by the affine propagation')
        nval += 1
        got_bank, got_ins = zero_out(env.get(bank_id), val), env.get(ins_id)
        if val['perc']:
            want_bank = ({'patch': 1}, TAG + (128 if (val['xg'] and val['sfx']) else 0))
            want_ins = ({non.params[1]['n']: 1}, 0)      # the key parameter (second parameter of realTime_NoteOn)
            if got_bank != want_bank and bad_perc is None:
                bad_perc = 'with %s the key is %s, expected program%s + tag = %s' % (val, got_bank, ' + 128' if want_bank[1] != TAG else '', want_bank)
            if got_ins != want_ins and bad_ent is None:
                bad_ent = 'with %s the entry index is %s, expected the key number' % (val, got_ins)
        else:
            want_bank = zero_out(({'bank_msb': 256}, 0) if val['gs'] else ({'bank_msb': 256, 'bank_lsb': 1}, 0), val)
            if got_bank != want_bank and bad_mel is None:
                bad_mel = 'with %s the key is %s, expected %s' % (val, got_bank, want_bank)
            if got_ins != ({'patch': 1}, 0) and bad_ent is None:
                bad_ent = 'with %s the entry index is %s, expected the program number' % (val, got_ins)
    obls.append(Obl('C12.R1', non.name, 'melodic key at note-on', loc_key, 'discharged' if bad_mel is None else 'finding',
                    why='msb*256 + lsb; in GS mode msb*256 (%d mode / byte combinations)' % nval if bad_mel is None else 'melodic bank key at note-on disagrees with the loader: ' + bad_mel))
    obls.append(Obl('C12.R1', non.name, 'percussion key = program (+128 for XG SFX kits) + percussion tag', loc_key, 'discharged' if bad_perc is None else 'finding',
                    why='program + tag, + 128 in XG mode with MSB 0x7E' if bad_perc is None else 'percussion bank selection differs: ' + bad_perc))
    obls.append(Obl('C12.R1', non.name, 'entry = program (melodic) / key number (percussion)', loc_key, 'discharged' if bad_ent is None else 'finding',
                    why='midiins = patch, = note on percussion channels' if bad_ent is None else bad_ent))

    # ---- R2 fallback chain
    sd = single_defs(non.d)
    finds = []
    find_keys = []
    def lookup_key(x):
        """the key expression when call x looks a bank up in m_insBanks: directly, or through a local helper that calls find() on the
        map it receives with one of its parameters as the key"""
        if short(callee_name(x)) == 'find' and x.get('obj') is not None and mentions(x['obj'], member_named('m_insBanks')):
            return x['a'][0]
        for cf in facts.fns.get(callee_name(x), [])[:1]:
            if not is_local_helper(non, cf) or not any(mentions(a, member_named('m_insBanks')) for a in x.get('a') or []):
                continue
            pidx = {p_['id']: i_ for i_, p_ in enumerate(cf.params)}
            for y in calls_in(cf.tree):
                if short(callee_name(y)) == 'find' and y.get('a') and strip(y['a'][0]).get('id') in pidx and strip(y.get('obj') or {}).get('id') in pidx:
                    if mentions(x['a'][pidx[strip(y['obj'])['id']]], member_named('m_insBanks')):
                        return x['a'][pidx[strip(y['a'][0])['id']]]
        return None
    for b, j, st in non.cfg.stmts():
        for x in calls_in(st['s']):
            key_e = lookup_key(x)
            if key_e is not None:
                a = subst(key_e, sd)
                gf = guard_facts(non, b, st)
                finds.append((b, j, st, show(strip(a)), gf))
                find_keys.append(key_e)
    if len(finds) != 3:
        obls.append(Obl('C12.R2', non.name, 'three look-ups', non.loc, 'finding', why='%d bank look-ups found, expected exact / LSB-cleared / bank 0' % len(finds)))
    else:
        order = all(non.cfg.stmt_before((finds[i][0], finds[i][1]), (finds[i + 1][0], finds[i + 1][1])) and not non.cfg.stmt_before((finds[i + 1][0], finds[i + 1][1]), (finds[i][0], finds[i][1])) for i in range(2))
        a0, a1, a2 = finds[0][3], finds[1][3], finds[2][3]
        # first key: the bank key local itself (the one R1 tracked); second: it with the low 7 bits cleared; third: only its tag bit
        def masked(e, mask_ok):
            e = strip(e)
            if e.get('k') == 'BinaryOperator' and e.get('op') == '&':
                for a_, b_ in ((e['l'], e['r']), (e['r'], e['l'])):
                    if strip(a_).get('id') == bank_id and const_of(b_) is not None and mask_ok(const_of(b_)):
                        return True
            return False
        keys_e = [subst(kx, sd) for kx in find_keys]
        ok_args = strip(keys_e[0]).get('id') == bank_id and masked(keys_e[1], lambda c: (c & 0xFFFF) == 0xFF80) and masked(keys_e[2], lambda c: c == TAG)
        obls.append(Obl('C12.R2', non.name, 'look-up keys: exact, LSB cleared, bank 0 of the kind', finds[0][2]['loc'], 'discharged' if (order and ok_args) else 'finding',
                        why='find(bank), find(bank & ~0x7F), find(bank & PercussionTag) in this order' if (order and ok_args) else 'look-up keys/order differ: %s' % [a0, a1, a2]))
        def blank_guard(gf):
            return any(f_[0] in ('truth', 'cmp') and mentions(f_[1] if f_[0] == 'truth' else f_[2], lambda y: y.get('k') == 'BinaryOperator' and y['op'] == '&' and mentions(y['l'], member_named('flags')) and mentions(y['r'], ref_named('Flag_NoSound')))
                       and (f_[0] == 'truth' and f_[2] or f_[0] == 'cmp' and f_[1] == '!=') for f_ in gf)
        for i, nm in ((1, 'LSB-cleared look-up'), (2, 'bank-0 look-up')):
            ok = blank_guard(finds[i][4])
            obls.append(Obl('C12.R2', non.name, nm + ' only when the previous entry is blank', finds[i][2]['loc'], 'discharged' if ok else 'finding',
                            why='guarded by ains->flags & Flag_NoSound' if ok else 'fallback is not conditional on the previous entry being blank (guards: %s)' % [fact_str(f_) for f_ in finds[i][4]][:4]))
    # blank final result: return false before calculateChipChannelGoodness / prepareChipChannelForNewNote
    # the blank flag: the bool local defined as `ains->flags & Flag_NoSound`
    isb, blank_id = None, None
    for b, j, st in non.cfg.stmts():
        if st['s'].get('k') == 'DeclStmt':
            for v in st['s']['decls']:
                if v.get('init') is not None and (v.get('t') or {}).get('bool') and mentions(v['init'], member_named('flags')) and mentions(v['init'], ref_named('Flag_NoSound')):
                    isb, blank_id = v['init'], v['id']
    okb = isb is not None
    rej = None
    for b, j, st in non.cfg.returns():
        gf = guard_facts(non, b, st)
        if const_of(st['s'].get('e')) == 0 and any(f_[0] == 'truth' and f_[2] and strip(f_[1]).get('id') == blank_id for f_ in gf):
            rej = (b, j, st)
    alloc_after = False
    if rej:
        for b, j, st in non.cfg.stmts():
            for x in calls_in(st['s']):
                if short(callee_name(x)) in ('prepareChipChannelForNewNote', 'calculateChipChannelGoodness') and non.cfg.stmt_before((b, j), (rej[0], rej[1])):
                    alloc_after = True
    ok = okb and rej is not None and not alloc_after
    obls.append(Obl('C12.R2', non.name, 'blank result is rejected before allocation', rej[2]['loc'] if rej else non.loc, 'discharged' if ok else 'finding',
                    why='isBlankNote = flags & Flag_NoSound; return false precedes every channel allocation' if ok else 'a blank instrument is not rejected before a chip channel is allocated'))

    # ---- R3
    res = e2prog.analyse_program(facts)
    n3 = 0
    # the entry is subscripted in note-on itself or in a local helper that receives the index (the interval engine joins the index
    # over the helper's call sites)
    in_scope = {non.name} | {cf.name for b, j, st in non.cfg.stmts() for x in calls_in(st['s']) for cf in facts.fns.get(callee_name(x), [])[:1] if is_local_helper(non, cf)}
    for o in res['obl']:
        if o.fn in in_scope and o.kind == 'index' and o.ext == 128 and 'ins[' in o.construct:
            n3 += 1
            obls.append(Obl('C12.R3', o.fn, o.construct, '%s:%s' % (non.file, o.ln), 'discharged' if o.ok else 'finding',
                            why='index %s within [0,127]' % o.idx if o.ok else 'program/key index %s can leave the 128 entries' % o.idx))
    if n3 < 1:
        raise build.AnalysisBroken('C12.R3: bank entry subscripts not found')

    # ---- R4
    si = facts.fn('opn2_setInstrument')
    gi2 = facts.fn('opn2_getInstrument')
    def storage(fn):
        for b, j, st in fn.cfg.stmts():
            for x in calls_in(st['s']):
                if short(callee_name(x)).startswith('cvt_'):
                    for a in x.get('a', []):
                        if mentions(a, member_named('ins')) and mentions(a, lambda y: short(callee_name(y)) in ('operator->', 'operator*')):
                            return show(strip(a)), st['loc']
        return None, fn.loc
    s1, l1 = storage(si)
    s2, l2 = storage(gi2)
    it_ok = any(short(callee_name(x)) == 'from_ptrs' for b, j, st in si.cfg.stmts() for x in calls_in(st['s']))
    ok = s1 is not None and s1 == s2 and it_ok and 'second.ins[' in s1
    obls.append(Obl('C12.R4', si.name, 'instrument API writes the bank entry', l1, 'discharged' if ok else 'finding',
                    why='set/get convert to/from it->second.ins[index] of the BankMap iterator' if ok else 'set and get do not address the same bank entry (%s / %s)' % (s1, s2)))
    nu = facts.fn('OPNMIDIplay::noteUpdate')
    okp = False
    for b, j, st in nu.cfg.stmts():
        for x in calls_in(st['s']):
            if short(callee_name(x)) == 'setPatch':
                gf = expand_locals(nu, guard_facts(nu, b, st, loops=False))       # the request test may have a name
                okp = any(((f_[0] == 'truth' and f_[2]) or (f_[0] == 'cmp' and f_[1] == '!=' and const_of(f_[3]) == 0)) and mentions(f_[1] if f_[0] == 'truth' else f_[2], ref_named('Upd_Patch')) for f_ in gf) and len(gf) <= 3
    obls.append(Obl('C12.R4', nu.name, 'setPatch on every Upd_Patch', nu.loc, 'discharged' if okp else 'finding', why='synth.setPatch(c, ins.ains) under props_mask & Upd_Patch' if okp else 'the chip-channel instrument cache is not refreshed on patch updates'))
    ok_read = any(mentions(s_, lambda y: y.get('k') == 'ArraySubscriptExpr' and y.get('ext') == 128 and mentions(y['b'], member_named('ins'))) for b, j, st, s_, owner, bind in with_helpers(facts, non))
    obls.append(Obl('C12.R4', non.name, 'note-on reads the bank map entries', non.loc, 'discharged' if ok_read else 'finding', why='ains = &bnk->ins[midiins] from synth.m_insBanks.find(..)'))

    # ---- R5 / R6
    isp, locp = None, non.loc
    for b, j, st in non.cfg.stmts():
        if st['s'].get('k') == 'DeclStmt':
            for v in st['s']['decls']:
                if v['id'] == perc_id:
                    isp, locp = v.get('init'), st['loc']
    ch_id = non.params[0]['id']
    def is_ch9(e):
        e = strip(e)
        if e.get('k') == 'BinaryOperator' and e.get('op') == '==' and const_of(e['r']) == 9:
            l = strip(e['l'])
            return l.get('k') == 'BinaryOperator' and l.get('op') == '%' and strip(l['l']).get('id') == ch_id and const_of(l['r']) == 16
        return False
    okp = isp is not None and strip(isp).get('op') == '||' and any(is_ch9(y) for y in (strip(isp)['l'], strip(isp)['r'])) and mentions(isp, member_named('is_xg_percussion'))
    obls.append(Obl('C12.R5', non.name, 'percussion role', locp, 'discharged' if okp else 'finding', why=show(isp) if isp else 'isPercussion not found'))
    xg = facts.fn('isXgPercChannel')
    rets = [st['s'].get('e') for b, j, st in xg.cfg.returns()]
    okx = bool(rets) and all(('126' in show(r) and '127' in show(r) and '||' in show(r)) for r in rets)
    obls.append(Obl('C12.R5', xg.name, 'XG drum banks are MSB 126/127', xg.loc, 'discharged' if okx else 'finding', why=show(rets[0]) if rets else '?'))
    n5 = 0
    bank_storers = {}
    for fn in facts.all_fns():
        if not fn.name.startswith('OPNMIDIplay::') or '::MIDIchannel::' in fn.name:
            continue
        for b, j, st in fn.cfg.stmts():
            for x in walk(st['s']):
                ap = assign_parts(x)
                if not ap or strip(ap[0]).get('k') != 'MemberExpr':
                    continue
                fld = short(strip(ap[0])['n'])
                if fld in ('bank_msb', 'bank_lsb'):
                    gf = guard_facts(fn, b, st)
                    key = (fn.name, tuple(sorted(fact_str(f_) for f_ in gf if f_[0] == 'case')))
                    bank_storers.setdefault(key, {'loc': st['loc'], 'role': False})
                    bank_storers[key].setdefault('stores', []).append((fn, b, j, st['loc']))
                if fld == 'is_xg_percussion' and short(callee_name(strip(ap[1]))) == 'isXgPercChannel':
                    n5 += 1
                    gf = guard_facts(fn, b, st)
                    notgs = any(f_[0] == 'cmp' and f_[1] == '==' and const_of(f_[3]) == 0 and mentions(f_[2], member_named('m_synthMode')) and mentions(f_[2], ref_named('Mode_GS')) for f_ in gf)
                    a = strip(ap[1])['a']
                    argok = 'bank_msb' in show(a[0]) and 'bank_lsb' in show(a[1])
                    obls.append(Obl('C12.R5', fn.name, 'XG role update', st['loc'], 'discharged' if (notgs and argok) else 'finding',
                                    why='is_xg_percussion = isXgPercChannel(bank_msb, bank_lsb) only outside GS mode' if (notgs and argok) else
                                    'the XG drum-bank test is applied in GS mode as well (or on the wrong bytes): a GS drum-part assignment is lost'))
                    key = (fn.name, tuple(sorted(fact_str(f_) for f_ in gf if f_[0] == 'case')))
                    bank_storers.setdefault(key, {'loc': st['loc'], 'role': False})['role'] = True
                    bank_storers[key].setdefault('roles', []).append((fn, b, j))
    if n5 < 2:
        raise build.AnalysisBroken('C12.R5: XG role updates not found')
    for (fname, cases), d in sorted(bank_storers.items()):
        # the role is a function of the bank bytes: it must be computed after the last store of them
        late = None
        for (f1, b1, j1, loc1) in d.get('stores', []):
            if not any((b2 == b1 and j2 > j1) or (b2 != b1 and f1.cfg.block_dominates(b1, b2)) for (f2, b2, j2) in d.get("roles", [])):
                late = loc1
        if d['role'] and late:
            obls.append(Obl('C12.R6', fname, 'bank bytes stored%s' % (' (%s)' % ','.join(cases) if cases else ''), late, 'finding',
                            why='the percussion role is computed from the bank bytes before this store changes them: the channel keeps the role of the bank it had (a drum channel stays a drum channel on bank 0:0)'))
            continue
        obls.append(Obl('C12.R6', fname, 'bank bytes stored%s' % (' (%s)' % ','.join(cases) if cases else ''), d['loc'], 'discharged' if d['role'] else 'finding',
                        why='performs the XG percussion-role update after the stores' if d['role'] else 'stores the bank bytes without the role update that CC0/CC32 perform: the next note plays the wrong kind of bank'))
    # ---- R7: value range of the stored bank bytes over all stores of the program (interval engine, API arguments at full type range)
    res7 = res
    for fld in ('bank_msb', 'bank_lsb'):
        v = res7['field_ranges'].get('OPNMIDIplay::MIDIchannel::' + fld)
        if v is None:
            raise build.AnalysisBroken('C12.R7: no stores of MIDIchannel::%s seen by the interval engine' % fld)
        ok = v.lo >= 0 and v.hi <= 127
        obls.append(Obl('C12.R7', 'OPNMIDIplay', 'range of MIDIchannel::' + fld, non.loc, 'discharged' if ok else 'finding',
                        why='join of all stores: %s' % v if ok else
                        'a store of MIDIchannel::%s can reach %s: realTime_NoteOn builds the bank key as msb * 256 + lsb, so bit 7 of the MSB selects a percussion bank for a melodic channel and bit 7 of the LSB survives the `& ~0x7F` fallback' % (fld, v)))
    return obls
