"""C13 — audio calls fill exactly what they report, in the requested sample format.

R1  both *Format functions round the request down to even and return 0 for negative counts / NULL device before any write.
R2  the per-period frame count is at most 512 where it reaches the mix buffer (memset <= sizeof), the chips and the copy-out.
R3  copy bound: frame count = min(requested - written, produced)/2, destination offset = (written/2)*sampleOffset; the copy
    helpers write element i at dst + i*sampleOffset from src[2i], src[2i+1].
R4  format table: destination element size equals the container-size case label; the converter selected for the sample type is
    the one applied; unsupported pairs return -1 and both callers turn that into 0; converter value ranges are the documented ones.
R5  the returned count is the accumulated number of samples copied out.
"""
from ..core import *
from ..logic import *
from ..e2 import *
from .. import e2prog
from .. import affine
from ..report import Obl, Rule
from .. import build

PROP = 'C13'
RULES = [
    Rule('C13.R1', 'request rounded down to even; negative counts and NULL device return 0 before any write', 4),
    Rule('C13.R2', 'per-period frame count <= 512 at the mix buffer, the chips and the copy-out', 6),
    Rule('C13.R3', 'copy-out frame count and destination offset have the required form; helpers write at i*sampleOffset', 8),
    Rule('C13.R4', 'format dispatch: container size == destination element size, selected converter applied, unsupported refused, converter ranges', 20),
    Rule('C13.R5', 'returned count equals the accumulated copied samples', 2),
    Rule('C13.R7', 'every chip wrapper fills its whole block on every path of nativeGenerateN (the buffered base copies the block out unconditionally)', 3),
    Rule('C13.R6', 'frames generated and copied per period never exceed the frames left in the request', 3),
]
EXPLANATION = ('CFG dominance for the argument screening, interval abstract interpretation (E2) for the period clamp and the converter value ranges, and AST '
               'shape agreement for the copy-out arithmetic and the (sample type, container) dispatch table of SendStereoAudio (template arguments resolved '
               'at each call site). Decides the structural conditions of "fills exactly what it reports" for all request sizes and formats; does not decide '
               'the emulators\' own buffers nor equality of the signal across formats.')
ASSUMPTIONS = ['the caller\'s buffers hold the requested number of samples at the given sample offset (API contract)',
               'the lower bound 0 of the period length depends on floating-point bookkeeping (carry >= 0) and is not decided']

EXPECT_RANGES = {
    'opn2_cvtS16': (-32768, 32767), 'opn2_cvtU16': (0, 65535), 'opn2_cvtS8': (-128, 127), 'opn2_cvtU8': (0, 255),
    'opn2_cvtS24': (-8388608, 32767 * 256), 'opn2_cvtU24': (0, 32767 * 256 + 8388608), 'opn2_cvtS32': (-2147483648, 32767 * 65536),
}
TYPE_CONVERTERS = {'S8': 'opn2_cvtS8', 'U8': 'opn2_cvtU8', 'S16': 'opn2_cvtS16', 'U16': 'opn2_cvtU16', 'S24': 'opn2_cvtS24', 'U24': 'opn2_cvtU24',
                   'S32': 'opn2_cvtS32', 'U32': 'opn2_cvtU32'}


def views(tier):
    return ['V0'] if tier == 'quick' else ['V0', 'V1', 'noSEQ']


def analyse(facts, tier):
    obls = []
    res = e2prog.analyse_program(facts)
    fmts = [facts.fn('opn2_generateFormat')]
    if facts.fns.get('opn2_playFormat') and len(facts.fn('opn2_playFormat').d['blocks']) > 6:
        fmts.append(facts.fn('opn2_playFormat'))
    ssa = facts.fn('SendStereoAudio')

    for fn in fmts:
        cfg = fn.cfg
        cnt = fn.params[1]['id']
        dev = fn.params[0]['id']
        # ---- R1
        first = None
        for b, j, st in cfg.stmts():
            first = st
            break
        ap = assign_parts(first['s']) if first else None
        even = bool(ap and strip(ap[0]).get('id') == cnt and ap[2] == '-=' and strip(ap[1]).get('k') == 'BinaryOperator' and strip(ap[1])['op'] == '%' and const_of(strip(ap[1])['r']) == 2 and strip(strip(ap[1])['l']).get('id') == cnt)
        obls.append(Obl('C13.R1', fn.name, 'round down to even', first['loc'] if first else fn.loc, 'discharged' if even else 'finding',
                        why='first statement: sampleCount -= sampleCount % 2' if even else 'the request is not rounded down to an even sample count first'))
        writes = []
        # also the calls a local helper makes on behalf of the function (arguments read in the caller's terms)
        for b, j, st, s_, owner, bind in with_helpers(facts, fn):
            for x in calls_in(s_):
                if short(callee_name(x)) in ('memset', 'generate32', 'generateAndMix32', 'SendStereoAudio', 'Tick', 'TickIterators'):
                    writes.append((b, j, st, subst(x, bind) if bind else x))
        if len(writes) < 4:
            raise build.AnalysisBroken('C13: mix/copy calls not found in %s' % fn.name)
        bad = []
        for b, j, st, x in writes:
            gf = guard_facts(fn, b, st, loops=False)
            neg = any(f[0] == 'cmp' and strip(f[2]).get('id') == cnt and ((f[1] == '>=' and const_of(f[3]) == 0) or (f[1] == '>' and const_of(f[3]) in (0, -1))) for f in gf)
            nul = any((f[0] == 'truth' and f[2] and strip(f[1]).get('id') == dev) for f in gf)
            if not (neg and nul):
                bad.append(short(callee_name(x)))
        obls.append(Obl('C13.R1', fn.name, 'negative count / NULL device screened', fn.loc, 'finding' if bad else 'discharged',
                        why=('reached without the screening: %s' % sorted(set(bad))) if bad else 'every buffer write and tick is dominated by sampleCount >= 0 and device != NULL'))
        zero_rets = [st for b, j, st in cfg.returns() if const_of(st['s'].get('e')) == 0]
        obls.append(Obl('C13.R1', fn.name, 'screened requests return 0', fn.loc, 'discharged' if len(zero_rets) >= 2 else 'finding', why='%d early `return 0`' % len(zero_rets)))

        # ---- R2 with the interval engine
        eng = Engine2(facts, res['field_ranges'], e2prog.MIN_SIZES, res['param_ranges'], resizers=res['resizers'])
        seen = []
        def signed_view(e_, e, st):
            # value of the expression with conversions of signed quantities to size_t left out: upper bounds are what is decided here
            e = strip(e)
            if e.get('k') == 'BinaryOperator' and e['op'] == '*':
                a, b2 = signed_view(e_, e['l'], st), signed_view(e_, e['r'], st)
                if a is not None and b2 is not None and not a.f and not b2.f:
                    c = [a.lo * b2.lo, a.lo * b2.hi, a.hi * b2.lo, a.hi * b2.hi]
                    return V(min(c), max(c))
            return e_.ev_inner(e, st)
        def hook(e_, e, st):
            inner = []
            for x in calls_in(e):
                inner.append(x)
                for cf in facts.fns.get(callee_name(x), [])[:1]:
                    if is_local_helper(fn, cf) and not trange(cf.d.get('ret') or {}):
                        # a void local helper: its calls count as calls of this function, with the parameters read as the arguments
                        args = x.get('a') or []
                        bind = {p_['id']: args[i_] for i_, p_ in enumerate(cf.params) if i_ < len(args)}
                        inner += [subst(y, bind) for y in calls_in(cf.tree)]
            for x in inner:
                sn = short(callee_name(x))
                if sn == 'memset' and len(x['a']) >= 3:
                    seen.append((x.get('ln'), 'memset of the mix buffer', signed_view(e_, x['a'][2], st), 1024 * 4))
                if sn in ('generate32', 'generateAndMix32') and len(x['a']) >= 2:
                    seen.append((x.get('ln'), sn + ' frames', signed_view(e_, x['a'][1], st), 512))
                if sn == 'SendStereoAudio' and len(x['a']) >= 2:
                    seen.append((x.get('ln'), 'frames handed to the copy-out', signed_view(e_, x['a'][1], st), 512))
        eng.value_hooks.append(hook)
        eng.run(fn, record=True)
        if len(seen) < 3:
            raise build.AnalysisBroken('C13.R2: period uses not reached in %s' % fn.name)
        done = set()
        for ln, what, v, lim in seen:
            if (ln, what) in done:
                continue
            done.add((ln, what))
            ok = v is not None and not v.f and v.hi <= lim
            obls.append(Obl('C13.R2', fn.name, what, '%s:%s' % (fn.file, ln), 'discharged' if ok else 'finding',
                            why=('upper bound of %s <= %d' % (v, lim)) if ok else 'value %s can exceed %d: the 1024-sample mix buffer is overrun' % (v, lim)))
        obls.append(Obl('C13.R2', fn.name, 'period length >= 0', fn.loc, 'assumed', why='rests on floating-point bookkeeping (carry and delay never negative); not decided', nontrivial=False))
        # the signed clamp itself: in_generatedStereo = (n > 512) ? 512 : n
        clamp = None
        for vid_, ms_ in min_defs(fn).items():
            for m in ms_:
                cs = [const_of(arm) for arm in m if const_of(arm) is not None]
                if len(cs) == 1 and cs[0] >= 64:
                    lns = [a_.get('ln') for a_ in m if isinstance(a_, dict) and a_.get('ln')]
                    clamp = (cs[0], '%s:%s' % (fn.file, lns[0]) if lns else fn.loc, vid_)
        ok = clamp is not None and clamp[0] <= 512
        obls.append(Obl('C13.R2', fn.name, 'period clamp', clamp[1] if clamp else fn.loc, 'discharged' if ok else 'finding',
                        why='frames = min(n, %d), and 2*%d samples fit m_outBuf[1024]' % (clamp[0], clamp[0]) if ok else 'no clamp of the period to 512 frames'))
        if clamp:
            # every use of the period in memset / generate / SendStereoAudio goes through the clamped variable
            uses_ok = True
            for b, j, st, x in writes:
                sn = short(callee_name(x))
                if sn in ('generate32', 'generateAndMix32', 'SendStereoAudio'):
                    a = x['a'][1]
                    if not mentions(a, lambda y: y.get('id') == clamp[2]):
                        uses_ok = False
            obls.append(Obl('C13.R2', fn.name, 'chips and copy-out use the clamped period', fn.loc, 'discharged' if uses_ok else 'finding',
                            why='generate32/generateAndMix32/SendStereoAudio receive the clamped frame count' if uses_ok else 'a consumer receives an unclamped frame count'))

        # ---- R5
        # the accumulator: the local the non-constant returns hand back; the remaining count: the local initialised from the request
        rets = [st for b, j, st in cfg.returns() if st['s'].get('e') is not None and const_of(st['s']['e']) is None]
        acc_ids = {y.get('id') for r in rets for y in walk(r['s']['e']) if isinstance(y, dict) and y.get('k') == 'DeclRefExpr' and not y.get('parm')}
        left_ids = set()
        for b, j, st in cfg.stmts():
            if st['s'].get('k') == 'DeclStmt':
                for v in st['s']['decls']:
                    if v.get('init') is not None and strip(v['init']).get('id') == cnt:
                        left_ids.add(v['id'])
        acc = None
        for b, j, st in cfg.stmts():
            for x in walk(st['s']):
                ap = assign_parts(x)
                if ap and ap[2] == '+=' and strip(ap[0]).get('k') == 'DeclRefExpr' and strip(ap[0]).get('id') in acc_ids:
                    acc = (show(strip(ap[1])), st['loc'], strip(ap[0]).get('id'))
        ok = acc is not None and rets and all(mentions(r['s']['e'], lambda y: y.get('id') == acc[2]) for r in rets)
        left_dec = any(assign_parts(x) and assign_parts(x)[2] == '-=' and strip(assign_parts(x)[0]).get('id') in left_ids and acc and show(strip(assign_parts(x)[1])) == acc[0]
                       for b, j, st in cfg.stmts() for x in walk(st['s']))
        copies = [(b, j) for b, j, st in cfg.stmts() for x in calls_in(st['s']) if short(callee_name(x)) == 'SendStereoAudio']
        for b, j, st in cfg.returns():
            if st['s'].get('e') is None or const_of(st['s']['e']) is None:
                continue
            if not any(cfg.stmt_before(c, (b, j)) for c in copies):
                continue
            gf = guard_facts(fn, b, st)
            fail = any(f[0] == 'cmp' and f[1] == '==' and const_of(f[3]) == -1 and short(callee_name(strip(f[2]))) == 'SendStereoAudio' for f in gf)
            obls.append(Obl('C13.R5', fn.name, 'return %s after a copy-out' % show(st['s']['e']), st['loc'], 'discharged' if fail else 'finding',
                            why='refusal of an unsupported format (nothing was written)' if fail else
                            'a constant is returned on a path on which earlier periods of this call have already been copied out: the call reports fewer samples than it stored'))
        obls.append(Obl('C13.R5', fn.name, 'return gotten_len', rets[0]['loc'] if rets else fn.loc, 'discharged' if (ok and left_dec) else 'finding',
                        why='gotten_len += %s; left -= the same; return gotten_len' % acc[0] if (ok and left_dec) else 'returned count is not the accumulated copied samples (acc=%s, left decrement matches=%s)' % (acc, left_dec)))
        # -1 from the copy-out becomes 0
        conv = any(const_of(st['s'].get('e')) == 0 and any(f[0] == 'cmp' and f[1] == '==' and const_of(f[3]) == -1 and short(callee_name(strip(f[2]))) == 'SendStereoAudio' for f in guard_facts(fn, b, st)) for b, j, st in cfg.returns())
        obls.append(Obl('C13.R4', fn.name, 'unsupported format => 0', fn.loc, 'discharged' if conv else 'finding', why='SendStereoAudio(...) == -1 -> return 0' if conv else 'a refused format is not turned into a return value of 0'))

    # ---- R3 shapes in SendStereoAudio
    sd = single_defs(ssa.d)
    # parameters by position: requested samples, produced frames, source, samples written so far, left, right, format.  Every local
    # (toCopy, maxSamples, inSamples, outputOffset, sampleOffset - whatever they are called) is replaced by its definition, and the
    # expressions that reach the copy helpers and the destination pointers are compared with the required forms.
    if len(ssa.params) < 7:
        raise build.AnalysisBroken('C13.R3: SendStereoAudio has %d parameters, expected 7' % len(ssa.params))
    P_REQ, P_FRAMES, P_SRC, P_POS, P_LEFT, P_RIGHT, P_FMT = [p_['id'] for p_ in ssa.params[:7]]
    def is_par(e, pid):
        return strip(e).get('k') == 'DeclRefExpr' and strip(e).get('id') == pid
    def bin_(e, op):
        e = strip(e)
        return (e['l'], e['r']) if e.get('k') == 'BinaryOperator' and e.get('op') == op else None
    def comm(pair, p1, p2):
        return pair is not None and ((p1(pair[0]) and p2(pair[1])) or (p1(pair[1]) and p2(pair[0])))
    counts = []
    for b, j, st in ssa.cfg.stmts():
        for x in calls_in(st['s']):
            if short(callee_name(x)).startswith('CopySamples') and len(x.get('a', [])) >= 5:
                counts.append((subst(x['a'][3], sd), subst(x['a'][4], sd), st['loc']))
    if not counts:
        raise build.AnalysisBroken('C13.R3: calls of the copy helpers not found in SendStereoAudio')
    def is_room(e):      # requested - written
        pr = bin_(e, '-')
        return pr is not None and is_par(pr[0], P_REQ) and is_par(pr[1], P_POS)
    def is_produced(e):  # 2 * produced frames
        return comm(bin_(e, '*'), lambda a: is_par(a, P_FRAMES), lambda a: const_of(a) == 2)
    ok_min = ok_room = ok_prod = ok_half = True
    for cnt_e, stride_e, loc_ in counts:
        half = bin_(cnt_e, '/')
        if not (half and const_of(half[1]) == 2):
            ok_half = False
            continue
        m_ = minlike(half[0])
        if not m_:
            ok_min = False
            continue
        ok_room = ok_room and any(is_room(a) for a in m_)
        ok_prod = ok_prod and any(is_produced(a) for a in m_)
    c0 = counts[0]
    obls.append(Obl('C13.R3', ssa.name, 'toCopy = min(maxSamples, inSamples)', c0[2], 'discharged' if (ok_min and ok_half) else 'finding',
                    why='every copy helper receives min(..) / 2 frames (%d call sites)' % len(counts) if (ok_min and ok_half) else 'the frame count handed to a copy helper is %s' % show(strip(c0[0]))))
    obls.append(Obl('C13.R3', ssa.name, 'maxSamples = requested - written', c0[2], 'discharged' if ok_room else 'finding', why=show(strip(c0[0]))[:120]))
    obls.append(Obl('C13.R3', ssa.name, 'inSamples = 2 * produced frames', c0[2], 'discharged' if ok_prod else 'finding', why=show(strip(c0[0]))[:120]))
    obls.append(Obl('C13.R3', ssa.name, 'outputOffset = out_pos', c0[2], 'discharged' if ok_room else 'finding', why='the samples already written are the parameter itself'))
    def from_format(e):
        e = strip(e)
        return e.get('k') == 'MemberExpr' and short(e['n']) == 'sampleOffset' and strip(e.get('b') or {}).get('id') == P_FMT
    for side, pid in (('left', P_LEFT), ('right', P_RIGHT)):
        found = None
        for b, j, st in ssa.cfg.stmts():
            for x in walk(st['s']):
                ap = assign_parts(x)
                if ap and strip(ap[0]).get('id') == pid and ap[2] == '+=':
                    found = (strip(subst(ap[1], sd)), st['loc'])
        ok = False
        if found:
            ok = comm(bin_(found[0], '*'), from_format, lambda a: bin_(a, '/') is not None and is_par(bin_(a, '/')[0], P_POS) and const_of(bin_(a, '/')[1]) == 2)
        obls.append(Obl('C13.R3', ssa.name, '%s += (written / 2) * sampleOffset' % side, found[1] if found else ssa.loc, 'discharged' if ok else 'finding',
                        why=show(found[0]) if found else 'destination pointer is not advanced'))
    ok = all(from_format(stride_e) for cnt_e, stride_e, loc_ in counts)
    obls.append(Obl('C13.R3', ssa.name, 'sampleOffset comes from the format', ssa.loc, 'discharged' if ok else 'finding', why='format->sampleOffset' if ok else 'sampleOffset is not the caller\'s format field'))
    # helpers
    for hname in ('CopySamplesTransformed', 'CopySamplesRaw'):
        for h in facts.fns.get(hname, [])[:1]:
            # parameters by position: destination left, destination right, source, frame count, stride; the addresses of the two
            # stores of a round and of the two source reads as affine forms in the round counter (whatever it is called and however
            # the address is spelled: p[k], *(p + k), a local pointer to the frame)
            pn = [p_['n'] for p_ in h.params]
            loops_h = [x for x in walk(h.tree) if isinstance(x, dict) and x.get('k') in ('ForStmt', 'WhileStmt') and x.get('cond') is not None]
            stores = []
            for b, j, st in h.cfg.stmts():
                for x in walk(st['s']):
                    ap = assign_parts_raw(x)
                    if ap and ap[2] == '=' and strip(ap[0]).get('k') in ('UnaryOperator', 'ArraySubscriptExpr'):
                        stores.append((st, ap))
            shapes = []
            lp = False
            for st, ap in stores:
                eng = affine.Affine(h, [], {})
                env = eng.run(lambda t, env_, e_, st=st: t is st['s'] or (isinstance(t, dict) and t.get('ln') == st['s'].get('ln') and show(t) == show(st['s'])))
                if env is None:
                    continue
                dst = affine.address_form(eng, ap[0], env)
                reads = [y for y in walk(ap[1]) if isinstance(y, dict) and (y.get('k') == 'ArraySubscriptExpr' or (y.get('k') == 'UnaryOperator' and y.get('op') == '*'))]
                src = affine.address_form(eng, reads[0], env) if len(reads) == 1 else None
                shapes.append((dst, src))
                # the loop runs frameCount rounds: its condition compares, in round #k, c * #k with c * frameCount (`i < n`, `p != end`)
                for l_ in loops_h:
                    c_ = strip(l_['cond'])
                    if c_.get('k') == 'BinaryOperator' and c_.get('op') in ('<', '!='):
                        d_ = affine.add_forms(eng.form(c_['l'], env), eng.form(c_['r'], env), -1)
                        if d_ is not None and d_[1] == 0 and set(d_[0]) == {'#k', pn[3]} and d_[0]['#k'] > 0 and d_[0]['#k'] == -d_[0][pn[3]]:
                            lp = True
            stride = '*'.join(sorted(('#k', pn[4])))
            want = [(({pn[0]: 1, stride: 1}, 0), ({pn[2]: 1, '#k': 2}, 0)), (({pn[1]: 1, stride: 1}, 0), ({pn[2]: 1, '#k': 2}, 1))]
            ok = len(shapes) == 2 and all(w in shapes for w in want)
            dsts = [str(x) for x in shapes]
            # nothing else is written: every store to memory in the helper is one of the two strided stores
            other = []
            for b, j, st in h.cfg.stmts():
                for x in walk(st['s']):
                    ap = assign_parts(x)
                    if ap and strip(ap[0]).get('k') in ('UnaryOperator', 'ArraySubscriptExpr', 'MemberExpr'):
                        d = show(ap[0])
                        if not any(st is st_ for st_, ap_ in stores) or not ok:
                            other.append((st['loc'], d[:50]))
                for x in calls_in(st['s']):
                    if short(callee_name(x)) in ('memcpy', 'memmove', 'memset', 'copy'):
                        other.append((st['loc'], show(x)[:50]))
            obls.append(Obl('C13.R3', h.name, 'no store besides the two strided ones', other[0][0] if other else h.loc, 'finding' if other else 'discharged',
                            why=('%s writes outside the left/right + i*sampleOffset slots: with planar buffers or a stride other than the packed one, samples land in the caller\'s gaps or in the wrong channel' % other[0][1]) if other else 'only *(Dst*)(dstLeft|dstRight + i*sampleOffset) is written'))
            obls.append(Obl('C13.R3', h.name, 'writes frame i at dst + i*sampleOffset from src[2i], src[2i+1]', h.loc, 'discharged' if (ok and lp) else 'finding',
                            why='loop i < frameCount; left/right stores at i*sampleOffset' if (ok and lp) else 'copy helper does not have the required addressing (%s)' % dsts[:2]))

    # ---- R4 dispatch table
    enum = {v: n for n, v in facts.enums.items() if n.startswith('OPNMIDI_SampleType_') and not n.endswith('Count')}
    if len(enum) < 10:
        raise build.AnalysisBroken('C13.R4: sample type enumeration not found')
    # cvt local per sample-type arm
    n_arms = 0
    # the format fields by shape: an expression "is the sample type / the container size" when it is the member of the public
    # OPNMIDI_AudioFormat struct or a local initialised from it (no dependence on the names of the locals)
    fmt_locals = {}
    for b, j, st in ssa.cfg.stmts():
        if st['s'].get('k') == 'DeclStmt':
            for v in st['s']['decls']:
                i_ = strip(v.get('init')) if v.get('init') is not None else None
                while i_ is not None and (i_.get('k') or '').endswith('CastExpr'):
                    i_ = strip(i_.get('e'))
                if i_ is not None and i_.get('k') == 'MemberExpr' and 'AudioFormat' in i_.get('n', ''):
                    fmt_locals[v['id']] = short(i_['n'])
    def fmt_field(name):
        return lambda y: (y.get('k') == 'MemberExpr' and 'AudioFormat' in y.get('n', '') and short(y['n']) == name) or \
                         (y.get('k') == 'DeclRefExpr' and fmt_locals.get(y.get('id')) == name)
    def ref_named(nm):      # shadows the name-based helper inside this rule
        return fmt_field({'sampleType': 'type', 'containerSize': 'containerSize'}[nm])
    for b, j, st in ssa.cfg.stmts():
        for x in calls_in(st['s']):
            if not callee_name(x).startswith('CopySamples'):
                continue
            n_arms += 1
            gf = guard_facts(ssa, b, st)
            cases = [f for f in gf if f[0] == 'case']
            tcase = [f for f in cases if mentions(f[1], ref_named('sampleType'))]
            ccase = [f for f in cases if mentions(f[1], ref_named('containerSize'))]
            types = [enum.get(v, str(v)).replace('OPNMIDI_SampleType_', '') for f in tcase for v in f[2]]
            dst = (x.get('ctargs') or [{}])[0]
            csz = ccase[0][2][0] if ccase else None
            if csz is None:
                # F32/F64: `if(containerSize != sizeof(T)) return -1;`
                for f in gf:
                    n = cmp_norm(f) if f[0] == 'cmp' else None
                    if n and n[0] == '==' and mentions(n[1], ref_named('containerSize')):
                        csz = n[2]
            ok_size = csz is not None and dst.get('sz') == csz
            # converter
            conv = None
            if callee_name(x) == 'CopySamplesTransformed' and len(x['a']) >= 6:
                c = strip(x['a'][5])
                if c.get('k') == 'DeclRefExpr' and c.get('fn'):
                    conv = [short(c['n'])]
                elif c.get('k') == 'DeclRefExpr':
                    # local reference bound to (sampleType == A) ? cvtA : cvtB in the same arm
                    for b2, j2, st2 in ssa.cfg.stmts():
                        if st2['s'].get('k') == 'DeclStmt':
                            for v in st2['s']['decls']:
                                if v['id'] == c.get('id') and 'init' in v and any(f2 in guard_facts(ssa, b2, st2) for f2 in tcase):
                                    i = strip(v['init'])
                                    if i.get('k') == 'ConditionalOperator':
                                        cc = strip(i['cnd'])
                                        sel = enum.get(const_of(cc['r']), '').replace('OPNMIDI_SampleType_', '') if cc.get('k') == 'BinaryOperator' and cc['op'] == '==' else None
                                        conv = {sel: short(strip(i['l']).get('n', '')), '*': short(strip(i['r']).get('n', ''))}
            ok_conv = False
            if isinstance(conv, list):
                ok_conv = conv[0] == 'opn2_cvtReal' and all(t in ('F32', 'F64') for t in types) and dst.get('f')
            elif isinstance(conv, dict) and len(types) == 2:
                sel = [t for t in types if t in conv]
                oth = [t for t in types if t not in conv]
                ok_conv = len(sel) == 1 and len(oth) == 1 and conv[sel[0]] == TYPE_CONVERTERS.get(sel[0]) and conv['*'] == TYPE_CONVERTERS.get(oth[0])
            ok = ok_size and ok_conv
            obls.append(Obl('C13.R4', ssa.name, 'arm %s / container %s' % ('+'.join(types), csz), st['loc'], 'discharged' if ok else 'finding',
                            why='destination element %s (%s bytes), converter %s' % (dst.get('s'), dst.get('sz'), conv) if ok else
                            'format arm is inconsistent: element %s of %s bytes for container %s, converter %s for types %s' % (dst.get('s'), dst.get('sz'), csz, conv, types)))
    if n_arms < 8:
        raise build.AnalysisBroken('C13.R4: only %d copy arms found' % n_arms)
    # unsupported pairs refuse
    minus = [st for b, j, st in ssa.cfg.returns() if const_of(st['s'].get('e')) == -1]
    # .. or store -1 into the local that the function returns (single-exit form)
    ret_ids = {strip(st['s']['e']).get('id') for b, j, st in ssa.cfg.returns() if st['s'].get('e') is not None and strip(st['s']['e']).get('k') == 'DeclRefExpr'}
    for b, j, st in ssa.cfg.stmts():
        for x in walk(st['s']):
            ap = assign_parts_raw(x) if isinstance(x, dict) else None
            if ap and ap[2] == '=' and strip(ap[0]).get('id') in ret_ids and const_of(ap[1]) == -1:
                minus.append(st)
    obls.append(Obl('C13.R4', ssa.name, 'unsupported pairs return -1', ssa.loc, 'discharged' if len(minus) >= 6 else 'finding', why='%d refusing returns (one per sample-type group and the outer default)' % len(minus)))
    # converter ranges by abstract evaluation over all int32 inputs
    for cname, (lo, hi) in sorted(EXPECT_RANGES.items()):
        cf = facts.fn(cname)
        eng = Engine2(facts, {}, {}, {})
        eng.run(cf, record=False)
        rv = None
        for v in eng.returns:
            rv = v if rv is None else rv.join(v)
        ok = rv is not None and rv.lo == lo and rv.hi == hi
        obls.append(Obl('C13.R4', cname, 'value range over all int32 inputs', cf.loc, 'discharged' if ok else 'finding',
                        why='returns %s' % rv if ok else 'returns %s, documented conversion has [%d, %d]' % (rv, lo, hi)))
    # every integer converter is built on the saturating S16 conversion
    for cname in ('opn2_cvtS8', 'opn2_cvtS24', 'opn2_cvtS32', 'opn2_cvtU16'):
        cf = facts.fn(cname)
        ok = any(short(callee_name(x)) == 'opn2_cvtS16' for b, ex, loc in cf.cfg.exprs() for x in calls_in(ex))
        obls.append(Obl('C13.R4', cname, 'built on the saturating S16 conversion', cf.loc, 'discharged' if ok else 'finding', why='calls opn2_cvtS16' if ok else 'does not saturate through opn2_cvtS16'))
    # every unsigned converter is its signed sibling shifted by half the range (so S and U agree sample by sample, rounding included)
    for bits in (8, 16, 24, 32):
        cf = facts.fn('opn2_cvtU%d' % bits)
        okk, why = False, 'return expression is not opn2_cvtS%d(x) - INT%d_MIN' % (bits, bits)
        for b, j, st in cf.cfg.returns():
            e = strip(st['s'].get('e'))
            if e is not None and e.get('k') == 'BinaryOperator' and e['op'] == '-':
                l, r = strip(e['l']), e['r']
                c = const_of(r)
                if short(callee_name(l)) == 'opn2_cvtS%d' % bits and c is not None and (c == -(1 << (bits - 1)) or c == (1 << (bits - 1)) and bits == 32):
                    okk, why = True, 'opn2_cvtS%d(x) - (%d)' % (bits, c)
        status = 'discharged' if okk else 'finding'
        if not okk:
            # another spelling of the same function?  evaluate both siblings on representatives of every rounding class
            sf = facts.fn('opn2_cvtS%d' % bits)
            bad = None
            for x0 in (-70000, -32769, -32768, -32767, -513, -512, -511, -257, -256, -255, -129, -128, -127, -7, -1, 0, 1, 7, 127, 128, 255, 256, 257, 32766, 32767, 32768, 70000):
                vals = []
                for f_ in (cf, sf):
                    eng = Engine2(facts, {}, {}, {})
                    s0 = St(); s0.env[('v', f_.params[0]['id'])] = V(x0, x0)
                    eng.run(f_, s0, record=False)
                    rv = None
                    for v in eng.returns:
                        rv = v if rv is None else rv.join(v)
                    vals.append(rv)
                u, sg = vals
                if u is None or sg is None or not u.is_point() or not sg.is_point() or (u.lo - sg.lo) % (1 << 32) != (1 << (bits - 1)) % (1 << 32):
                    bad = (x0, u, sg)
                    break
            if bad is None:
                status, why = 'assumed', 'not of the form S(x) - INT_MIN, but agrees with the signed sibling on representatives of every rounding class'
            else:
                why = 'opn2_cvtU%d(%d) = %s while opn2_cvtS%d(%d) = %s: the unsigned format is no longer the signed one shifted by half the range' % (bits, bad[0], bad[1], bits, bad[0], bad[2])
        obls.append(Obl('C13.R4', cf.name, 'unsigned = signed sibling - INT_MIN', cf.loc, status, why=why))
    # the down-scaling converter is odd-symmetric (rounds toward zero): the 8-bit rendering of a signal and of its negation are
    # negations of each other, so quiet material (|x| < 256) is silence (0 / 128) on both half-waves.  Abstract evaluation of the
    # function on singleton inputs, one per rounding class.
    sf = facts.fn('opn2_cvtS8')
    bad = None
    def at(x0):
        eng = Engine2(facts, {}, {}, {})
        s0 = St(); s0.env[('v', sf.params[0]['id'])] = V(x0, x0)
        eng.run(sf, s0, record=False)
        rv = None
        for v in eng.returns:
            rv = v if rv is None else rv.join(v)
        return rv
    for x0 in (1, 7, 15, 255, 256, 257, 511, 512, 842, 32767):
        p_, n_ = at(x0), at(-x0)
        if p_ is None or n_ is None or not p_.is_point() or not n_.is_point() or p_.lo != -n_.lo:
            bad = (x0, p_, n_)
            break
    obls.append(Obl('C13.R4', sf.name, 'down-scaling rounds toward zero (odd symmetry)', sf.loc, 'discharged' if bad is None else 'finding',
                    why='opn2_cvtS8(-x) == -opn2_cvtS8(x) on representatives of every rounding class' if bad is None else
                    'opn2_cvtS8(%d) = %s but opn2_cvtS8(%d) = %s: negative samples are rounded the other way, quiet material is no longer rendered as silence on its negative half-waves (S8 -1 / U8 127 instead of 0 / 128)' % (bad[0], bad[1], -bad[0], bad[2])))
    # the floating formats are the unsaturated signal divided by 32767: opn2_cvtReal is linear in its argument - its return value is
    # the parameter (converted) times / divided by a constant, with no call, clamp or conditional in between
    for cf in facts.fns.get('opn2_cvtReal', []):
        if cf.tree is None:
            continue
        par = cf.params[0]['id']
        rets = [st['s'].get('e') for b, j, st in cf.cfg.returns()]
        bad = None
        if len(rets) != 1:
            bad = 'more than one return'
        else:
            e = strip(rets[0])
            if e.get('k') != 'BinaryOperator' or e.get('op') not in ('*', '/'):
                bad = 'the result is not a product / quotient'
            else:
                leaf = strip(e['l'])
                while leaf is not None and (leaf.get('k') or '').endswith('CastExpr'):
                    leaf = strip(leaf.get('e'))
                if leaf is None or leaf.get('id') != par:
                    bad = 'the scaled value is %s, not the sample itself' % show(e['l'])[:40]
                if any(isinstance(y, dict) and (y.get('k') == 'ConditionalOperator' or ('callee' in y and not y.get('ctor'))) for y in walk(e['l'])):
                    bad = 'the sample passes through %s before it is scaled' % show(e['l'])[:40]
                fcv = strip(e['r']).get('fc') if isinstance(strip(e['r']), dict) else None
                if fcv is None:
                    fcv = const_of(e['r'])
                want = (1.0 / 32767.0) if e.get('op') == '*' else 32767.0
                if not bad and (fcv is None or abs(fcv - want) > 1e-6 * want):
                    bad = 'the scale constant is %s, not %s' % (fcv, '1/32767' if e.get('op') == '*' else '32767')
        obls.append(Obl('C13.R4', cf.name, 'float = sample / 32767, unsaturated', cf.loc, 'discharged' if bad is None else 'finding',
                        why='returns x * (1 / 32767)' if bad is None else bad + ': the floating formats are no longer the unsaturated signal (material above full scale is flattened to +-1.0)'))
        break
    obls += r6(facts)
    obls += r7_block_filled(facts)
    return obls


def r7_block_filled(facts):
    """OPNChipBaseBufferedT::nativeGenerate asks the wrapper for a block (nativeGenerateN(m_buffer, n)) and then hands the samples of
    m_buffer out one by one; the buffer is not initialised by the base.  Whatever the state of the wrapper, every return of
    nativeGenerateN must be dominated by a statement that hands `output` to a call or stores through it: a return in front of it
    makes uninitialised heap memory the audio of that chip."""
    out = []
    n = 0
    for fn in facts.all_fns():
        if short(fn.name) != 'nativeGenerateN' or fn.tree is None or not fn.relfile().startswith('src/chips/'):
            continue
        if not fn.params:
            continue
        par = fn.params[0]['id']
        writers = []
        for b, j, st in fn.cfg.stmts():
            hit = False
            for x in walk(st['s']):
                if isinstance(x, dict) and 'callee' in x and any(isinstance(y, dict) and y.get('id') == par for a in x.get('a', []) for y in walk(a)):
                    hit = True
                ap = assign_parts(x) if isinstance(x, dict) else None
                if ap and any(isinstance(y, dict) and y.get('id') == par for y in walk(ap[0])) and strip(ap[0]).get('k') in ('ArraySubscriptExpr', 'UnaryOperator'):
                    hit = True
            if hit:
                writers.append((b, j))
        exits = [(b, j, st) for b, j, st in fn.cfg.returns()]
        # the fall-through end: the blocks that lead to the exit block
        ends = [i for i, blk in fn.cfg.blocks.items() if fn.cfg.exit in [x for x in blk['succ'] if x is not None] and i != fn.cfg.exit]
        n += 1
        bad = None
        # a per-sample loop `for(i = 0; i < k * frames; ++i) output[i] = ..` fills the block although its body does not dominate the
        # exit (the zero-trip path writes nothing because nothing was asked for): its header counts as the writer
        fpar = fn.params[1]['id'] if len(fn.params) > 1 else None
        for hb, hblk in fn.cfg.blocks.items():
            if hblk.get('term') in ('ForStmt', 'WhileStmt') and hblk.get('cond') is not None and fpar is not None and \
                    any(isinstance(y, dict) and y.get('id') == fpar for y in walk(hblk['cond'])):
                if any(wb != hb and fn.cfg.block_dominates(hb, wb) and fn.cfg.reaches(wb, hb) for wb, wj in writers):
                    writers.append((hb, -1))
        abn = fn.cfg.abnormal_exit_blocks()
        for i in ends:
            blk = fn.cfg.blocks[i]
            if i in abn:
                continue        # the failing arm of an assert() / a noreturn call: no normal return
            last_j = len(blk['stmts'])
            if not any((wb == i and wj < last_j) or (wb != i and fn.cfg.block_dominates(wb, i)) for wb, wj in writers):
                bad = blk['stmts'][-1]['loc'] if blk['stmts'] else fn.loc
        out.append(Obl('C13.R7', fn.name, 'block written on every path', bad or fn.loc, 'discharged' if bad is None else 'finding',
                       why='every exit is dominated by a use of the output block' if bad is None else
                       'a path returns before anything is written to the block: the buffered base copies uninitialised memory out as the audio of this chip'))
    if n < 3:
        raise build.AnalysisBroken('C13.R7: only %d nativeGenerateN implementations found' % n)
    return out



def r6(facts):
    """symbolic bound against `leftSamples = left / 2` (vf/bufsize.py): the frame count handed to the chips and to the copy-out is
    <= leftSamples on every path, so `left` never goes negative and the reported total never exceeds the request"""
    from ..bufsize import BufSize
    out = []
    for name in ('opn2_playFormat', 'opn2_generateFormat'):
        fn = facts.fn(name, required=False)
        if fn is None:
            continue
        ls = None
        # the samples left in the request: the local(s) initialised from the count parameter
        left_ids6 = set()
        for b, j, st in fn.cfg.stmts():
            if st['s'].get('k') == 'DeclStmt':
                for v in st['s']['decls']:
                    if v.get('init') is not None and strip(v['init']).get('id') == fn.params[1]['id']:
                        left_ids6.add(v['id'])
        for b, j, st in fn.cfg.stmts():
            if st['s'].get('k') == 'DeclStmt':
                for v in st['s']['decls']:
                    i0 = strip(v.get('init')) if v.get('init') is not None else None
                    if i0 is not None and i0.get('k') == 'BinaryOperator' and i0['op'] == '/' and const_of(i0['r']) == 2 and strip(i0['l']).get('id') in left_ids6:
                        ls = v
        # a local helper that forwards one of its parameters as the frame count of the chips is a consumer of that argument
        helper_probes = {}
        for b, j, st in fn.cfg.stmts():
            for x in calls_in(st['s']):
                for cf in facts.fns.get(callee_name(x), [])[:1]:
                    if is_local_helper(fn, cf):
                        pidx = {p_['id']: i_ for i_, p_ in enumerate(cf.params)}
                        for y in calls_in(cf.tree):
                            if short(callee_name(y)) in ('generate32', 'generateAndMix32') and len(y.get('a', [])) >= 2 and strip(y['a'][1]).get('id') in pidx:
                                helper_probes[short(cf.name)] = pidx[strip(y['a'][1])['id']]
        has_consumers = any(short(callee_name(x)) in ('generate32', 'generateAndMix32', 'SendStereoAudio') or short(callee_name(x)) in helper_probes for b, ex, loc in fn.cfg.exprs() for x in calls_in(ex))
        if not has_consumers:
            continue        # sequencer compiled out: the function is a stub that returns 0
        if ls is None:
            out.append(Obl('C13.R6', name, 'frames left in the request (left / 2)', fn.loc, 'finding',
                           why='the per-period frame count is never compared with the frames left in the request: the last period of a call can produce more than was asked for'))
            continue
        bs = BufSize(fn, [], ls['id'])
        bs.probes = {'generate32': 1, 'generateAndMix32': 1, 'SendStereoAudio': 1}
        bs.probes.update(helper_probes)
        bs.run()
        if not bs.probe_results:
            raise build.AnalysisBroken('C13.R6: generate / copy-out calls not found in %s' % name)
        for (ln, txt), b in sorted(bs.probe_results.items()):
            ok = b is not None and b[0] == 'rel' and b[1] <= 0
            out.append(Obl('C13.R6', name, txt, '%s:%s' % (fn.file, ln), 'discharged' if ok else 'finding',
                           why='frame count <= %s on every path' % ls['n'] if ok else
                           'the frame count is not bounded by the frames left in the request (%s): the call reports / produces more samples than requested' % (b,)))
    return out
