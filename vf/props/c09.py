"""C09 — loop points.

R1  jump => All-Notes-Off: every assignment of the current position from a stored begin position is accompanied, on every
    path, by the counted loop that sends controller 123 value 0 to channels 0..15.
R2  callbacks at the right sites: loop-start hook where caughtStart is consumed; loop-end hook on the end-of-song / loop-end
    path before the continue/stop decision.
R3  callbacks persist: the sequencer-interface hook slots are stored only by their setters or from the hooks.* twin (C18.R2 machinery).
R4  marker recognition and validation: "loopstart"/"loopend" map to the loop events after lower-casing, CC111 to loop start;
    in the validation of buildSmfTrackData each branch tests and sets its own duplicate flag; start >= end invalidates;
    rewind re-arms the repeat counter from the requested count.
"""
from ..core import *
from ..logic import *
from ..effects import *
from ..report import Obl, Rule
from .. import build

PROP = 'C09'
RULES = [
    Rule('C09.R1', 'every jump back (current position := stored begin position) is accompanied by All-Notes-Off on 16 channels on every path', 3),
    Rule('C09.R2', 'loop-start / loop-end callbacks are invoked at the sites where the loop flags are consumed', 3),
    Rule('C09.R3', 'loop callbacks registered by the user are stored only by their setter or from the hooks twin', 8),
    Rule('C09.R4', 'loop markers are recognised case-insensitively, validated with their own duplicate flags, and the repeat counter is re-armed on rewind', 8),
    Rule('C09.R6', 'a loop begin position is always a snapshot taken at the beginning of a row, before any track of that row has advanced', 3),
    Rule('C09.R7', 'recognising a loop marker does not switch off the recognition of the next marker of the same kind (the duplicate-marker validation must see every marker)', 3),
    Rule('C09.R8', 'a loop setting copied into the live loop state by rewind() is also stored there by its setter (it takes effect without a rewind)', 1),
    Rule('C09.R9', 'the events that share the row with the loop-end marker are skipped only on passes that jump back', 1),
    Rule('C09.R10', 'every loop marker of a row is ordered ahead of the controllers and notes of that row', 1),
    Rule('C09.R5', 'loop markers raise the loop flags only while looping is enabled', 2),
]
EXPLANATION = ('CFG dominance / post-dominance over BW_MidiSequencer::processEvents (jump sites vs. the counted controller-123 loops), guard facts for the '
               'callback sites, the field-ownership rule of C18 restricted to the hook slots, and AST pattern agreement for marker parsing and validation. '
               'Decides structural necessary conditions for every song; repeat counts over real histories are not decided.')
ASSUMPTIONS = ['a counted loop with constant bounds 0..15 executes its body 16 times', 'callbacks invoked through the interface struct are user code']

SEQ = 'OpnMidiSequencer'


def views(tier):
    return ['V0', 'V1'] if tier == 'quick' else ['V0', 'V1', 'noVGM']


def ano_loops(fn):
    """header blocks of `for(i = 0; i < 16; i++) rt_controllerChange(.., i, 123, 0)` loops"""
    found = []
    def rec(t):
        if isinstance(t, dict):
            if t.get('k') == 'ForStmt' and t.get('cond') is not None:
                c = strip(t['cond'])
                ok = c.get('k') == 'BinaryOperator' and c['op'] == '<' and const_of(c['r']) == 16
                iv = strip(c['l']).get('id') if ok else None
                start = None
                init = t.get('init')
                if ok and init is not None:
                    if init.get('k') == 'DeclStmt':
                        for d in init['decls']:
                            if d['id'] == iv and 'init' in d:
                                start = const_of(d['init'])
                    else:
                        ap = assign_parts(init)
                        if ap and strip(ap[0]).get('id') == iv:
                            start = const_of(ap[1])
                incok = t.get('inc') is not None and is_incdec(strip(t['inc'])) and strip(t['inc'])['op'] == '++' and strip(strip(t['inc'])['e']).get('id') == iv
                sends = False
                if ok and start == 0 and incok:
                    for x in walk(t.get('body')):
                        if 'callee_e' in x and mentions(x['callee_e'], member_named('rt_controllerChange')):
                            a = x.get('a', [])
                            if len(a) >= 4 and strip(a[1]).get('id') == iv and const_of(a[2]) == 123 and const_of(a[3]) == 0:
                                sends = True
                if sends:
                    found.append(t)
            for k2 in ('body', 'then', 'else', 'sub', 'init'):
                v = t.get(k2)
                if isinstance(v, list):
                    for y in v:
                        rec(y)
                elif isinstance(v, dict):
                    rec(v)
    rec(fn.tree)
    heads = []
    for t in found:
        hs = [bid for bid, b in fn.cfg.blocks.items() if b.get('term') == 'ForStmt' and b.get('tln') == t.get('ln')]
        heads += hs
    return heads


def analyse(facts, tier):
    obls = []
    if not facts.fns.get(SEQ + '::processEvents'):
        raise build.AnalysisBroken('C09: %s::processEvents not found (sequencer compiled out?)' % SEQ)
    pe = facts.fn(SEQ + '::processEvents')
    cfg = pe.cfg
    heads = ano_loops(pe)
    # a call of a local helper whose body is such a loop (on every path from its entry) is an All-Notes-Off point as well
    call_heads = {}
    for b, j, st in cfg.stmts():
        for x in calls_in(st['s']):
            for cf in facts.fns.get(callee_name(x), [])[:1]:
                if is_local_helper(pe, cf):
                    hh = ano_loops(cf)
                    if hh and any(('b', h_) in (cf.cfg.pdom().get(('b', cf.cfg.entry)) or ()) or h_ == cf.cfg.entry for h_ in hh):
                        call_heads[b] = (b, j, st)
    heads = heads + [b for b in call_heads if b not in heads]
    dom, pdom = cfg.dom(), cfg.pdom()
    # ---- R1
    n = 0
    jump_sources = set()
    for b, j, st in cfg.stmts():
        for x in walk(st['s']):
            ap = assign_parts(x)
            if not ap:
                continue
            tgt, rhs = strip(ap[0]), strip(ap[1])
            if tgt.get('k') == 'MemberExpr' and short(tgt['n']) == 'm_currentPosition':
                src = show(rhs)
                if 'Position' not in src and 'position' not in src:
                    continue
                n += 1
                jump_sources.add(src)
                ok = False
                for h in heads:
                    if ('b', h) in (dom.get(('b', b)) or ()):
                        ok = True       # the loop ran before the jump on every path
                    if ('b', h) in (pdom.get(('b', b)) or ()):
                        ok = True       # every path from the jump to the exit passes the loop
                why_ok = 'an All-Notes-Off loop (CC123=0 on channels 0..15) dominates or post-dominates the jump'
                if not ok:
                    # path-sensitive: the paths that by-pass the loop take the false edge of the condition that guards it; the jump is
                    # covered when that edge's facts contradict the guard facts of the jump (locals expanded to their definitions)
                    gj_raw = guard_facts(pe, b, st, loops=False)
                    gj = expand_locals(pe, gj_raw)
                    have = {fact_str(f) for f in gj_raw}
                    for h in heads:
                        if not cfg.reaches(h, b):
                            continue
                        # the conditions under which the loop runs: guard facts of a statement of its body, minus those the jump shares
                        body = [(bb, jj, ss) for bb, jj, ss in cfg.stmts() if any('callee_e' in y and mentions(y['callee_e'], member_named('rt_controllerChange')) for y in walk(ss['s']))
                                and h in [e['block'] for e in cfg.dominating_edges(bb)]]
                        if h in call_heads:
                            body = [call_heads[h]]
                        if not body:
                            continue
                        ga = [f for f in guard_facts(pe, body[0][0], body[0][2], loops=False) if fact_str(f) not in have]
                        if len(ga) != 1:
                            continue
                        skip = neg_fact(ga[0])
                        if skip is None:
                            continue
                        if unsat(gj + expand_locals(pe, skip)):
                            ok = True
                            why_ok = 'the All-Notes-Off loop runs unless %s, which contradicts the condition of the jump: no feasible path jumps without it' % ' && '.join(fact_str(f) for f in skip)
                obls.append(Obl('C09.R1', pe.name, 'm_currentPosition = ' + src, st['loc'], 'discharged' if ok else 'finding',
                                why=why_ok if ok else
                                'a path jumps back without sending All-Notes-Off to the 16 channels', detail={'ano_loops': len(heads)}))
    # the global loop and the loop stack each jump at least once (the two stack jumps, infinite and counted, may share one statement)
    if n < 2 or len(jump_sources) < 2:
        raise build.AnalysisBroken('C09.R1: only %d jump sites (%d distinct stored positions) found in processEvents' % (n, len(jump_sources)))

    # ---- R2
    def hook_calls(name):
        for b, j, st in cfg.stmts():
            for x in walk(st['s']):
                if 'callee_e' in x and mentions(x['callee_e'], member_named(name)):
                    yield b, j, st
    starts = list(hook_calls('onloopStart'))
    ends = list(hook_calls('onloopEnd'))
    for b, j, st in starts:
        gf = guard_facts(pe, b, st)
        flags = [f for f in gf if f[0] == 'truth' and f[2] and mentions(f[1], lambda y: y.get('k') == 'MemberExpr' and short(y['n']) in ('caughtStart', 'caughtStackStart'))]
        ok = bool(flags)
        obls.append(Obl('C09.R2', pe.name, 'call onloopStart', st['loc'], 'discharged' if ok else 'finding',
                        why='invoked where %s is consumed' % show(flags[0][1]) if ok else 'loop-start callback is not tied to a caught loop start', detail={'guards': [fact_str(f) for f in gf][:6]}))
    if not any(True for _ in starts):
        obls.append(Obl('C09.R2', pe.name, 'call onloopStart', pe.loc, 'finding', why='loop-start callback is never invoked'))
    # loop end: some call guarded by (shortestDelayNotFound || caughtEnd) that dominates the stop/continue decision (store m_atEnd = true)
    stop_blocks = [b for b, j, st in cfg.stmts() for x in walk(st['s']) if assign_parts(x) and strip(assign_parts(x)[0]).get('k') == 'MemberExpr' and short(strip(assign_parts(x)[0])['n']) == 'm_atEnd' and const_of(assign_parts(x)[1]) == 1]
    main_ok = False
    for b, j, st in ends:
        gf = guard_facts(pe, b, st)
        txt = ' '.join(fact_str(f) for f in gf)
        if 'caughtEnd' in txt and 'shortestDelayNotFound' in txt:
            jumps_after = [sb for sb in stop_blocks if cfg.reaches(b, sb)]
            main_ok = bool(jumps_after)
            obls.append(Obl('C09.R2', pe.name, 'call onloopEnd (song/loop end)', st['loc'], 'discharged' if main_ok else 'finding',
                            why='invoked on the path taken at song end or loop end, before the continue/stop decision' if main_ok else 'loop-end callback does not precede the continue/stop decision'))
    if not main_ok and not any('song/loop end' in o.construct for o in obls):
        obls.append(Obl('C09.R2', pe.name, 'call onloopEnd (song/loop end)', pe.loc, 'finding', why='no loop-end callback on the song-end / loop-end path'))

    # ---- R3 through the ownership machinery of C18
    from . import c18
    mut = Mutation(facts)
    sub = c18.r2_obligations(facts, mut) if hasattr(c18, 'r2_obligations') else []
    HOOKS = ('onloopStart', 'onloopEnd', 'onloopStart_userData', 'onloopEnd_userData')
    for o in sub:
        if short(o.detail.get('field', '')) in HOOKS:
            o.rule = 'C09.R3'
            obls.append(o)

    # ---- R4
    obls += r4(facts)
    obls += r5_enabled(facts)
    obls += r6_row_snapshot(facts)
    obls += r7_idempotent(facts)
    obls += r8_setter_live(facts)
    obls += r8_count_mapping(facts)
    obls += r10_markers_first(facts)
    obls += r2_begin_is_loop_start(facts)
    obls += r9_loop_end_row(facts)
    return obls


def r4(facts):
    out = []
    pv = facts.fn(SEQ + '::parseEvent')
    # marker strings -> event subtype
    want = {'loopstart': 'ST_LOOPSTART', 'loopend': 'ST_LOOPEND'}
    enum = {}
    for b, ex, loc in pv.cfg.exprs():
        for x in walk(ex):
            if x.get('k') == 'DeclRefExpr' and x.get('enumc') and 'c' in x:
                enum[short(x['n'])] = x['c']
    seen = {}
    for b, j, st in pv.cfg.stmts():
        for x in walk(st['s']):
            ap = assign_parts(x)
            if ap and strip(ap[0]).get('k') == 'MemberExpr' and short(strip(ap[0])['n']) == 'subtype':
                val = const_of(ap[1])
                gf = guard_facts(pv, b, st)
                for f in gf:
                    for y in walk(f[1] if f[0] == 'truth' else [f[2], f[3]] if f[0] == 'cmp' else []):
                        if y.get('k') == 'StringLiteral' and y.get('str') in want and (f[0] == 'truth' and f[2]):
                            seen[y['str']] = (val, st['loc'])
    for s, name in want.items():
        got = seen.get(s)
        ok = got is not None and name in enum and got[0] == enum[name]
        out.append(Obl('C09.R4', pv.name, 'marker "%s" -> %s' % (s, name), got[1] if got else pv.loc, 'discharged' if ok else 'finding',
                       why='text comparison guards subtype = %s' % name if ok else 'marker text %r does not select %s (found %s)' % (s, name, got)))
    # lower-casing before comparison: a loop over the marker text subtracting ('Z'-'z') for 'A'..'Z'
    lower = False
    for b, j, st in pv.cfg.stmts():
        for x in walk(st['s']):
            ap = assign_parts(x)
            if ap and mentions(ap[1], lambda y: y.get('k') == 'BinaryOperator' and y['op'] == '-' and const_of(y['r']) == (ord('Z') - ord('z'))):
                gf = guard_facts(pv, b, st)
                txt = ' '.join(fact_str(f) for f in gf)
                if ('<= 90' in txt and '>= 65' in txt):
                    lower = True
    out.append(Obl('C09.R4', pv.name, 'marker text lower-cased', pv.loc, 'discharged' if lower else 'finding',
                   why="letters 'A'..'Z' are mapped by -('Z'-'z') before the comparison" if lower else 'no case folding of the marker text found'))
    # CC111 -> loop start (default loop format)
    cc = False
    for b, j, st in pv.cfg.stmts():
        for x in walk(st['s']):
            ap = assign_parts(x)
            if ap and strip(ap[0]).get('k') == 'MemberExpr' and short(strip(ap[0])['n']) == 'subtype' and const_of(ap[1]) == enum.get('ST_LOOPSTART'):
                gf = with_case_facts(pv, guard_facts(pv, b, st))
                if any(f[0] == 'case' and 111 in f[2] and mentions(f[1], member_named('data')) for f in gf):
                    cc = True
    out.append(Obl('C09.R4', pv.name, 'CC111 -> loop start', pv.loc, 'discharged' if cc else 'finding', why='case 111 assigns ST_LOOPSTART' if cc else 'controller 111 is not mapped to the loop start event'))

    # validation symmetry in buildSmfTrackData: in the branch of event X the duplicate test mentions flag F and the branch sets F
    bt = facts.fn(SEQ + '::buildSmfTrackData')
    for evname in ('ST_LOOPSTART', 'ST_LOOPEND'):
        ev = enum.get(evname)
        sets, tests, inval = set(), set(), False
        loc = bt.loc
        for b, j, st in bt.cfg.stmts():
            gf = guard_facts(bt, b, st)
            in_branch = any(f[0] == 'cmp' and f[1] == '==' and const_of(f[3]) == ev and mentions(f[2], member_named('subtype')) for f in gf)
            if not in_branch:
                continue
            for x in walk(st['s']):
                ap = assign_parts(x)
                if ap and strip(ap[0]).get('k') == 'DeclRefExpr' and const_of(ap[1]) == 1 and strip(ap[0]).get('t', {}).get('bool'):
                    sets.add(short(strip(ap[0])['n']))
                if ap and strip(ap[0]).get('k') == 'MemberExpr' and short(strip(ap[0])['n']) == 'invalidLoop' and const_of(ap[1]) == 1:
                    inval = True
                    loc = st['loc']
                    for f in gf:
                        if f[0] == 'or':
                            for alt in f[1]:
                                for g in alt:
                                    if g[0] == 'truth' and g[2] and strip(g[1]).get('k') == 'DeclRefExpr':
                                        tests.add(short(strip(g[1])['n']))
                        if f[0] == 'truth' and f[2] and strip(f[1]).get('k') == 'DeclRefExpr':
                            tests.add(short(strip(f[1])['n']))
        own = {t for t in tests if t in sets}
        ok = inval and len(own) >= 2
        out.append(Obl('C09.R4', bt.name, 'duplicate test of ' + evname, loc, 'discharged' if ok else 'finding',
                       why=('branch tests %s and sets %s' % (sorted(tests), sorted(sets))) if ok else
                       'the %s branch must invalidate the loop on the flags it sets itself; it tests %s but sets %s' % (evname, sorted(tests), sorted(sets))))
    # start >= end invalidates
    ge = False
    # the two tick positions: the locals handed to buildTimeLine as loop start and loop end
    ls_id = le_id = None
    for b, j, st in bt.cfg.stmts():
        for x in calls_in(st['s']):
            if short(callee_name(x)) == 'buildTimeLine' and len(x.get('a', [])) >= 3:
                ls_id, le_id = strip(x['a'][1]).get('id'), strip(x['a'][2]).get('id')
    if ls_id is None or le_id is None:
        raise build.AnalysisBroken('C09.R4: the loop tick positions handed to buildTimeLine not found')
    for b, j, st in bt.cfg.stmts():
        for x in walk(st['s']):
            ap = assign_parts(x)
            if ap and strip(ap[0]).get('k') == 'MemberExpr' and short(strip(ap[0])['n']) == 'invalidLoop' and const_of(ap[1]) == 1:
                for f in guard_facts(bt, b, st):
                    if f[0] == 'cmp' and ((f[1] == '>=' and strip(f[2]).get('id') == ls_id and strip(f[3]).get('id') == le_id) or
                                          (f[1] == '<=' and strip(f[2]).get('id') == le_id and strip(f[3]).get('id') == ls_id)):
                        ge = True
    out.append(Obl('C09.R4', bt.name, 'start >= end invalidates', bt.loc, 'discharged' if ge else 'finding',
                   why='invalidLoop is set when loopStartTicks >= loopEndTicks' if ge else 'no invalidation of a loop whose end is not after its start'))
    # rewind re-arms the counter: loopsCount := requested count BEFORE reset() copies it into loopsLeft
    rw = facts.fn(SEQ + '::rewind')
    pos_store = pos_reset = None
    for b, j, st in rw.cfg.stmts():
        for x in walk(st['s']):
            ap = assign_parts(x)
            if ap and strip(ap[0]).get('k') == 'MemberExpr' and short(strip(ap[0])['n']) == 'loopsCount' and mentions(ap[1], member_named('m_loopCount')):
                pos_store = (b, j)
            if short(x.get('callee', '')) == 'reset' and x.get('obj') is not None and mentions(x['obj'], member_named('m_loop')):
                pos_reset = (b, j)
    ok = pos_store is not None and pos_reset is not None and rw.cfg.stmt_before(pos_store, pos_reset) and not rw.cfg.stmt_before(pos_reset, pos_store)
    out.append(Obl('C09.R4', rw.name, 'repeat counter re-armed', rw.loc, 'discharged' if ok else 'finding',
                   why='loopsCount is loaded from the requested count before LoopState::reset() copies it into loopsLeft' if ok else
                   'rewind does not load the requested loop count before re-arming loopsLeft'))
    return out



def r5_enabled(facts):
    """with looping disabled the song plays straight through: the stores that raise caughtStart / caughtEnd / caughtStack* in handleEvent sit under m_loopEnabled"""
    out = []
    he = facts.fn(SEQ + '::handleEvent')
    for b, j, st in he.cfg.stmts():
        for x in walk(st['s']):
            ap = assign_parts(x)
            if ap and strip(ap[0]).get('k') == 'MemberExpr' and short(strip(ap[0])['n']).startswith('caught') and const_of(ap[1]) == 1:
                gf = guard_facts(he, b, st)
                ok = any(f[0] == 'truth' and f[2] and mentions(f[1], member_named('m_loopEnabled')) for f in gf)
                out.append(Obl('C09.R5', he.name, '%s = true' % short(strip(ap[0])['n']), st['loc'], 'discharged' if ok else 'finding',
                               why='under m_loopEnabled' if ok else
                               'a loop marker raises %s although looping is disabled: processEvents ends (or jumps) at the marker and the rest of the song is never delivered' % short(strip(ap[0])['n'])))
    if len(out) < 2:
        raise build.AnalysisBroken('C09.R5: loop-flag stores of handleEvent not found')
    return out


def r6_row_snapshot(facts):
    """the position a loop jumps back to (m_loopBeginPosition, LoopStackEntry::startPosition) must describe the beginning of the row
    that holds the loop-start marker: every track still in front of its events of that row.  The row loops advance the running
    position track by track, so the stored value must be a const local copy of the running position that is declared outside the
    per-track loop (at the top of the row), not the running position itself: otherwise the events that tracks with lower numbers
    have on the loop-start tick are skipped on every pass after the first."""
    out = []
    n = 0
    for fname in ('buildTimeLine', 'processEvents'):
        fn = facts.fn(SEQ + '::' + fname)
        # const Position locals and the nesting of their declarations
        snaps = {}
        def rec(t, anc):
            if isinstance(t, dict):
                if t.get('k') == 'DeclStmt':
                    for v in t.get('decls', []):
                        ty = v.get('t') or {}
                        if ty.get('const') and 'Position' in (ty.get('s') or '') and not ty.get('p') and not ty.get('ref') and v.get('init') is not None:
                            snaps[v['id']] = (v, [a.get('k') for a in anc])
                for k, v in t.items():
                    if isinstance(v, (dict, list)) and k in ('body', 'then', 'else', 'sub', 'init'):
                        rec(v, anc + [t])
            elif isinstance(t, list):
                for y in t:
                    rec(y, anc)
        rec(fn.tree, [])
        for b, j, st in fn.cfg.stmts():
            for x in walk(st['s']):
                ap = assign_parts(x)
                if not ap:
                    continue
                t = strip(ap[0])
                if not (t.get('k') == 'MemberExpr' and short(t['n']) in ('m_loopBeginPosition', 'startPosition') and 'Position' in ((t.get('t') or {}).get('s') or '')):
                    continue
                n += 1
                r = strip(ap[1])
                while r is not None and r.get('ctor') and len(r.get('a', [])) == 1:
                    r = strip(r['a'][0])
                ok = r is not None and r.get('k') == 'DeclRefExpr' and r.get('id') in snaps and 'ForStmt' not in snaps[r['id']][1]
                if not ok and fname == 'buildTimeLine' and not fn.cfg.reaches(b, b) and r is not None and r.get('k') == 'MemberExpr' and short(r['n']) == 'm_currentPosition':
                    out.append(Obl('C09.R6', fn.name, '%s = %s' % (short(t['n']), show(ap[1])[:30]), st['loc'], 'discharged',
                                   why='initial value outside the row loops: the position of the song begin, no track has advanced', nontrivial=False))
                    continue
                why = 'const row-begin copy %s declared outside the per-track loop' % short(r.get('n', '')) if ok else \
                    ('%s is not a const snapshot taken at the top of the row: the stored loop begin already has the tracks in front of it advanced past their events of the loop-start tick, which are then skipped on every later pass' % show(ap[1])[:40])
                out.append(Obl('C09.R6', fn.name, '%s = %s' % (short(t['n']), show(ap[1])[:30]), st['loc'], 'discharged' if ok else 'finding', why=why))
    if n < 3:
        raise build.AnalysisBroken('C09.R6: stores of the loop begin positions not found (%d)' % n)
    return out


# reviewed exception of C09.R7: the CC110 arm is the HMI format detector: the first CC110 selects the HMI dialect (CC110 = start,
# CC111 = end) and a second one is defined to mean "this is EMIDI, where CC110/111 are no loop points at all"
R7_LATCH_OK = {110: 'HMI dialect latch: a repeated CC110 re-classifies the file as EMIDI (no controller loop points)'}


def r7_idempotent(facts):
    """parseEvent turns marker texts and loop controllers into ST_LOOP* events; buildSmfTrackData then validates them (duplicate
    start / end -> the whole song loops).  That validation only works if every marker is converted: an arm that converts a marker
    must not store to a member that one of its own guards reads, otherwise the first marker disables the conversion of the next."""
    out = []
    pv = facts.fn(SEQ + '::parseEvent')
    enum = {}
    for b, ex, loc in pv.cfg.exprs():
        for x in walk(ex):
            if x.get('k') == 'DeclRefExpr' and x.get('enumc') and 'c' in x:
                enum[short(x['n'])] = x['c']
    loopvals = {v for k, v in enum.items() if k.startswith('ST_LOOP')}
    n = 0
    for b, j, st in pv.cfg.stmts():
        for x in walk(st['s']):
            ap = assign_parts(x)
            if not (ap and strip(ap[0]).get('k') == 'MemberExpr' and short(strip(ap[0])['n']) == 'subtype' and const_of(ap[1]) in loopvals):
                continue
            n += 1
            gf = guard_facts(pv, b, st)
            reads = set()
            case = None
            for f in with_case_facts(pv, gf):
                body = f[1] if f[0] in ('truth', 'case') else ([f[2], f[3]] if f[0] == 'cmp' else [])
                for y in walk(body):
                    if y.get('k') == 'MemberExpr' and strip(y.get('b')).get('k') == 'CXXThisExpr':
                        reads.add(short(y['n']))
                if f[0] == 'case' and len(f[2]) == 1 and mentions(f[1], member_named('data')):     # the controller number: first data byte of the event
                    case = list(f[2])[0]
            # stores of members in the same arm = statements of blocks with the same guard facts
            key = sorted(fact_str(f) for f in gf)
            stored = {}
            for b2, j2, st2 in pv.cfg.stmts():
                if b2 != b and sorted(fact_str(f) for f in guard_facts(pv, b2, st2)) != key:
                    continue
                for y in walk(st2['s']):
                    ap2 = assign_parts(y)
                    if ap2 and strip(ap2[0]).get('k') == 'MemberExpr' and strip(strip(ap2[0]).get('b')).get('k') == 'CXXThisExpr':
                        stored[short(strip(ap2[0])['n'])] = st2['loc']
            clash = sorted(set(stored) & reads)
            if clash and case in R7_LATCH_OK:
                out.append(Obl('C09.R7', pv.name, 'marker arm (controller %s) stores %s' % (case, ', '.join(clash)), st['loc'], 'discharged',
                               why='reviewed: ' + R7_LATCH_OK[case], nontrivial=False))
                continue
            out.append(Obl('C09.R7', pv.name, 'marker arm -> subtype %s%s' % (const_of(ap[1]), (' (controller %s)' % case) if case is not None else ''), st['loc'],
                           'finding' if clash else 'discharged',
                           why='the arm stores %s, which its own guard reads: after the first marker the next one of the same kind is no longer converted, so a duplicated marker is never seen by the validation and the song loops over the first marker instead of as a whole' % ', '.join(clash) if clash else
                           'stores no member its guards read (%s)' % (', '.join(sorted(reads)) or 'none')))
    if n < 3:
        raise build.AnalysisBroken('C09.R7: marker conversion arms of parseEvent not found (%d)' % n)
    return out


def r8_setter_live(facts):
    """rewind() re-arms the live loop state from configuration members (`m_loop.loopsCount = m_loopCount`): such a pair (C, L) shows
    that playback reads L, not C.  Every other function of the sequencer that stores C (the setter) must therefore store L as well,
    otherwise a value set after loading is ignored until the next rewind / seek (the song keeps repeating with the old count)."""
    out = []
    rw = facts.fn(SEQ + '::rewind')
    pairs = []
    for b, j, st in rw.cfg.stmts():
        ap = assign_parts(st['s'])
        if not ap or ap[2] != '=':
            continue
        l, r = strip(ap[0]), strip(ap[1])
        if l.get('k') == 'MemberExpr' and r.get('k') == 'MemberExpr' and strip(r.get('b')).get('k') == 'CXXThisExpr' and \
                strip(l.get('b')).get('k') == 'MemberExpr' and short(strip(l['b'])['n']) == 'm_loop':
            pairs.append((short(r['n']), short(l['n']), st['loc']))
    if not pairs:
        raise build.AnalysisBroken('C09.R8: rewind() copies no configuration member into the live loop state')
    for cfg, live, loc in pairs:
        setters = []
        for fn in facts.all_fns():
            if not fn.name.startswith(SEQ + '::') or fn.d.get('ctor') or short(fn.name) in ('rewind',) or fn.tree is None:
                continue
            stores_cfg = stores_live = None
            for b, j, st in fn.cfg.stmts():
                ap = assign_parts(st['s'])
                if not ap:
                    continue
                l = strip(ap[0])
                if l.get('k') == 'MemberExpr' and short(l['n']) == cfg and strip(l.get('b')).get('k') == 'CXXThisExpr':
                    stores_cfg = st['loc']
                if l.get('k') == 'MemberExpr' and short(l['n']) == live and strip(l.get('b')).get('k') == 'MemberExpr' and short(strip(l['b'])['n']) == 'm_loop':
                    stores_live = st['loc']
            if stores_cfg:
                setters.append((fn, stores_cfg, stores_live))
        if not setters:
            raise build.AnalysisBroken('C09.R8: no setter of %s found' % cfg)
        for fn, sc, sl in setters:
            out.append(Obl('C09.R8', fn.name, '%s -> m_loop.%s' % (cfg, live), sc, 'discharged' if sl else 'finding',
                           why='stores the live state as well' if sl else
                           '%s stores %s only; playback reads m_loop.%s, which is copied from it by rewind() / load only: a value set after loading is ignored until the next rewind' % (short(fn.name), cfg, live)))
    return out


def r2_begin_is_loop_start(facts):
    """without a valid loopStart marker the loop body starts at the song begin (m_loopStartTime stays negative).  "Once per pass
    through the loop start" then needs the loop-start flag armed exactly under that condition at the three places a pass begins:
    the end of the load (buildTimeLine), rewind(), and the global jump of processEvents.  An unconditional `= true` in rewind()
    gives marker songs one callback too many; a missing arming gives marker-less songs none."""
    out = []
    # the member that records "the song has a valid loopStart marker": assigned in buildSmfTrackData from the local flag that the
    # ST_LOOPSTART branch of the validation sets (m_loopStartTime cannot serve: a song with a loopEnd marker only gets start time 0)
    bt = facts.fn(SEQ + '::buildSmfTrackData')
    E = facts.enums
    flag_locals = set()
    for b, j, st in bt.cfg.stmts():
        ap = assign_parts(st['s'])
        if ap and strip(ap[0]).get('k') == 'DeclRefExpr' and const_of(ap[1]) == 1:
            gf = guard_facts(bt, b, st)
            if any(f[0] == 'cmp' and f[1] == '==' and const_of(f[3]) == E.get('ST_LOOPSTART') and mentions(f[2], member_named('subtype')) for f in gf):
                flag_locals.add(strip(ap[0])['id'])
    marker_members = set()
    for b, j, st in bt.cfg.stmts():
        ap = assign_parts(st['s'])
        if ap and strip(ap[0]).get('k') == 'MemberExpr' and strip(strip(ap[0]).get('b')).get('k') == 'CXXThisExpr' and \
                any(isinstance(y, dict) and y.get('id') in flag_locals for y in walk(ap[1])):
            marker_members.add(short(strip(ap[0])['n']))
    if not marker_members:
        out.append(Obl('C09.R2', bt.name, 'the sequencer records whether the song has a valid loopStart marker', bt.loc, 'finding',
                       why='no member is assigned from the flag that the loopStart validation sets: the places that arm the loop-start callback cannot tell a song without a loopStart marker (the loop start time is 0 also for a song with a loopEnd marker only)'))
    def arming(fn):
        """(loc, conditional?) of the stores to m_loop.caughtStart in fn; conditional = the value or a guard compares m_loopStartTime with 0"""
        res = []
        for b, j, st in fn.cfg.stmts():
            for x in walk(st['s']):
                ap = assign_parts(x)
                if not ap:
                    continue
                l = strip(ap[0])
                if not (l.get('k') == 'MemberExpr' and short(l['n']) == 'caughtStart'):
                    continue
                if const_of(ap[1]) == 0:
                    continue            # consumption / reset
                by_value = any(y.get('k') == 'MemberExpr' and short(y['n']) in marker_members for y in walk(ap[1]))
                by_guard = any(f[0] == 'truth' and not f[2] and any(isinstance(y, dict) and y.get('k') == 'MemberExpr' and short(y['n']) in marker_members for y in walk(f[1])) for f in guard_facts(fn, b, st))
                res.append((st['loc'], by_value or by_guard, b, j))
        return res
    for fname, what in (('buildTimeLine', 'end of load'), ('rewind', 'rewind'), ('processEvents', 'global loop jump')):
        fn = facts.fn(SEQ + '::' + fname)
        ar = arming(fn)
        ok = bool(ar) and all(c for _, c, _, _ in ar)
        if fname == 'processEvents' and ok:
            # the arming must follow the jump: a store to m_currentPosition dominates it
            jumps = [(b, j) for b, j, st in fn.cfg.stmts() for ap in [assign_parts(st['s'])] if ap and strip(ap[0]).get('k') == 'MemberExpr'
                     and short(strip(ap[0])['n']) == 'm_currentPosition' and 'Position' in ((strip(ap[0]).get('t') or {}).get('s') or '')]
            ok = all(any(fn.cfg.reaches(jb, b) or (jb == b and jj < j) for jb, jj in jumps) for _, _, b, j in ar)
        loc = ar[0][0] if ar else fn.loc
        out.append(Obl('C09.R2', fn.name, 'loop-start flag armed at the %s exactly when the song has no loopStart marker' % what, loc, 'discharged' if ok else 'finding',
                       why='caughtStart := !<has loopStart marker>' if ok else
                       ('no arming of m_loop.caughtStart: a song without a loopStart marker gets no loop-start callback for the pass that begins here' if not ar else
                        'm_loop.caughtStart is armed unconditionally: a song whose loopStart marker comes later gets an extra loop-start callback at the song begin')))
    # the callback of the consumed flag is invoked only while looping is enabled (as the markers are honoured only then)
    pe = facts.fn(SEQ + '::processEvents')
    n = 0
    for b, j, st in pe.cfg.stmts():
        for x in walk(st['s']):
            if 'callee_e' in x or 'callee' in x:
                ce = x.get('callee_e') or {}
                if 'onloopStart' in show(ce) or 'onloopStart' in (x.get('callee') or ''):
                    gf = guard_facts(pe, b, st)
                    if not any(f[0] == 'truth' and f[2] and mentions(f[1], member_named('caughtStart')) for f in gf):
                        continue
                    n += 1
                    ok = any(f[0] == 'truth' and f[2] and mentions(f[1], member_named('m_loopEnabled')) for f in gf)
                    out.append(Obl('C09.R2', pe.name, 'song-begin loop-start callback only while looping is enabled', st['loc'], 'discharged' if ok else 'finding',
                                   why='guarded by m_loopEnabled' if ok else 'with looping disabled a marker-less song still reports a loop start at its first row'))
    if n < 1:
        raise build.AnalysisBroken('C09.R2: loop-start callback under caughtStart not found in processEvents')
    return out


def r9_loop_end_row(facts):
    """a row is sorted metas-first, so the loopEnd marker precedes the controllers, program changes and note-ons of its own tick.
    processEvents leaves the row (`break`) as soon as the marker raises the flag and then steps over the row.  That is right when a
    jump follows (those events lie behind the loop end), but on the pass that leaves the loop they are "everything after the loop
    end" and must be delivered once: the break has to depend on whether another pass follows (loopsLeft / loopsCount)."""
    out = []
    pe = facts.fn(SEQ + '::processEvents')
    n = 0
    hits = []
    def rec(t, conds):
        if isinstance(t, dict):
            k = t.get('k')
            if k == 'BreakStmt':
                hits.append((t, list(conds)))
                return
            if k in ('ForStmt', 'WhileStmt', 'DoStmt', 'SwitchStmt'):
                for k2 in ('body',):
                    rec(t.get(k2), [])          # a break leaves the innermost loop only
                return
            if k == 'IfStmt':
                rec(t.get('then'), conds + [(t.get('cond'), True)])
                rec(t.get('else'), conds + [(t.get('cond'), False)])
                return
            for k2 in ('body', 'sub', 'then', 'else'):
                v = t.get(k2)
                if isinstance(v, (dict, list)):
                    rec(v, conds)
        elif isinstance(t, list):
            for y in t:
                rec(y, conds)
    rec(pe.tree, [])
    inits = {}
    for b, j, st in pe.cfg.stmts():
        if st['s'].get('k') == 'DeclStmt':
            for v in st['s']['decls']:
                if v.get('init') is not None:
                    inits[v['id']] = v['init']
    def text(c):
        t = show(c)
        for y in walk(c):
            if isinstance(y, dict) and y.get('k') == 'DeclRefExpr' and y.get('id') in inits:
                t += ' ' + show(inits[y['id']])      # a local flag stands for its definition
        return t
    for brk, conds in hits:
        txt = ' '.join(text(c) for c, pol in conds)
        if 'caughtEnd' not in txt:
            continue
        n += 1
        ok = 'loopsLeft' in txt or 'loopsCount' in txt
        out.append(Obl('C09.R9', pe.name, 'row cut at the loop-end marker', '%s:%s' % (pe.file, brk.get('ln')), 'discharged' if ok else 'finding',
                       why='the cut depends on the remaining passes' if ok else
                       'the row is left at the loopEnd marker on every pass, also on the one after which no jump follows: controllers, program changes and note-ons of the same track on the loopEnd tick are never delivered (song 60@0 loopStart@96 61@96 62@192 loopEnd@288 63@288 64@384, count 2: note 63 is played on no pass)'))
    if n < 1:
        raise build.AnalysisBroken('C09.R9: the break at the loop-end marker not found in processEvents')
    return out


def r8_count_mapping(facts):
    """public repeat counts: -1 = for ever, 0 and 1 = play once, N = N passes; internally the count has base 0 (N - 1 repeats) and -1
    stays -1.  Abstract evaluation of setLoopsCount on singleton arguments: the value stored in m_loopCount must be -1, 0, 0, 1, 3
    for the arguments -1, 0, 1, 2, 4 (a conversion that also maps 0 to -1 turns "play once" into "repeat for ever")."""
    from ..e2 import Engine2, St, V
    out = []
    fn = facts.fn(SEQ + '::setLoopsCount')
    want = {-1: -1, 0: 0, 1: 0, 2: 1, 4: 3}
    bad = None
    for arg, exp in sorted(want.items()):
        eng = Engine2(facts, {}, {}, {})
        got = []
        def hook(e_, e, st, got=got):
            for x in walk(e):
                ap = assign_parts(x)
                if ap and strip(ap[0]).get('k') == 'MemberExpr' and short(strip(ap[0])['n']) == 'm_loopCount':
                    got.append(e_.ev(ap[1], st))
        eng.value_hooks.append(hook)
        s0 = St(); s0.env[('v', fn.params[0]['id'])] = V(arg, arg)
        eng.run(fn, s0, record=True)
        v = got[-1] if got else None
        if v is None or not v.is_point() or v.lo != exp:
            bad = (arg, v, exp)
            break
    out.append(Obl('C09.R8', fn.name, 'public count -> internal count', fn.loc, 'discharged' if bad is None else 'finding',
                   why='-1, 0, 1, 2, 4 are stored as -1, 0, 0, 1, 3' if bad is None else
                   'opn2_setLoopCount(%d) stores %s instead of %d: %s' % (bad[0], bad[1], bad[2], 'the count that means "play once" becomes "repeat for ever"' if bad[2] == 0 else 'the number of passes is off')))
    return out


def r10_markers_first(facts):
    """MidiTrackRow::sortEvents puts a group of meta events in front of the controllers and notes of the row.  The loop handling of
    processEvents relies on it: the events of the loopEnd tick that follow the marker are "after the loop end" (skipped on passes that
    jump, delivered once when the loop is left), those of the loopStart tick are inside the loop.  Every ST_LOOP* enumerator must be
    named by the condition that selects that group."""
    out = []
    fns = [f for f in facts.all_fns() if short(f.name) == 'sortEvents' and f.tree is not None]
    if not fns:
        raise build.AnalysisBroken('C09.R10: sortEvents not found')
    fn = fns[0]
    loop_enums = {k: v for k, v in facts.enums.items() if k.startswith('ST_LOOP')}
    named = set()
    hit = None
    for i, blk in fn.cfg.blocks.items():
        pass
    for x in walk(fn.tree):
        if isinstance(x, dict) and x.get('k') == 'IfStmt' and x.get('cond') is not None:
            vals = {const_of(y) for y in walk(x['cond']) if isinstance(y, dict) and y.get('enumc')}
            if loop_enums.get('ST_LOOPSTART') in vals or loop_enums.get('ST_LOOPEND') in vals:
                named |= vals
                hit = x
    if hit is None:
        raise build.AnalysisBroken('C09.R10: the condition that selects the leading meta group of sortEvents not found')
    missing = sorted(k for k, v in loop_enums.items() if v not in named)
    out.append(Obl('C09.R10', fn.name, 'leading meta group names every loop marker', '%s:%s' % (fn.file, hit.get('ln')), 'discharged' if not missing else 'finding',
                   why='%d loop marker kinds are ordered first' % len(loop_enums) if not missing else
                   '%s is not in the group that is ordered ahead of the row: a controller, program change or pitch bend on the tick of that marker is handled before the marker, i.e. on the wrong side of the loop boundary (repeated on every pass / skipped)' % ', '.join(missing)))
    return out
