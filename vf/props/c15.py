"""C15 — WOPN/OPNI serialisation round-trips and never writes past its buffer.

R1  every write through the cursor in the two savers (and WOPN_writeInstrument) is covered by a `length < K -> error` check.
R2  size agreement: bytes written (polynomial in the bank counts) <= size calculator, == bytes the loader consumes.
R3  layout agreement: (field, offset, width, codec) tables of WOPN_parseInstrument and WOPN_writeInstrument are equal;
    the BE/LE codec pairs agree; header flag bits and bank meta offsets agree between loader and saver;
    string terminators keep every copied byte.
"""
from ..core import *
from ..e1 import *
from ..logic import const_of, guard_facts, cmp_norm
from ..report import Obl, Rule
from .. import build
from .wopn_common import run_e1, VERSION_REPS, role_param

PROP = 'C15'
RULES = [
    Rule('C15.R1', 'every write of the WOPN/OPNI savers stays inside the destination: covered by a length check on every path', 14),
    Rule('C15.R2', 'bytes written <= size calculator and == bytes consumed by the loader, as polynomials in the bank counts', 8),
    Rule('C15.R3', 'reader/writer layout tables, codec pairs, flag bits and string terminators agree', 40),
    Rule('C15.R5', 'a version number read from the file is accepted only inside [2, latest]: versions below 2 have the older layout and no version field', 2),
    Rule('C15.R6', 'WOPN_parseInstrument assigns every field of the instrument on every path: the loaded value is a function of the file alone', 8),
    Rule('C15.R4', 'the placeholder bank created for a zero bank count is the one that is marked blank, and carries no marker in a version-1 value', 4),
]
EXPLANATION = ('Byte-budget abstract interpretation (engine E1) of the structured bodies of WOPN_SaveBankToMem, WOPN_SaveInstToMem and '
               'WOPN_writeInstrument in the (cursor, length) dialect: budgets are polynomials over the unknown bank counts, counted loops are summarised, '
               '`version`/`force_gm` are case-split over representatives whose completeness is itself checked. The same run yields the number of bytes '
               'written per case, compared with the size calculators and the loader. Field layout tables of reader and writer are extracted from the AST '
               '(offsets folded, operator loop unrolled) and compared. Decides: no write past the buffer, refusal of short buffers, size and layout '
               'agreement; does not decide value-level round trip where the format couples fields (blank flag vs. delays).')
ASSUMPTIONS = ['destination buffer has `length` writable bytes (API contract)', 'memcpy/strncpy/memcmp touch exactly their length argument',
               'bank counts are non-negative 16-bit values; symbols of the polynomials range over all of them']


def views(tier):
    return ['V0'] if tier == 'quick' else ['V0', 'V1']


def _ret_name(e):
    return show(e) if e is not None else ''


def consumed_on_success(eng, ok_pred):
    out = {}
    for e, st in eng.returns:
        ok = ok_pred(e)
        if not ok and e is not None and strip(e).get('k') == 'DeclRefExpr' and not strip(e).get('enumc'):
            # `return result;`: the value the local holds on this path
            v = eng.ev(e, st)
            ok = v is not None and v.is_const() and v.cval() == 0
        if ok:
            out[tuple(sorted(st.ctx.items()))] = st.consumed
    return out


def eval_size_fn(facts, name, version):
    """symbolic value returned by a size calculator for a given version"""
    fn = facts.fn(name)
    eng = Engine(facts, 'count')
    eng.setup(fn, -1, count_id=-2)
    s0 = State(Poly.const(0))
    vp = [role_param(fn, 'version')] if role_param(fn, 'version') else []
    if not vp:
        raise build.AnalysisBroken('%s has no version parameter' % name)
    s0.env[('v', vp[0]['id'])] = Poly.const(version)
    # `if(!file) return 0` : the file pointer is non-null
    eng.run_body(fn.tree, s0)
    vals = []
    for e, st in eng.returns:
        v = eng.ev(e, st)
        if v is not None and not (v.is_const() and v.cval() == 0):
            vals.append(v)
    return vals


def rename(poly, mapping):
    p = poly
    for a, b in mapping.items():
        p = p.subst(a, Poly.sym(b))
    return p


# ---- layout extraction ----------------------------------------------------------------------
def field_path(eng, e, st):
    """ins->operators[l].level_40 -> 'operators[2].level_40' (indices evaluated)"""
    e = strip(e)
    k = e.get('k')
    if k == 'MemberExpr':
        b = strip(e['b'])
        if b.get('k') == 'DeclRefExpr' or b.get('k') == 'CXXThisExpr':
            return short(e['n'])
        inner = field_path(eng, b, st)
        return (inner + '.' if inner else '') + short(e['n'])
    if k == 'ArraySubscriptExpr':
        i = eng.ev(e['i'], st)
        inner = field_path(eng, e['b'], st)
        if inner is None:
            return None
        return '%s[%s]' % (inner, i if i is not None else '?')
    if k == 'UnaryOperator' and e['op'] in ('&', '*'):
        return field_path(eng, e['e'], st)
    return None


CODECS = {'toUint16LE': 'U16LE', 'toUint16BE': 'U16BE', 'toSint16BE': 'S16BE', 'fromUint16LE': 'U16LE', 'fromUint16BE': 'U16BE', 'fromSint16BE': 'S16BE'}


def extract_layout(facts, fname, version, hsd):
    """table {field: (offset, width, codec)} for the instrument reader or writer"""
    fn = facts.fn(fname)
    cur = [p for p in fn.params if p['t'].get('p') and p['t'].get('pt') in ('unsigned char', 'uint8_t')]
    if not cur:
        raise build.AnalysisBroken('%s: cursor parameter not found' % fname)
    table = {}
    eng = Engine(facts, 'count')
    eng.setup(fn, cur[0]['id'])
    # pointer locals that name a part of the instrument (`op = &ins->operators[l]`) are read as what they name
    al = {i_: d_ for i_, d_ in alias_defs(fn.d).items() if not mentions(d_, lambda y: y.get('k') == 'DeclRefExpr' and y.get('id') == cur[0]['id'])}
    def on_expr(eng, e, st):
        for x in walk(e):
            ap = assign_parts(x)
            if ap:
                tgt, rhs, op = ap
                tgt, rhs = canon_access(tgt, al), canon_access(rhs, al)
                t, r = strip(tgt), strip(rhs)
                # reader: field = cursor[K] | field = toXX(cursor + K)
                if t.get('k') in ('MemberExpr',) and not eng.is_cursor(root_object(t)):
                    if r.get('k') == 'ArraySubscriptExpr' and eng.cursor_off(r['b'], st) is not None:
                        off = eng.ev(r['i'], st)
                        off = (eng.cursor_off(r['b'], st) + off) if off is not None else None
                        table.setdefault(field_path(eng, t, st), set()).add((off.cval() if off is not None and off.is_const() else '?', 1, 'U8'))
                    elif short(r.get('callee', '')) in CODECS and r.get('a'):
                        off = eng.cursor_off(r['a'][0], st)
                        if off is not None:
                            table.setdefault(field_path(eng, t, st), set()).add((off.cval() if off.is_const() else '?', 2, CODECS[short(r['callee'])]))
                # writer: cursor[K] = field
                if t.get('k') == 'ArraySubscriptExpr' and eng.cursor_off(t['b'], st) is not None and op == '=':
                    off = eng.ev(t['i'], st)
                    off = (eng.cursor_off(t['b'], st) + off) if off is not None else None
                    fp = field_path(eng, r, st) if r.get('k') in ('MemberExpr', 'ArraySubscriptExpr') else None
                    if fp:
                        table.setdefault(fp, set()).add((off.cval() if off is not None and off.is_const() else '?', 1, 'U8'))
            cal = short(x.get('callee', ''))
            if cal in CODECS and cal.startswith('from') and len(x.get('a', [])) == 2:
                off = eng.cursor_off(x['a'][1], st)
                src = strip(x['a'][0])
                fp = field_path(eng, src, st) if src.get('k') in ('MemberExpr', 'ArraySubscriptExpr') else None
                if off is not None and fp:
                    table.setdefault(fp, set()).add((off.cval() if off.is_const() else '?', 2, CODECS[cal]))
            if cal in ('strncpy', '__builtin_strncpy', '__builtin___strncpy_chk', 'memcpy', '__builtin_memcpy', '__builtin___memcpy_chk') and len(x.get('a', [])) >= 3:
                d, s2, n = x['a'][0], x['a'][1], eng.ev(x['a'][2], st)
                od, os_ = eng.cursor_off(d, st), eng.cursor_off(s2, st)
                if os_ is not None and od is None:
                    fp = field_path(eng, d, st)
                    if fp:
                        add_bytes(fp, d, os_.cval(), n.cval() if n is not None and n.is_const() else None)
                if od is not None and os_ is None:
                    fp = field_path(eng, s2, st)
                    if fp:
                        add_bytes(fp, s2, od.cval(), n.cval() if n is not None and n.is_const() else None)
    def add_bytes(fp, e_field, off, n):
        """a block copy between the cursor and a member: when the member is an array of records that consist of one-byte fields only
        (no padding is possible) and the copy covers it exactly, the copy IS the field-by-field copy - entered field by field"""
        t_ = (strip(e_field).get('t') or {}) if isinstance(strip(e_field), dict) else {}
        el = t_.get('el') or {}
        rec = facts.records.get((el.get('s') or '').replace('struct ', '').replace('const ', '').strip()) if t_.get('arr') else None
        if rec and n is not None and all((f_.get('t') or {}).get('sz') == 1 and not (f_.get('t') or {}).get('arr') for f_ in rec['fields']) and \
                n == t_['arr'] * len(rec['fields']) and isinstance(off, int):
            for i_ in range(t_['arr']):
                for k_, f_ in enumerate(rec['fields']):
                    table.setdefault('%s[%d].%s' % (fp, i_, f_['n']), set()).add((off + i_ * len(rec['fields']) + k_, 1, 'U8'))
            return
        table.setdefault(fp, set()).add((off, n if n is not None else '?', 'bytes'))
    eng.on_expr = on_expr
    s0 = State(Poly.const(INF))
    for role_, val_ in (('version', version), ('has_sounding_delays', hsd)):
        p = role_param(fn, role_)
        if p is not None:
            s0.env[('v', p['id'])] = Poly.const(val_)
    eng.run_body(fn.tree, s0)
    return table, fn


def codec_shifts(facts, name):
    """byte index -> shift for a to*/from* helper"""
    fn = facts.fn(name)
    arr = [p for p in fn.params if p['t'].get('p')][0]
    is_to = name.startswith('to')
    out = {}
    def arr_index(e):
        e = strip(e)
        if e.get('k') == 'ArraySubscriptExpr' and strip(e['b']).get('id') == arr['id']:
            return const_of(e['i'])
        if e.get('k') == 'UnaryOperator' and e['op'] == '*':
            # *(const int8_t*)(&arr[0])
            for y in walk(e['e']):
                if y.get('k') == 'ArraySubscriptExpr' and strip(y['b']).get('id') == arr['id']:
                    return const_of(y['i'])
        return None
    def terms(e, shift=0):
        """yield (byte index, shift) for arr[i] terms of an or/add/shift/mask expression"""
        e = strip(e)
        i = arr_index(e)
        if i is not None:
            yield i, shift
            return
        if e.get('k') == 'BinaryOperator':
            op = e['op']
            if op in ('|', '+'):
                yield from terms(e['l'], shift); yield from terms(e['r'], shift)
            elif op == '<<' and const_of(e['r']) is not None:
                yield from terms(e['l'], shift + const_of(e['r']))
            elif op == '&':
                yield from terms(e['l'], shift)
            elif op == '*' and const_of(e['r']) is not None and const_of(e['r']) > 0 and (const_of(e['r']) & (const_of(e['r']) - 1)) == 0:
                yield from terms(e['l'], shift + const_of(e['r']).bit_length() - 1)
    if is_to:
        acc = {}
        for b, j, st in fn.cfg.stmts(conds=False):
            s = st['s']
            if s.get('k') == 'DeclStmt':
                for v in s['decls']:
                    if 'init' in v:
                        for i, sh in terms(v['init']):
                            acc[i] = sh
            for x in walk(s):
                ap = assign_parts(x)
                if ap:
                    tgt, rhs, op = ap
                    if op in ('|=', '+='):
                        for i, sh in terms(rhs):
                            acc[i] = sh
                    elif op in ('*=', '<<='):
                        c = const_of(rhs)
                        if c is not None:
                            k = c if op == '<<=' else (c.bit_length() - 1)
                            acc = {i: sh + k for i, sh in acc.items()}
        return acc
    for b, j, st in fn.cfg.stmts(conds=False):
        for x in walk(st['s']):
            ap = assign_parts(x)
            if ap:
                tgt, rhs, op = ap
                i = arr_index(tgt)
                if i is None:
                    continue
                r = strip(rhs)
                sh = 0
                # (in >> k) & 0xFF   |   in & 0xFF   | ((uint16_t)in >> 8) & 0xFF
                for y in walk(r):
                    if y.get('k') == 'BinaryOperator' and y['op'] == '>>' and const_of(y['r']) is not None:
                        sh = const_of(y['r'])
                out[i] = sh
    return out


def analyse(facts, tier):
    obls = []
    engs = {}
    for name, fe in (('WOPN_SaveBankToMem', {'version': VERSION_REPS, 'force_gm': [0, 1]}), ('WOPN_SaveInstToMem', {'version': VERSION_REPS})):
        o, eng = run_e1(facts, name, 'C15.R1', forks_entry=fe)
        obls += o
        engs[name] = eng
    lo, leng = run_e1(facts, 'WOPN_LoadBankFromMem', 'C15.R1x', forks_assign={'@version': [0, 1, 2, 3]})
    li, lieng = run_e1(facts, 'WOPN_LoadInstFromMem', 'C15.R1x', forks_assign={'@version': [0, 1, 2, 3]})

    # ---- R2 sizes
    ok_ret = lambda e: e is not None and const_of(e) == 0          # WOPN_ERR_OK == 0
    wb = consumed_on_success(engs['WOPN_SaveBankToMem'], ok_ret)
    wi = consumed_on_success(engs['WOPN_SaveInstToMem'], ok_ret)
    if len(wb) < 6 or len(wi) < 3:
        raise build.AnalysisBroken('C15.R2: success returns of the savers not found (%d, %d)' % (len(wb), len(wi)))
    fnb = facts.fn('WOPN_SaveBankToMem')
    for ctx, cons in sorted(wb.items()):
        c = dict(ctx)
        if c.get('force_gm'):
            continue
        calc = eval_size_fn(facts, 'WOPN_CalculateBankFileSize', c['version'])
        if len(calc) != 1:
            obls.append(Obl('C15.R2', 'WOPN_CalculateBankFileSize', 'size for version %s' % c['version'], facts.fn('WOPN_CalculateBankFileSize').loc, 'finding', why='calculator has %d distinct symbolic results' % len(calc)))
            continue
        ok = geq(calc[0], cons)
        obls.append(Obl('C15.R2', 'WOPN_SaveBankToMem', 'written <= calculated, version %s' % c['version'], fnb.loc, 'discharged' if ok else 'finding',
                        why='writer consumes %s, calculator reports %s' % (cons, calc[0]), detail={'written': repr(cons), 'calculated': repr(calc[0])}))
    fni = facts.fn('WOPN_SaveInstToMem')
    for ctx, cons in sorted(wi.items()):
        c = dict(ctx)
        calc = eval_size_fn(facts, 'WOPN_CalculateInstFileSize', c['version'])
        ok = len(calc) == 1 and geq(calc[0], cons)
        obls.append(Obl('C15.R2', 'WOPN_SaveInstToMem', 'written <= calculated, version %s' % c['version'], fni.loc, 'discharged' if ok else 'finding',
                        why='writer consumes %s, calculator reports %s' % (cons, calc[0] if calc else '?'), detail={'written': repr(cons)}))
    # loader consumption equals writer consumption (same version, counts renamed)
    def loader_cases(eng, pred):
        out = {}
        for e, st in eng.returns:
            if pred(e):
                out[tuple(sorted(st.ctx.items()))] = st.consumed
        return out
    lb = loader_cases(leng, lambda e: e is not None and strip(e).get('k') == 'DeclRefExpr' and not strip(e).get('enumc') and const_of(e) is None)
    for ctx, cons in sorted(lb.items()):
        c = dict(ctx)
        # file version v (magic2 + version field) corresponds to the writer with version v (v>=2); magic1 (no ctx) to writer version 1
        wv = c.get('version')
        if wv is None:
            wkey = (('force_gm', 0), ('version', 1))
        elif wv >= 2:
            wkey = (('force_gm', 0), ('version', wv))
        else:
            # version field 0/1 under the new magic is accepted by the loader but never produced by the writer
            obls.append(Obl('C15.R2', 'WOPN_LoadBankFromMem', 'loader-only layout, version field %s' % wv, facts.fn('WOPN_LoadBankFromMem').loc, 'assumed',
                            why='accepted by the loader, never produced by the writer (consumes %s)' % cons, nontrivial=False))
            continue
        w = wb.get(wkey)
        syms = sorted(cons.symbols(), key=lambda s: int(s.split('#')[-1]) if '#' in s else 0)
        # the writer's counts are fields of its file parameter: named by the field, whatever the parameter is called
        wsyms = ['banks_count_melodic', 'banks_count_percussion']
        lp = rename(cons, dict(zip(syms, wsyms)))
        if w is not None:
            w = rename(w, {s_: s_.split('->')[-1].split('.')[-1] for s_ in w.symbols()})
        ok = w is not None and lp == w
        obls.append(Obl('C15.R2', 'WOPN_LoadBankFromMem', 'consumed == written, version %s' % (wv if wv is not None else '1 (old magic)'), facts.fn('WOPN_LoadBankFromMem').loc,
                        'discharged' if ok else 'finding', why='loader consumes %s, writer writes %s' % (lp, w)))
    lic = loader_cases(lieng, ok_ret)
    for ctx, cons in sorted(lic.items()):
        c = dict(ctx)
        wv = c.get('version')
        if wv is not None and wv < 2:
            continue
        w = wi.get((('version', wv if wv is not None else 1),))
        ok = w is not None and w == cons
        obls.append(Obl('C15.R2', 'WOPN_LoadInstFromMem', 'consumed == written, version %s' % (wv if wv is not None else '1 (old magic)'), facts.fn('WOPN_LoadInstFromMem').loc,
                        'discharged' if ok else 'finding', why='loader consumes %s, writer writes %s' % (cons, w)))

    # ---- R3 layout tables
    for version, hsd in ((1, 1), (2, 1), (2, 0), (1, 0)):
        rt, rfn = extract_layout(facts, 'WOPN_parseInstrument', version, hsd)
        wt, wfn = extract_layout(facts, 'WOPN_writeInstrument', version, hsd)
        if len(rt) < 30:
            raise build.AnalysisBroken('C15.R3: only %d fields extracted from WOPN_parseInstrument' % len(rt))
        for f in sorted(set(rt) | set(wt)):
            r, w = rt.get(f), wt.get(f)
            if r is None:
                # written, never read back: harmless only if the reader takes it from elsewhere
                obls.append(Obl('C15.R3', 'WOPN_writeInstrument', 'field %s v%d/d%d' % (f, version, hsd), wfn.loc, 'finding', why='written at %s but not read by the parser' % sorted(w)))
                continue
            if w is None:
                obls.append(Obl('C15.R3', 'WOPN_parseInstrument', 'field %s v%d/d%d' % (f, version, hsd), rfn.loc, 'finding', why='read at %s but never written by the writer' % sorted(r)))
                continue
            ok = r == w
            obls.append(Obl('C15.R3', 'WOPN_parseInstrument', 'field %s v%d/d%d' % (f, version, hsd), rfn.loc, 'discharged' if ok else 'finding',
                            why=('reader and writer agree: offset %s width %s codec %s' % sorted(r)[0]) if ok else 'reader uses %s, writer uses %s' % (sorted(r), sorted(w)),
                            nontrivial=(version == 2 and hsd == 1)))
    # codec pairs
    for a, b in (('toUint16LE', 'fromUint16LE'), ('toUint16BE', 'fromUint16BE'), ('toSint16BE', 'fromSint16BE')):
        sa, sb = codec_shifts(facts, a), codec_shifts(facts, b)
        ok = sa == sb and set(sa) == {0, 1} and sorted(sa.values()) == [0, 8]
        obls.append(Obl('C15.R3', a, 'codec pair %s/%s' % (a, b), facts.fn(a).loc, 'discharged' if ok else 'finding',
                        why='byte -> shift maps %s and %s' % (sa, sb)))
    # sign extension: a decoder reads a byte as a signed quantity only when it is the most significant byte of a signed result
    for a in ('toUint16LE', 'toUint16BE', 'toSint16BE'):
        fn = facts.fn(a)
        arr = [p for p in fn.params if p['t'].get('p')][0]
        shifts = codec_shifts(facts, a)
        signed_reads = set()
        for b, j, st in fn.cfg.stmts(conds=False):
            for x in walk(st['s']):
                # (int8_t)arr[i]  or  *(const int8_t *)&arr[i]
                if x.get('k', '').endswith('CastExpr') and (x.get('t') or {}).get('w') == 8 and not (x.get('t') or {}).get('u') and not (x.get('t') or {}).get('p'):
                    for y in walk(x.get('e')):
                        if y.get('k') == 'ArraySubscriptExpr' and strip(y['b']).get('id') == arr['id'] and const_of(y['i']) is not None:
                            signed_reads.add(const_of(y['i']))
                if x.get('k') == 'UnaryOperator' and x.get('op') == '*' and (x.get('t') or {}).get('w') == 8 and not (x.get('t') or {}).get('u'):
                    for y in walk(x.get('e')):
                        if y.get('k') == 'ArraySubscriptExpr' and strip(y['b']).get('id') == arr['id'] and const_of(y['i']) is not None:
                            signed_reads.add(const_of(y['i']))
        top = max(shifts, key=lambda i: shifts[i]) if shifts else None
        want = {top} if (a.startswith('toSint') and top is not None) else set()
        ok = signed_reads == want
        obls.append(Obl('C15.R3', a, 'sign extension of %s' % a, fn.loc, 'discharged' if ok else 'finding',
                        why='bytes read as signed: %s' % sorted(signed_reads) if ok else
                        'bytes read as signed: %s, expected %s: a low byte >= 0x80 is sign-extended over the high byte, so values outside -128..127 do not survive save + load' % (sorted(signed_reads), sorted(want))))
    # string terminators: after strncpy(dst, cursor, n) a store dst[k] = 0 must have k == min(n, extent-1)
    for fname in ('WOPN_parseInstrument', 'WOPN_LoadBankFromMem'):
        fn = facts.fn(fname)
        copies = {}
        for b, j, st in fn.cfg.stmts():
            for x in walk(st['s']):
                cal = short(x.get('callee', ''))
                if cal in ('strncpy', '__builtin_strncpy', '__builtin___strncpy_chk') and len(x.get('a', [])) >= 3:
                    d = strip(x['a'][0])
                    n = const_of(x['a'][2])
                    ext = d.get('t', {}).get('arr')
                    if ext and n is not None:
                        copies[short(d.get('n', show(d)))] = (n, ext)
        for b, j, st in fn.cfg.stmts():
            for x in walk(st['s']):
                ap = assign_parts(x)
                if ap and strip(ap[0]).get('k') == 'ArraySubscriptExpr' and const_of(ap[1]) == 0:
                    t = strip(ap[0])
                    base = strip(t['b'])
                    nm = short(base.get('n', ''))
                    if nm in copies and const_of(t['i']) is not None:
                        n, ext = copies[nm]
                        want = min(n, ext - 1)
                        k = const_of(t['i'])
                        obls.append(Obl('C15.R3', fname, 'terminator of %s' % nm, st['loc'], 'discharged' if k == want else 'finding',
                                        why='copies %d byte(s) into [%d]; terminator at index %d (expected %d: keeps every copied byte that fits)' % (n, ext, k, want)))
    # header flag byte and bank meta: masks/shifts and relative offsets agree between loader and saver
    obls += header_agreement(facts)
    obls += r4_init(facts)
    obls += r4b_v1_placeholder(facts)
    obls += r5_version_window(facts)
    obls += r6_parser_total(facts)
    obls += r3_blank_encoding(facts)
    return obls


def header_agreement(facts):
    out = []
    ld, sv = facts.fn('WOPN_LoadBankFromMem'), facts.fn('WOPN_SaveBankToMem')
    def bits(fn, reader):
        res = {}
        for b, j, st in fn.cfg.stmts():
            for x in walk(st['s']):
                ap = assign_parts(x)
                if not ap:
                    continue
                tgt, rhs, op = ap
                t, r = strip(tgt), strip(rhs)
                if reader and t.get('k') == 'MemberExpr' and short(t['n']) in ('lfo_freq', 'chip_type'):
                    shift, mask = 0, None
                    for y in walk(r):
                        if y.get('k') == 'BinaryOperator' and y['op'] == '>>' and const_of(y['r']) is not None:
                            shift = const_of(y['r'])
                        if y.get('k') == 'BinaryOperator' and y['op'] == '&' and const_of(y['r']) is not None:
                            mask = const_of(y['r'])
                    res[short(t['n'])] = (shift, mask)
                if not reader and t.get('k') == 'ArraySubscriptExpr':
                    for fld in ('lfo_freq', 'chip_type'):
                        if mentions(r, member_named(fld)):
                            shift, mask = 0, None
                            for y in walk(r):
                                if y.get('k') == 'BinaryOperator' and y['op'] == '<<' and const_of(y['r']) is not None:
                                    shift = const_of(y['r'])
                                if y.get('k') == 'BinaryOperator' and y['op'] == '&' and const_of(y['r']) is not None:
                                    mask = const_of(y['r'])
                            res[fld] = (shift, mask)
        return res
    rb, wb = bits(ld, True), bits(sv, False)
    for fld in ('lfo_freq', 'chip_type'):
        ok = fld in rb and fld in wb and rb[fld] == wb[fld]
        out.append(Obl('C15.R3', 'WOPN_SaveBankToMem', 'flag bits of ' + fld, sv.loc, 'discharged' if ok else 'finding',
                       why='loader (shift, mask) = %s, saver = %s' % (rb.get(fld), wb.get(fld))))
    # the two flag fields must not overlap
    if 'lfo_freq' in wb and 'chip_type' in wb and None not in (wb['lfo_freq'][1], wb['chip_type'][1]):
        m1 = wb['lfo_freq'][1] << wb['lfo_freq'][0]
        m2 = wb['chip_type'][1] << wb['chip_type'][0]
        out.append(Obl('C15.R3', 'WOPN_SaveBankToMem', 'flag fields disjoint', sv.loc, 'discharged' if (m1 & m2) == 0 else 'finding', why='bit masks %#x and %#x' % (m1, m2)))
    def meta(fn, reader):
        res = {}
        # the function itself and the helpers of the same file it hands its plain cursor to (offsets are then the same)
        scope = [fn]
        for b, j, st in fn.cfg.stmts():
            for x in calls_in(st['s']):
                cf = facts.fns.get(callee_name(x))
                if cf and cf[0].file == fn.file and cf[0].tree is not None and cf[0] not in scope and \
                        any(strip(a).get('k') == 'DeclRefExpr' and (strip(a).get('t') or {}).get('p') for a in x.get('a') or []):
                    scope.append(cf[0])
        for b, j, st in [s_ for f_ in scope for s_ in f_.cfg.stmts()]:
            for x in walk(st['s']):
                ap = assign_parts(x)
                if ap:
                    t, r = strip(ap[0]), strip(ap[1])
                    a, bb = (t, r) if reader else (r, t)
                    if a.get('k') == 'MemberExpr' and short(a['n']) in ('bank_midi_lsb', 'bank_midi_msb') and bb.get('k') == 'ArraySubscriptExpr':
                        res[short(a['n'])] = const_of(bb['i'])
        return res
    rm, wm = meta(ld, True), meta(sv, False)
    for fld in ('bank_midi_lsb', 'bank_midi_msb'):
        ok = fld in rm and rm.get(fld) == wm.get(fld)
        out.append(Obl('C15.R3', 'WOPN_SaveBankToMem', 'bank meta offset of ' + fld, sv.loc, 'discharged' if ok else 'finding',
                       why='loader reads offset %s, saver writes offset %s' % (rm.get(fld), wm.get(fld))))
    return out



def r4_init(facts):
    """WOPN_Init: under `<kind>_banks == 0` one placeholder bank is allocated and its 128 instruments are marked blank.  The array that
    is marked must be the array allocated from that parameter (parameter -> count field -> calloc -> array field): a placeholder
    left unmarked is saved as 128 sounding instruments with zero delays and reloads as blank ones (save/load is no identity)."""
    out = []
    fn = facts.fn('WOPN_Init')
    count_of = {}       # count field -> parameter id mentioned in its definition
    array_of = {}       # array field -> count field mentioned in its calloc
    marks = []
    for b, j, st in fn.cfg.stmts():
        for x in walk(st['s']):
            ap = assign_parts(x)
            if not ap:
                continue
            t = strip(ap[0])
            if t.get('k') == 'MemberExpr' and strip(t.get('b')).get('k') in ('DeclRefExpr',):
                fld = short(t['n'])
                ps = [y.get('id') for y in walk(ap[1]) if y.get('k') == 'DeclRefExpr' and y.get('parm')]
                if ps and not any(short(callee_name(y)) == 'calloc' for y in walk(ap[1])):
                    count_of[fld] = ps[0]
                for y in walk(ap[1]):
                    if short(callee_name(y)) == 'calloc' and y.get('a'):
                        cf = [short(z['n']) for z in walk(y['a'][0]) if z.get('k') == 'MemberExpr']
                        if cf:
                            array_of[fld] = cf[0]
            if t.get('k') == 'MemberExpr' and short(t['n']) == 'inst_flags':
                arr = [short(z['n']) for z in walk(t) if z.get('k') == 'MemberExpr' and short(z['n']).startswith('banks_')]
                gf = guard_facts(fn, b, st)
                gp = None
                for f in gf:
                    n_ = cmp_norm(f) if f[0] == 'cmp' else None
                    if n_ and n_[0] == '==' and n_[2] == 0 and strip(n_[1]).get('parm'):
                        gp = strip(n_[1])
                marks.append((st['loc'], arr[0] if arr else None, gp))
    if len(marks) < 2:
        raise build.AnalysisBroken('C15.R4: blank-marking stores of WOPN_Init not found')
    for loc, arr, gp in marks:
        ok = arr is not None and gp is not None and count_of.get(array_of.get(arr)) == gp.get('id')
        out.append(Obl('C15.R4', fn.name, 'placeholder %s marked blank under %s == 0' % (arr, short(gp['n']) if gp else '?'), loc, 'discharged' if ok else 'finding',
                       why='%s is allocated from %s, which is derived from %s' % (arr, array_of.get(arr), short(gp['n'])) if ok else
                       'the instruments marked blank under `%s == 0` belong to %s, which is not the array allocated for that count: the real placeholder bank stays unmarked and does not survive save + load' % (short(gp['n']) if gp else '?', arr)))
    return out


def r4b_v1_placeholder(facts):
    """Version 1 has no carrier for the blank marker (version 2 writes it as null delays): every instrument parsed from a version-1
    file has the marker cleared, and a value of version 1 that carries one does not survive save + load.  WOPN_Init() marks the
    place-holder bank of a zero count blank whatever the version, so the bank loader must clear `inst_flags` of the place holders
    under a condition that holds for every version below 2 - for both bank kinds (the local array of bank arrays it fills from
    banks_melodic and banks_percussive, or the two members themselves)."""
    out = []
    fn = facts.fn('WOPN_LoadBankFromMem')
    if not any(short(callee_name(x)) == 'WOPN_Init' for x in calls_in(fn.tree)):
        raise build.AnalysisBroken('C15.R4: the loader no longer creates its value with WOPN_Init')
    ver = None
    for b, j, st in fn.cfg.stmts():
        for x in walk(st['s']):
            ap = assign_parts(x)
            if ap and strip(ap[0]).get('k') == 'MemberExpr' and short(strip(ap[0])['n']) == 'version' and strip(ap[1]).get('k') == 'DeclRefExpr':
                ver = strip(ap[1])['id']
    if ver is None:
        raise build.AnalysisBroken('C15.R4: the version local of the bank loader (stored into <file>.version) not found')
    # which bank arrays a local array of arrays holds
    holds = {}
    for b, j, st in fn.cfg.stmts():
        for x in walk(st['s']):
            ap = assign_parts(x)
            if ap and strip(ap[0]).get('k') == 'ArraySubscriptExpr' and strip(strip(ap[0])['b']).get('k') == 'DeclRefExpr':
                for y in walk(ap[1]):
                    if y.get('k') == 'MemberExpr' and short(y['n']) in ('banks_melodic', 'banks_percussive'):
                        holds.setdefault(strip(strip(ap[0])['b'])['id'], set()).add(short(y['n']))
    cleared = set()
    loc = fn.loc
    for b, j, st in fn.cfg.stmts():
        for x in walk(st['s']):
            ap = assign_parts(x)
            if not (ap and strip(ap[0]).get('k') == 'MemberExpr' and short(strip(ap[0])['n']) == 'inst_flags'):
                continue
            clears = (ap[2] == '=' and const_of(ap[1]) == 0) or ap[2] == '&='
            if not clears:
                continue
            gf = guard_facts(fn, b, st, loops=False)
            below2 = False
            for f in gf:
                n_ = cmp_norm(f) if f[0] == 'cmp' else None
                if n_ and strip(n_[1]).get('id') == ver and ((n_[0] == '<' and n_[2] >= 2) or (n_[0] == '<=' and n_[2] >= 1) or (n_[0] == '==' and n_[2] in (0, 1))):
                    below2 = n_[0] != '==' or below2
                    if n_[0] in ('<', '<='):
                        below2 = True
            if not below2:
                continue
            loc = st['loc']
            for y in walk(ap[0]):
                if y.get('k') == 'MemberExpr' and short(y['n']) in ('banks_melodic', 'banks_percussive'):
                    cleared.add(short(y['n']))
                if y.get('k') == 'DeclRefExpr' and y.get('id') in holds:
                    cleared |= holds[y['id']]
    for arr in ('banks_melodic', 'banks_percussive'):
        ok = arr in cleared
        out.append(Obl('C15.R4', fn.name, 'version-1 place holder of %s carries no blank marker' % arr, loc, 'discharged' if ok else 'finding',
                       why='inst_flags cleared under version < 2' if ok else
                       'a version-1 file with a zero bank count loads with a place-holder bank flagged blank (WOPN_Init), a flag version 1 cannot carry: saving the loaded value and loading the result gives a different value'))
    return out


def r5_version_window(facts):
    """both loaders read a 16-bit version behind the second magic number.  The writers emit that magic (and the field) only for
    versions >= 2; with a smaller value the loader would parse the version-1 layout but keep the value, and saving the loaded value
    with its own version (0 means "latest") followed by loading does not return it.  So the value read must be compared against both
    ends of [2, latest] before the loader goes on (facts that hold at the first statement after the read)."""
    out = []
    n = 0
    for name in ('WOPN_LoadBankFromMem', 'WOPN_LoadInstFromMem'):
        fn = facts.fn(name)
        rd = None
        for b, j, st in fn.cfg.stmts():
            ap = assign_parts(st['s'])
            if ap and strip(ap[0]).get('k') == 'DeclRefExpr' and any(short(callee_name(y)) == 'toUint16LE' for y in walk(ap[1]) if 'callee' in y):
                rd = (b, j, st, strip(ap[0]))
                break
        if rd is None:
            raise build.AnalysisBroken('C15.R5: version read not found in %s' % name)
        b0, j0, st0, var = rd
        # first cursor move that the read dominates
        nxt = None
        for b, j, st in fn.cfg.stmts():
            if st['s'].get('k') == 'CompoundAssignOperator' and ((b == b0 and j > j0) or (b != b0 and fn.cfg.block_dominates(b0, b))):
                nxt = (b, j, st)
                break
        if nxt is None:
            raise build.AnalysisBroken('C15.R5: no statement after the version read in %s' % name)
        n += 1
        lo = hi = False
        for f in guard_facts(fn, nxt[0], nxt[2]):
            nn = cmp_norm(f) if f[0] == 'cmp' else None
            if f[0] == 'cmp' and strip(f[2]).get('id') == var.get('id'):
                c = const_of(f[3])
                if f[1] in ('>=',) and c is not None and c >= 2 or f[1] == '>' and c is not None and c >= 1:
                    lo = True
                if f[1] in ('<=', '<') and (c is None or c <= 2 + (1 if f[1] == '<' else 0)):
                    hi = True
        ok = lo and hi
        out.append(Obl('C15.R5', name, 'version window', st0['loc'], 'discharged' if ok else 'finding',
                       why='2 <= version <= latest holds after the read' if ok else
                       'the version read from the file is %s: a value of 0 or 1 behind the version-2 magic is loaded with the version-1 layout, and save-then-load of the loaded value is not the identity' % ('not bounded from below' if not lo else 'not bounded from above')))
    return out


def r6_parser_total(facts):
    """the single-instrument loader parses into a struct provided by the caller (the bank loader into calloc'ed memory): a field that
    the parser assigns only under a condition keeps whatever the caller's struct held, so the loaded value is not determined by the
    file and save-then-load is no identity.  Every field of WOPNInstrument has an unconditional store (loops with constant bounds
    aside) in WOPN_parseInstrument."""
    out = []
    fn = facts.fn('WOPN_parseInstrument')
    rec = facts.records.get('WOPNInstrument')
    if not rec:
        raise build.AnalysisBroken('C15.R6: record WOPNInstrument not found')
    uncond = set()
    al6 = alias_defs(fn.d)
    for b, j, st in fn.cfg.stmts():
        tg = []
        for x in walk(st['s']):
            ap = assign_parts(x)
            if ap:
                tg.append(canon_access(ap[0], al6))      # `op = &ins->operators[l]; op->x = ..` stores into ins->operators
            if 'callee' in x and short(callee_name(x)) in ('strncpy', 'memcpy', 'memset') and x.get('a'):
                tg.append(x['a'][0])
        if not tg:
            continue
        if guard_facts(fn, b, st, loops=False):
            continue
        for t in tg:
            for y in walk(t):
                if y.get('k') == 'MemberExpr' and 'WOPNInstrument::' in (y.get('n') or ''):
                    uncond.add(short(y['n']))
    for fld in rec['fields']:
        ok = fld['n'] in uncond
        out.append(Obl('C15.R6', fn.name, 'field ' + fld['n'], fn.loc, 'discharged' if ok else 'finding',
                       why='assigned unconditionally' if ok else
                       'WOPNInstrument::%s is assigned only under a condition (or not at all): WOPN_LoadInstFromMem leaves in it what the caller\'s struct held before, so the loaded instrument is not determined by the file' % fld['n']))
    if len(out) < 8:
        raise build.AnalysisBroken('C15.R6: fields of WOPNInstrument not found')
    return out


def r3_blank_encoding(facts):
    """version 2 has no flag byte: the writer stores a blank instrument as two zero delays and the reader recognises it by them.  The
    reader must require BOTH delays to be zero: a sounding instrument with one zero delay (percussion with no key-on delay) would
    otherwise load as blank, and the note falls back to another bank or is dropped."""
    out = []
    fn = facts.fn('WOPN_parseInstrument')
    blank = facts.enums.get('WOPN_Ins_IsBlank')
    n = 0
    for b, j, st in fn.cfg.stmts():
        ap = assign_parts(st['s'])
        if not ap or short(strip(ap[0]).get('n', '')) != 'inst_flags' or ap[2] not in ('|=', '='):
            continue
        if not any(isinstance(y, dict) and (const_of(y) == blank and y.get('enumc')) for y in walk(ap[1])):
            continue
        n += 1
        zero = set()
        for f in guard_facts(fn, b, st):
            nn = cmp_norm(f) if f[0] == 'cmp' else None
            if nn and nn[0] == '==' and nn[2] == 0:
                for y in walk(nn[1]):
                    if isinstance(y, dict) and y.get('k') == 'MemberExpr' and 'delay' in short(y.get('n', '')):
                        zero.add(short(y['n']))
        ok = {'delay_on_ms', 'delay_off_ms'} <= zero
        out.append(Obl('C15.R3', fn.name, 'blank <=> both delays are zero', st['loc'], 'discharged' if ok else 'finding',
                       why='the blank flag is set under delay_on_ms == 0 && delay_off_ms == 0' if ok else
                       'the blank flag is set when %s: an instrument with only that delay zero is written as sounding and loads as blank' % (' and '.join(sorted(zero)) + ' is zero' if zero else 'no delay is tested')))
    if n < 1:
        raise build.AnalysisBroken('C15.R3: the store of the blank flag in WOPN_parseInstrument not found')
    return out
