"""C06 — a new note never displaces a sounding note while a chip channel is idle.

R1  score separation: abstract evaluation of calculateChipChannelGoodness over the property's horizon gives
    min(score of a channel without users) > max(score of a channel with one pedal-held user) and
    min(one pedal-held user) > max(one key-down user); every further user lowers the score.
R1b ageing is real time: TickIterators hands addAge exactly s * 1e6 microseconds and addAge subtracts exactly that.
R2  selection is arg-max over every chip channel except the already chosen primary, with a strict comparison.
R3  eviction is confined: prepareChipChannelForNewNote(c) returns at once for a channel without users and every
    kill/evacuate call it makes names channel c.
"""
import collections
from ..core import *
from ..logic import *
from ..e2 import *
from .. import e2prog
from ..report import Obl, Rule
from .. import build

PROP = 'C06'
RULES = [
    Rule('C06.R1', 'score ranges: idle > single pedal-held user > single key-down user; each further user lowers the score', 4),
    Rule('C06.R1b', 'note ageing advances in real time (s * 1e6 us per tick, subtracted as is; the audio loops tick no more than the time of the block they render)', 4),
    Rule('C06.R2', 'the candidate loop keeps the greatest score over all channels except the chosen primary', 3),
    Rule('C06.R3', 'eviction touches only the chosen channel and nothing at all when it has no users', 3),
    Rule('C06.R4', 'a note takes a second chip channel only when its two voices differ, and the instrument converters leave the two voices of a single-voice instrument equal', 2),
]
EXPLANATION = ('Interval abstract interpretation (E2) of OPNMIDIplay::calculateChipChannelGoodness with the release/key-on ages ranging over the property\'s '
               '10-minute horizon (upper bounds from the 16-bit millisecond fields, koff >= 0 proven from the stores): the ranges of the score on the '
               'no-user paths, of the per-user decrement for pedal-held and key-down users, and of the per-user bonuses are compared. AST shape rules for '
               'the arg-max loop, the ageing conversion and the confinement of eviction. Decides the ordering of scores for all ages in the horizon and '
               'all allocation modes; does not decide the before/after relation on real histories (arpeggio evacuation moves notes by design).')
HORIZON_US = 600 * 1000 * 1000
ASSUMPTIONS = ['key-on ages stay above -%d us (the property\'s horizon of 10 simulated minutes)' % HORIZON_US,
               'time deltas handed to the ageing are non-negative, hence ages never exceed the 16-bit millisecond values they start from']


def views(tier):
    return ['V0'] if tier == 'quick' else ['V0', 'V1']


def analyse(facts, tier):
    obls = []
    res = e2prog.analyse_program(facts)
    g = facts.fn('OPNMIDIplay::calculateChipChannelGoodness')
    fr = dict(res['field_ranges'])
    KOFF = 'OPNMIDIplay::OpnChannel::koff_time_until_neglible_us'
    KON = 'OPNMIDIplay::OpnChannel::LocationData::kon_time_until_neglible_us'
    if KOFF not in fr or KON not in fr:
        raise build.AnalysisBroken('C06: age fields not found among the field ranges')
    proven_lo = fr[KOFF].lo
    fr[KOFF] = V(max(proven_lo, -HORIZON_US), 65535 * 1000)
    fr[KON] = V(-HORIZON_US, 65535 * 1000)
    eng = Engine2(facts, fr, e2prog.MIN_SIZES, res['param_ranges'], resizers=res['resizers'])
    probes = {'ret_in_if': [], 'before_loop': None, 'dec': {}, 'bonus': []}
    s_id = None
    for b, j, st in g.cfg.stmts():
        if st['s'].get('k') == 'DeclStmt':
            for v in st['s']['decls']:
                if v['n'] == 's':
                    s_id = v['id']
    if s_id is None:
        raise build.AnalysisBroken('C06: score variable not found')
    loop_ln = None
    def rec(t):
        nonlocal loop_ln
        if isinstance(t, dict):
            if t.get('k') == 'ForStmt' and loop_ln is None and mentions(t.get('init'), lambda y: short(callee_name(y)) == 'begin'):
                loop_ln = t.get('ln')
            for k2 in ('body', 'then', 'else', 'sub'):
                v = t.get(k2)
                if isinstance(v, list):
                    for y in v:
                        rec(y)
                elif isinstance(v, dict):
                    rec(v)
    rec(g.tree)
    def hook(e_, e, st):
        for x in walk(e):
            ap = assign_parts(x)
            if ap and strip(ap[0]).get('id') == s_id and ap[2] == '-=' and strip(ap[1]).get('k') == 'ConditionalOperator':
                c = strip(ap[1])
                s1, s2 = st.copy(), st.copy()
                e_.refine(c['cnd'], True, s1); e_.refine(c['cnd'], False, s2)
                cn = strip(c['cnd'])
                # which branch is the key-down one: condition `sustained == Sustain_None`
                def is_none_test(y):
                    y = strip(y)
                    return y.get('k') == 'BinaryOperator' and y['op'] == '==' and mentions(y['l'], member_named('sustained')) and const_of(y['r']) == 0
                disj = []
                def flat_or(y):
                    y = strip(y)
                    if y.get('k') == 'BinaryOperator' and y.get('op') == '||':
                        flat_or(y['l']); flat_or(y['r'])
                    else:
                        disj.append(y)
                flat_or(cn)
                keydown_true = any(is_none_test(y) for y in disj)
                probes['keydown_disjuncts'] = [show(y) for y in disj]
                # the other disjuncts must say "the key is still down": the negated is_end() of a find_activenote() result
                # the other disjunct says "the key is still down": the active note of that key exists (negated is_end() of the
                # find_activenote() result) AND it sounds on this very chip channel (phys_find(c) on it) - a re-struck key has an
                # active note as well, but on another chip channel.  The disjunct may be a local flag defined that way.
                def resolve(y):
                    y = strip(y)
                    if y.get('k') == 'DeclRefExpr' and not y.get('parm'):
                        for b_, j_, st_ in g.cfg.stmts():
                            if st_['s'].get('k') == 'DeclStmt':
                                for v_ in st_['s']['decls']:
                                    if v_['id'] == y.get('id') and v_.get('init') is not None:
                                        return strip(v_['init'])
                    return y
                cpar = g.params[0]['id']
                def lookup_ok(y):
                    y = resolve(y)
                    has_found = any(isinstance(z, dict) and z.get('k') == 'UnaryOperator' and z.get('op') == '!' and short(callee_name(strip(z.get('e')))) == 'is_end' for z in walk(y))
                    on_chan = any(isinstance(z, dict) and 'callee' in z and short(callee_name(z)) == 'phys_find' and any(isinstance(w, dict) and w.get('id') == cpar for a_ in z.get('a', []) for w in walk(a_)) for z in walk(y))
                    return has_found and on_chan
                probes['keydown_by_lookup'] = any(lookup_ok(y) for y in disj if not is_none_test(y))
                a, b2 = e_.ev(c['l'], s1), e_.ev(c['r'], s2)
                probes['dec']['key-down' if keydown_true else 'pedal-held'] = a
                probes['dec']['pedal-held' if keydown_true else 'key-down'] = b2
                probes['dec_form'] = keydown_true
            if ap and strip(ap[0]).get('id') == s_id and ap[2] == '+=':
                v = e_.ev(ap[1], st)
                probes['bonus'].append((x.get('ln'), v))
            # the iterator initialisation of the user loop: score before any user is counted
            if x.get('k') == 'DeclRefExpr':
                pass
    def stmt_hook(e_, e, st):
        pass
    eng.value_hooks.append(hook)
    # returns: capture the state of s
    orig_stmt = eng.stmt
    def stmt(s, st):
        if isinstance(s, dict) and s.get('k') == 'ReturnStmt' and s.get('e') is not None:
            v = eng.ev(s['e'], st)
            gf = None
            probes.setdefault('rets', []).append((s.get('ln'), v))
        if isinstance(s, dict) and s.get('k') == 'ForStmt' and s.get('ln') == loop_ln:
            probes['before_loop'] = st.env.get(('v', s_id))
        return orig_stmt(s, st)
    eng.stmt = stmt
    eng.run(g, record=True)
    rets = probes.get('rets', [])
    if len(rets) < 2 or probes['before_loop'] is None or len(probes['dec']) != 2:
        raise build.AnalysisBroken('C06.R1: could not locate the two returns / the user loop / the per-user decrement (%s)' % {k: (v if k != 'rets' else len(v)) for k, v in probes.items()})
    idle_ret = rets[0][1]           # the return inside `if(s < 0 && users.empty())`
    s0 = probes['before_loop']      # score when the user loop starts (also the result for a channel without users whose release has ended)
    bonus = 0
    seen_ln = set()
    for ln, v in probes['bonus']:
        if ln in seen_ln:
            continue
        seen_ln.add(ln)
        bonus += max(0, v.hi)
    ped, key = probes['dec']['pedal-held'], probes['dec']['key-down']
    # a channel without users: either the early return, or (release ended, s >= 0) the unchanged s0 restricted to s >= 0
    min_idle = min(idle_ret.lo, 0)
    max_ped1 = s0.hi - ped.lo + bonus
    min_ped1 = s0.lo - ped.hi
    max_key1 = s0.hi - key.lo + bonus
    detail = {'idle_return': repr(idle_ret), 'score_before_users': repr(s0), 'pedal_held_decrement': repr(ped), 'key_down_decrement': repr(key), 'max_bonus_per_user': bonus}
    ok = min_idle > max_ped1
    obls.append(Obl('C06.R1', g.name, 'idle > pedal-held', g.loc, 'discharged' if ok else 'finding',
                    why='min score without users %d > max score with one pedal-held user %d' % (min_idle, max_ped1) if ok else
                    'a channel without users can score %d, a channel with a pedal-held user up to %d: a sounding note may be displaced while a channel is idle' % (min_idle, max_ped1), detail=detail))
    ok = min_idle > max_key1
    obls.append(Obl('C06.R1', g.name, 'idle > key-down', g.loc, 'discharged' if ok else 'finding',
                    why='min score without users %d > max score with one key-down user %d' % (min_idle, max_key1) if ok else
                    'a channel without users can score %d, a channel with a key-down user up to %d' % (min_idle, max_key1), detail=detail))
    ok = min_ped1 > max_key1
    obls.append(Obl('C06.R1', g.name, 'pedal-held > key-down', g.loc, 'discharged' if ok else 'finding',
                    why='min score with one pedal-held user %d > max score with one key-down user %d' % (min_ped1, max_key1) if ok else
                    'a pedal-held note (score down to %d) is not always taken before a key-down note (score up to %d)' % (min_ped1, max_key1), detail=detail))
    okl = bool(probes.get('keydown_by_lookup'))
    obls.append(Obl('C06.R1', g.name, 'the pedal-held price needs a released key', g.loc, 'discharged' if okl else 'finding',
                    why='the key-down arm is taken for sustained == None or when the active note of that key sounds on this chip channel: %s' % ' || '.join(probes.get('keydown_disjuncts', [])) if okl else
                    'the cheap pedal-held price does not depend on `the active note of this key sounds on this chip channel` (find_activenote + phys_find(c)): either a sostenuto-marked note whose key is still down is scored as released, or a released pedal-held note whose key was struck again elsewhere is scored as key-down'))
    ok = ped.lo > bonus and key.lo > bonus
    obls.append(Obl('C06.R1', g.name, 'each further user lowers the score', g.loc, 'discharged' if ok else 'finding',
                    why='per-user decrement >= %d exceeds the per-user bonus <= %d' % (min(ped.lo, key.lo), bonus) if ok else 'a user can raise the score (decrement %d, bonus %d)' % (min(ped.lo, key.lo), bonus)))
    obls.append(Obl('C06.R1', 'OPNMIDIplay::OpnChannel::addAge', 'release age never negative', g.loc, 'discharged' if proven_lo >= 0 else 'finding',
                    why='join of all stores of koff_time_until_neglible_us has lower bound %d' % proven_lo))

    # ---- R1b
    ti = facts.fn('OPNMIDIplay::TickIterators')
    aa = facts.fn('OPNMIDIplay::OpnChannel::addAge')
    sd = single_defs(ti.d)
    okc = False
    locc = ti.loc
    for b, j, st in ti.cfg.stmts():
        for x in calls_in(st['s']):
            if short(callee_name(x)) == 'addAge' and x.get('a'):
                a = strip(subst(x['a'][0], sd))
                locc = st['loc']
                if a.get('k') == 'BinaryOperator' and a['op'] == '*':
                    l, r = strip(a['l']), strip(a['r'])
                    par = ti.params[0]['id']
                    okc = (l.get('id') == par and r.get('fc') == 1e6) or (r.get('id') == par and l.get('fc') == 1e6)
    obls.append(Obl('C06.R1b', ti.name, 'addAge(s * 1e6)', locc, 'discharged' if okc else 'finding',
                    why='elapsed seconds are converted to microseconds exactly' if okc else 'the elapsed time handed to the note ageing is not s * 1e6: ages no longer follow simulated time and the score ranges above do not apply'))
    us = aa.params[0]['id']
    subs = 0
    for b, j, st in aa.cfg.stmts():
        for x in walk(st['s']):
            if x.get('k') == 'BinaryOperator' and x['op'] == '-' and strip(x['r']).get('id') == us and strip(x['l']).get('k') == 'MemberExpr' and 'until_neglible' in strip(x['l'])['n']:
                subs += 1
    obls.append(Obl('C06.R1b', aa.name, 'ages decrease by exactly the elapsed time', aa.loc, 'discharged' if subs >= 2 else 'finding',
                    why='%d age fields updated as age - us' % subs if subs >= 2 else 'ageing does not subtract the elapsed microseconds from both ages'))

    obls += r1b_audio_period(facts)

    # ---- R2 arg-max
    non = facts.fn('OPNMIDIplay::realTime_NoteOn')
    best = None
    for b, j, st in non.cfg.stmts():
        for x in walk(st['s']):
            ap = assign_parts(x)
            if ap and strip(ap[0]).get('k') == 'DeclRefExpr' and short(strip(ap[0])['n']) == 'bs':
                gf = guard_facts(non, b, st)
                strict = any(f[0] == 'cmp' and f[1] in ('>', '>=') and short(strip(f[2]).get('n', '')) == 's' and short(strip(f[3]).get('n', '')) == 'bs' for f in gf)
                best = (st['loc'], strict)
    obls.append(Obl('C06.R2', non.name, 'keep the greatest score', best[0] if best else non.loc, 'discharged' if best and best[1] else 'finding',
                    why='best candidate updated only when the score is not lower than the best so far' if best and best[1] else 'best-candidate update is not guarded by a comparison s > bs / s >= bs'))
    # loop bound and the only skip
    loops = []
    def rec2(t):
        if isinstance(t, dict):
            if t.get('k') == 'ForStmt' and t.get('cond') is not None and mentions(t.get('body'), lambda y: short(callee_name(y)) == 'calculateChipChannelGoodness'):
                loops.append(t)
            for k2 in ('body', 'then', 'else', 'sub'):
                v = t.get(k2)
                if isinstance(v, list):
                    for y in v:
                        rec2(y)
                elif isinstance(v, dict):
                    rec2(v)
    rec2(non.tree)
    inner = [l for l in loops if not any(l2 is not l and mentions(l.get('body'), lambda y, l2=l2: y is l2) for l2 in loops)]
    lp = min(loops, key=lambda l: len(str(l))) if loops else None
    okb = lp is not None and mentions(lp['cond'], member_named('m_numChannels')) and strip(lp['cond']).get('op') == '<'
    obls.append(Obl('C06.R2', non.name, 'every chip channel is a candidate', '%s:%s' % (non.file, lp.get('ln') if lp else non.d['line']), 'discharged' if okb else 'finding',
                    why='for a < m_numChannels' if okb else 'candidate loop does not range over all m_numChannels channels'))
    skips = []
    if lp:
        body = lp.get('body') or {}
        for it in (body.get('body', []) if body.get('k') == 'CompoundStmt' else [body]):
            if isinstance(it, dict) and it.get('k') == 'IfStmt' and (it.get('then') or {}).get('k') == 'ContinueStmt':
                skips.append(show(it['cond']))
    oks = len(skips) == 1 and 'adlchannel[0]' in skips[0] and 'ccount == 1' in skips[0]
    obls.append(Obl('C06.R2', non.name, 'only the chosen primary is skipped', '%s:%s' % (non.file, lp.get('ln') if lp else non.d['line']), 'discharged' if oks else 'finding',
                    why='single skip: %s' % skips[0] if oks else 'candidate loop skips channels other than the primary of a two-voice note: %s' % skips))

    # ---- R3
    pc = facts.fn('OPNMIDIplay::prepareChipChannelForNewNote')
    c_id = pc.params[0]['id']
    first = None
    for b, j, st in pc.cfg.stmts():
        first = (b, j, st)
        break
    early = first is not None and first[2].get('is_cond') and short(callee_name(strip(first[2]['s']))) == 'empty' and mentions(first[2]['s'], lambda y: y.get('id') == c_id)
    ret_first = False
    if early:
        blk = pc.cfg.blocks[first[0]]
        t = blk['succ'][0]
        ret_first = t is not None and any(s_['s'].get('k') == 'ReturnStmt' for s_ in pc.cfg.blocks[t]['stmts'])
    obls.append(Obl('C06.R3', pc.name, 'no users => return before any mutation', pc.loc, 'discharged' if (early and ret_first) else 'finding',
                    why='first statement: if(m_chipChannels[c].users.empty()) return' if (early and ret_first) else 'a channel without users is not left untouched'))
    for b, j, st in pc.cfg.stmts():
        for x in calls_in(st['s']):
            sn = short(callee_name(x))
            if sn == 'killOrEvacuate':
                ok = strip(x['a'][0]).get('id') == c_id
                obls.append(Obl('C06.R3', pc.name, 'killOrEvacuate names channel c', st['loc'], 'discharged' if ok else 'finding', why=show(x)[:70]))
            if sn == 'killSustainingNotes':
                ok = mentions(x['a'][1], lambda y: y.get('id') == c_id)
                obls.append(Obl('C06.R3', pc.name, 'killSustainingNotes names channel c', st['loc'], 'discharged' if ok else 'finding', why=show(x)[:70]))
            if callee_name(x).endswith('OPN2::noteOff') or (sn == 'noteOff' and x.get('obj') is not None):
                ok = mentions(x['a'][0], lambda y: y.get('id') == c_id) if x.get('a') else False
                obls.append(Obl('C06.R3', pc.name, 'key-off names channel c', st['loc'], 'discharged' if ok else 'finding', why=show(x)[:70]))
    obls += r4(facts)
    return obls



def r4(facts):
    """One chip channel per single-voice note.  (a) realTime_NoteOn leaves the voice loop after the first voice when voices[0] == voices[1];
    (b) every converter that fills an OpnInstMeta mirrors voice 0 into voice 1 (`ins.op[1] = ins.op[0]`) and writes neither voice afterwards:
    a later store to one of them makes every note of the instrument take two chip channels, and with one idle channel the second voice
    displaces a sounding note."""
    out = []
    no = facts.fn('OPNMIDIplay::realTime_NoteOn')
    eq = None
    ok = False
    def rec(t):
        nonlocal eq, ok
        if isinstance(t, dict):
            if t.get('k') == 'IfStmt' and t.get('cond') is not None:
                c = show(t['cond']).replace(' ', '')
                if 'voices[0]' in c and 'voices[1]' in c and '==' in c and '!' not in c:
                    eq = t
                    th = t.get('then')
                    th = th['body'][0] if isinstance(th, dict) and th.get('k') == 'CompoundStmt' and len(th.get('body', [])) == 1 else th
                    if isinstance(th, dict) and th.get('k') == 'BreakStmt':
                        ok = True
            for k2 in ('body', 'then', 'else', 'sub', 'init'):
                v = t.get(k2)
                if isinstance(v, (dict, list)):
                    rec(v)
        elif isinstance(t, list):
            for y in t:
                rec(y)
    rec(no.tree)
    out.append(Obl('C06.R4', no.name, 'second voice only when the voices differ', ('%s:%s' % (no.file, eq.get('ln')) if eq else no.loc), 'discharged' if ok else 'finding',
                   why='`if(voices[0] == voices[1]) break;` in the voice loop' if ok else 'the voice loop does not stop after the first voice of a single-voice instrument'))
    n = 0
    for fn in facts.all_fns():
        if fn.tree is None or not fn.relfile().startswith('src/') or '/chips/' in fn.relfile():
            continue
        mir = []
        for b, j, st in fn.cfg.stmts():
            for x in walk(st['s']):
                ap = assign_parts(x)
                if ap and show(strip(ap[0])).endswith('.op[1]') and show(strip(ap[1])).endswith('.op[0]'):
                    mir.append((b, j, st))
        for b, j, st in mir:
            n += 1
            late = []
            for b2, j2, st2 in fn.cfg.stmts():
                if (b2, j2) == (b, j) or not fn.cfg.stmt_before((b, j), (b2, j2)):
                    continue
                for x in walk(st2['s']):
                    ap = assign_parts(x)
                    tgt = ap[0] if ap else (x['e'] if is_incdec(x) else None)
                    if tgt is not None and ('.op[0]' in show(strip(tgt)) or '.op[1]' in show(strip(tgt))):
                        late.append((st2['loc'], show(x)[:60]))
            out.append(Obl('C06.R4', fn.name, 'voices mirrored last', st['loc'], 'finding' if late else 'discharged',
                           why=('after `op[1] = op[0]` the function still writes %s: the voices of a single-voice instrument differ and each of its notes takes two chip channels' % late[0][1]) if late else
                           'no store to either voice after op[1] = op[0]'))
    if n < 1:
        raise build.AnalysisBroken('C06.R4: the voice-mirroring statement op[1] = op[0] was not found in any converter')
    return out


def r1b_audio_period(facts):
    """the audio loops render at most CAP frames per round (`(n > CAP) ? CAP : n`) and then tick the note ageing / the sequencer by
    `eat_delay`.  Ageing follows the rendered audio only if eat_delay never exceeds the time of CAP frames: eat_delay must be
    min(.., setup.maxdelay) and maxdelay must be defined as CAP / PCM_RATE."""
    out = []
    def minlike(e):
        """(a < M ? a : M) and mirror images -> (a, M) shown"""
        e = strip(e)
        if e is not None and 'callee' in e and short(callee_name(e)) == 'min' and len(e.get('a', [])) == 2:
            return strip(e['a'][0]), strip(e['a'][1])
        if e is None or e.get('k') != 'ConditionalOperator':
            return None
        lits = [f for f in literals(e['cnd'], True) if f[0] == 'cmp']
        if len(lits) != 1:
            return None
        _, op, cl, cr = lits[0]
        l, r = show(strip(e['l'])), show(strip(e['r']))
        a, b = show(strip(cl)), show(strip(cr))
        if op in ('<', '<=') and (l, r) == (a, b):
            return strip(e['l']), strip(e['r'])
        if op in ('>', '>=') and (l, r) == (b, a):
            return strip(e['l']), strip(e['r'])
        return None
    caps = set()
    n = 0
    for name in ('opn2_playFormat', 'opn2_generateFormat'):
        fn = facts.fns.get(name)
        fn = fn[0] if fn else None
        if fn is None or fn.tree is None:
            continue
        defs = collections.defaultdict(list)
        for b, j, st in fn.cfg.stmts():
            if st['s'].get('k') == 'DeclStmt':
                for v in st['s']['decls']:
                    if v.get('init') is not None:
                        defs[v['id']].append(v['init'])
            for x in walk(st['s']):
                ap = assign_parts(x)
                if ap and strip(ap[0]).get('k') == 'DeclRefExpr':
                    defs[strip(ap[0])['id']].append(ap[1])
        # frame cap of one round
        for vid, ds in defs.items():
            for d in ds:
                d = strip(d)
                if d.get('k') == 'ConditionalOperator':
                    for arm in (d['l'], d['r']):
                        c = const_of(arm)
                        if c is not None and c >= 64 and any(const_of(y) == c for y in walk(d['cnd'])):
                            caps.add(c)
        for b, j, st in fn.cfg.stmts():
            for x in calls_in(st['s']):
                if short(callee_name(x)) in ('TickIterators', 'Tick') and x.get('a'):
                    a = strip(x['a'][0])
                    n += 1
                    ds = defs.get(a.get('id'), []) if a.get('k') == 'DeclRefExpr' else [a]
                    ok = bool(ds)
                    for d in ds:
                        m = minlike(d)
                        if not (m and any(y.get('k') == 'MemberExpr' and short(y['n']) == 'maxdelay' for arm in m for y in walk(arm))):
                            ok = False
                    out.append(Obl('C06.R1b', fn.name, '%s(%s)' % (short(callee_name(x)), show(a)[:20]), st['loc'], 'discharged' if ok else 'finding',
                                   why='the period is min(.., setup.maxdelay)' if ok else
                                   'the period handed to %s is not capped by setup.maxdelay while one round renders at most the capped block: with large requests the note ages (and the song) run ahead of the rendered audio, so pedal-held notes out-score idle channels early' % short(callee_name(x))))
    if n < 2:
        if facts.view in ('noSEQ',) and n >= 1:
            pass
        else:
            raise build.AnalysisBroken('C06.R1b: tick calls of the audio loops not found')
    # maxdelay = CAP / PCM_RATE
    nm = 0
    for fn in facts.all_fns():
        if not fn.name.startswith('OPNMIDIplay::') or fn.tree is None:
            continue
        for b, j, st in fn.cfg.stmts():
            for x in walk(st['s']):
                ap = assign_parts(x)
                if ap and strip(ap[0]).get('k') == 'MemberExpr' and short(strip(ap[0])['n']) == 'maxdelay':
                    nm += 1
                    r = strip(ap[1])
                    num = strip(r.get('l')) if r.get('k') == 'BinaryOperator' and r.get('op') == '/' else None
                    c = None
                    if num is not None:
                        c = num.get('fc') if num.get('fc') is not None else const_of(num)
                    ok = c is not None and caps and all(c <= cap for cap in caps) and any(y.get('k') == 'MemberExpr' and short(y['n']) == 'PCM_RATE' for y in walk(r.get('r')))
                    out.append(Obl('C06.R1b', fn.name, 'maxdelay = %s' % show(r)[:40], st['loc'], 'discharged' if ok else 'finding',
                                   why='the time of %s frames, the per-round render cap %s' % (c, sorted(caps)) if ok else
                                   'setup.maxdelay is not the time of the per-round render cap %s: the tick period can exceed the rendered block' % sorted(caps)))
    if nm < 1:
        raise build.AnalysisBroken('C06.R1b: definition of Setup::maxdelay not found')
    return out
