"""C06 — a new note never displaces a sounding note while a chip channel is idle.

R1  score separation: abstract evaluation of calculateChipChannelGoodness over the property's horizon gives
    min(score of a channel without users) > max(score of a channel with one pedal-held user) and
    min(one pedal-held user) > max(one key-down user); every further user lowers the score.
R1b ageing is real time: TickIterators hands addAge exactly s * 1e6 microseconds and addAge subtracts exactly that.
R2  selection is arg-max over every chip channel except the already chosen primary, with a strict comparison.
R3  eviction is confined: prepareChipChannelForNewNote(c) returns at once for a channel without users and every
    kill/evacuate call it makes names channel c.
"""
import collections
from ..core import *
from ..logic import *
from ..e2 import *
from .. import e2prog
from ..report import Obl, Rule
from .. import build

PROP = 'C06'
RULES = [
    Rule('C06.R1', 'score ranges: idle > single pedal-held user > single key-down user; each further user lowers the score', 4),
    Rule('C06.R1b', 'note ageing advances in real time (s * 1e6 us per tick, subtracted as is; the audio loops tick no more than the time of the block they render)', 4),
    Rule('C06.R2', 'the candidate loop keeps the greatest score over all channels except the chosen primary', 3),
    Rule('C06.R3', 'eviction touches only the chosen channel and nothing at all when it has no users', 3),
    Rule('C06.R4', 'a note takes a second chip channel only when its two voices differ, and the instrument converters leave the two voices of a single-voice instrument equal', 2),
]
EXPLANATION = ('Interval abstract interpretation (E2) of OPNMIDIplay::calculateChipChannelGoodness with the release/key-on ages ranging over the property\'s '
               '10-minute horizon (upper bounds from the 16-bit millisecond fields, koff >= 0 proven from the stores): the ranges of the score on the '
               'no-user paths, of the per-user decrement for pedal-held and key-down users, and of the per-user bonuses are compared. AST shape rules for '
               'the arg-max loop, the ageing conversion and the confinement of eviction. Decides the ordering of scores for all ages in the horizon and '
               'all allocation modes; does not decide the before/after relation on real histories (arpeggio evacuation moves notes by design).')
HORIZON_US = 600 * 1000 * 1000
ASSUMPTIONS = ['key-on ages stay above -%d us (the property\'s horizon of 10 simulated minutes)' % HORIZON_US,
               'time deltas handed to the ageing are non-negative, hence ages never exceed the 16-bit millisecond values they start from']


def views(tier):
    return ['V0'] if tier == 'quick' else ['V0', 'V1']


def analyse(facts, tier):
    obls = []
    res = e2prog.analyse_program(facts)
    g = facts.fn('OPNMIDIplay::calculateChipChannelGoodness')
    fr = dict(res['field_ranges'])
    KOFF = 'OPNMIDIplay::OpnChannel::koff_time_until_neglible_us'
    KON = 'OPNMIDIplay::OpnChannel::LocationData::kon_time_until_neglible_us'
    if KOFF not in fr or KON not in fr:
        raise build.AnalysisBroken('C06: age fields not found among the field ranges')
    proven_lo = fr[KOFF].lo
    fr[KOFF] = V(max(proven_lo, -HORIZON_US), 65535 * 1000)
    fr[KON] = V(-HORIZON_US, 65535 * 1000)
    eng = Engine2(facts, fr, e2prog.MIN_SIZES, res['param_ranges'], resizers=res['resizers'])
    probes = {'ret_in_if': [], 'before_loop': None, 'dec': {}, 'bonus': []}
    # the score: the integer local that the function returns; the user loop: the loop whose body charges the score for a user
    ret_ids = collections.Counter()
    for b, j, st in g.cfg.returns():
        e = strip(st['s'].get('e')) if st['s'].get('e') is not None else None
        if e is not None and e.get('k') == 'DeclRefExpr' and not e.get('parm'):
            ret_ids[e['id']] += 1
    s_id = ret_ids.most_common(1)[0][0] if ret_ids else None
    if s_id is None:
        raise build.AnalysisBroken('C06: score variable not found')
    def two_prices(rhs):
        """(condition, price when it holds, price when it does not, bindings) of a per-user charge written as `c ? a : b` or as a
        call of a helper whose whole body is `return flag ? a : b` (flag and the other parameters bound to the arguments)"""
        c = strip(rhs)
        if c.get('k') == 'ConditionalOperator':
            return c['cnd'], c['l'], c['r'], []
        if 'callee' in c:
            fl = facts.fns.get(callee_name(c))
            cf = fl[0] if fl else None
            body = cf.tree.get('body') if cf is not None and cf.tree is not None and cf.tree.get('k') == 'CompoundStmt' else None
            if body and len(body) == 1 and body[0].get('k') == 'ReturnStmt' and strip(body[0].get('e') or {}).get('k') == 'ConditionalOperator':
                r = strip(body[0]['e'])
                flag = strip(r['cnd'])
                pidx = {p_['id']: i_ for i_, p_ in enumerate(cf.params)}
                if flag.get('k') == 'DeclRefExpr' and flag.get('id') in pidx and len(c.get('a', [])) == len(cf.params):
                    binds = [(p_['id'], c['a'][i_]) for i_, p_ in enumerate(cf.params) if i_ != pidx[flag['id']]]
                    return c['a'][pidx[flag['id']]], r['l'], r['r'], binds
        return None
    loop_node = None
    def rec(t, loops_):
        nonlocal loop_node
        if isinstance(t, dict):
            if t.get('k') in ('ForStmt', 'WhileStmt', 'DoStmt'):
                loops_ = loops_ + [t]
            for k2 in ('body', 'then', 'else', 'sub'):
                v = t.get(k2)
                if isinstance(v, list):
                    for y in v:
                        rec(y, loops_)
                elif isinstance(v, dict):
                    rec(v, loops_)
            if t.get('k') not in ('ForStmt', 'WhileStmt', 'DoStmt', 'CompoundStmt', 'IfStmt') and loops_ and loop_node is None:
                for x in walk(t):
                    ap = assign_parts(x)
                    if ap and strip(ap[0]).get('id') == s_id and ap[2] == '-=' and two_prices(ap[1]) is not None:
                        loop_node = loops_[0]
    rec(g.tree, [])
    def hook(e_, e, st):
        for x in walk(e):
            ap = assign_parts(x)
            if ap and strip(ap[0]).get('id') == s_id and ap[2] == '-=' and two_prices(ap[1]) is not None:
                cnd_, arm_t, arm_f, binds = two_prices(ap[1])
                s1, s2 = st.copy(), st.copy()
                e_.refine(cnd_, True, s1); e_.refine(cnd_, False, s2)
                for pid_, arg_ in binds:
                    s1.env[('v', pid_)] = e_.ev(arg_, s1)
                    s2.env[('v', pid_)] = e_.ev(arg_, s2)
                cn = strip(cnd_)
                # which branch is the key-down one: condition `sustained == Sustain_None`
                def is_none_test(y):
                    y = strip(y)
                    return y.get('k') == 'BinaryOperator' and y['op'] == '==' and mentions(y['l'], member_named('sustained')) and const_of(y['r']) == 0
                disj = []
                def flat_or(y):
                    y = strip(y)
                    if y.get('k') == 'BinaryOperator' and y.get('op') == '||':
                        flat_or(y['l']); flat_or(y['r'])
                    else:
                        disj.append(y)
                flat_or(cn)
                keydown_true = any(is_none_test(y) for y in disj)
                probes['keydown_disjuncts'] = [show(y) for y in disj]
                # the other disjuncts must say "the key is still down": the negated is_end() of a find_activenote() result
                # the other disjunct says "the key is still down": the active note of that key exists (negated is_end() of the
                # find_activenote() result) AND it sounds on this very chip channel (phys_find(c) on it) - a re-struck key has an
                # active note as well, but on another chip channel.  The disjunct may be a local flag defined that way.
                def resolve(y):
                    y = strip(y)
                    if y.get('k') == 'DeclRefExpr' and not y.get('parm'):
                        for b_, j_, st_ in g.cfg.stmts():
                            if st_['s'].get('k') == 'DeclStmt':
                                for v_ in st_['s']['decls']:
                                    if v_['id'] == y.get('id') and v_.get('init') is not None:
                                        return strip(v_['init'])
                    return y
                cpar = g.params[0]['id']
                def lookup_ok(y):
                    y = resolve(y)
                    has_found = any(isinstance(z, dict) and z.get('k') == 'UnaryOperator' and z.get('op') == '!' and short(callee_name(strip(z.get('e')))) == 'is_end' for z in walk(y))
                    on_chan = any(isinstance(z, dict) and 'callee' in z and short(callee_name(z)) == 'phys_find' and any(isinstance(w, dict) and w.get('id') == cpar for a_ in z.get('a', []) for w in walk(a_)) for z in walk(y))
                    return has_found and on_chan
                probes['keydown_by_lookup'] = any(lookup_ok(y) for y in disj if not is_none_test(y))
                a, b2 = e_.ev(arm_t, s1), e_.ev(arm_f, s2)
                probes['dec']['key-down' if keydown_true else 'pedal-held'] = a
                probes['dec']['pedal-held' if keydown_true else 'key-down'] = b2
                probes['dec_form'] = keydown_true
            if ap and strip(ap[0]).get('id') == s_id and ap[2] == '+=':
                v = e_.ev(ap[1], st)
                probes['bonus'].append((x.get('ln'), v))
            # the iterator initialisation of the user loop: score before any user is counted
            if x.get('k') == 'DeclRefExpr':
                pass
    def stmt_hook(e_, e, st):
        pass
    eng.value_hooks.append(hook)
    # returns: capture the state of s
    orig_stmt = eng.stmt
    def stmt(s, st):
        if isinstance(s, dict) and s.get('k') == 'ReturnStmt' and s.get('e') is not None:
            v = eng.ev(s['e'], st)
            gf = None
            probes.setdefault('rets', []).append((s.get('ln'), v, probes['before_loop'] is None))
        if isinstance(s, dict) and s is loop_node:
            probes['before_loop'] = st.env.get(('v', s_id))
        return orig_stmt(s, st)
    eng.stmt = stmt
    eng.run(g, record=True)
    rets = probes.get('rets', [])
    if len(rets) < 1 or probes['before_loop'] is None or len(probes['dec']) != 2:
        raise build.AnalysisBroken('C06.R1: could not locate the two returns / the user loop / the per-user decrement (%s)' % {k: (v if k != 'rets' else len(v)) for k, v in probes.items()})
    # a channel without users leaves either through a return in front of the user loop (`if(s < 0 && users.empty()) {..; return s;}`)
    # or through the loop, which does nothing for it: with the score the loop starts from
    pre = [r_[1] for r_ in rets if r_[2]]
    idle_ret = V(min(v_.lo for v_ in pre), max(v_.hi for v_ in pre)) if pre else probes['before_loop']
    s0 = probes['before_loop']      # score when the user loop starts (also the result for a channel without users whose release has ended)
    bonus = 0
    seen_ln = set()
    for ln, v in probes['bonus']:
        if ln in seen_ln:
            continue
        seen_ln.add(ln)
        bonus += max(0, v.hi)
    ped, key = probes['dec']['pedal-held'], probes['dec']['key-down']
    # a channel without users: either the early return, or (release ended, s >= 0) the unchanged s0 restricted to s >= 0
    min_idle = min(idle_ret.lo, 0 if pre else s0.lo)
    max_ped1 = s0.hi - ped.lo + bonus
    min_ped1 = s0.lo - ped.hi
    max_key1 = s0.hi - key.lo + bonus
    detail = {'idle_return': repr(idle_ret), 'score_before_users': repr(s0), 'pedal_held_decrement': repr(ped), 'key_down_decrement': repr(key), 'max_bonus_per_user': bonus}
    ok = min_idle > max_ped1
    obls.append(Obl('C06.R1', g.name, 'idle > pedal-held', g.loc, 'discharged' if ok else 'finding',
                    why='min score without users %d > max score with one pedal-held user %d' % (min_idle, max_ped1) if ok else
                    'a channel without users can score %d, a channel with a pedal-held user up to %d: a sounding note may be displaced while a channel is idle' % (min_idle, max_ped1), detail=detail))
    ok = min_idle > max_key1
    obls.append(Obl('C06.R1', g.name, 'idle > key-down', g.loc, 'discharged' if ok else 'finding',
                    why='min score without users %d > max score with one key-down user %d' % (min_idle, max_key1) if ok else
                    'a channel without users can score %d, a channel with a key-down user up to %d' % (min_idle, max_key1), detail=detail))
    ok = min_ped1 > max_key1
    obls.append(Obl('C06.R1', g.name, 'pedal-held > key-down', g.loc, 'discharged' if ok else 'finding',
                    why='min score with one pedal-held user %d > max score with one key-down user %d' % (min_ped1, max_key1) if ok else
                    'a pedal-held note (score down to %d) is not always taken before a key-down note (score up to %d)' % (min_ped1, max_key1), detail=detail))
    okl = bool(probes.get('keydown_by_lookup'))
    obls.append(Obl('C06.R1', g.name, 'the pedal-held price needs a released key', g.loc, 'discharged' if okl else 'finding',
                    why='the key-down arm is taken for sustained == None or when the active note of that key sounds on this chip channel: %s' % ' || '.join(probes.get('keydown_disjuncts', [])) if okl else
                    'the cheap pedal-held price does not depend on `the active note of this key sounds on this chip channel` (find_activenote + phys_find(c)): either a sostenuto-marked note whose key is still down is scored as released, or a released pedal-held note whose key was struck again elsewhere is scored as key-down'))
    ok = ped.lo > bonus and key.lo > bonus
    obls.append(Obl('C06.R1', g.name, 'each further user lowers the score', g.loc, 'discharged' if ok else 'finding',
                    why='per-user decrement >= %d exceeds the per-user bonus <= %d' % (min(ped.lo, key.lo), bonus) if ok else 'a user can raise the score (decrement %d, bonus %d)' % (min(ped.lo, key.lo), bonus)))
    obls.append(Obl('C06.R1', 'OPNMIDIplay::OpnChannel::addAge', 'release age never negative', g.loc, 'discharged' if proven_lo >= 0 else 'finding',
                    why='join of all stores of koff_time_until_neglible_us has lower bound %d' % proven_lo))

    # ---- R1b
    ti = facts.fn('OPNMIDIplay::TickIterators')
    aa = facts.fn('OPNMIDIplay::OpnChannel::addAge')
    sd = single_defs(ti.d)
    okc = False
    locc = ti.loc
    for b, j, st in ti.cfg.stmts():
        for x in calls_in(st['s']):
            if short(callee_name(x)) == 'addAge' and x.get('a'):
                a = strip(subst(x['a'][0], sd))
                locc = st['loc']
                if a.get('k') == 'BinaryOperator' and a['op'] == '*':
                    l, r = strip(a['l']), strip(a['r'])
                    par = ti.params[0]['id']
                    okc = (l.get('id') == par and r.get('fc') == 1e6) or (r.get('id') == par and l.get('fc') == 1e6)
    obls.append(Obl('C06.R1b', ti.name, 'addAge(s * 1e6)', locc, 'discharged' if okc else 'finding',
                    why='elapsed seconds are converted to microseconds exactly' if okc else 'the elapsed time handed to the note ageing is not s * 1e6: ages no longer follow simulated time and the score ranges above do not apply'))
    us = aa.params[0]['id']
    subs = 0
    for b, j, st in aa.cfg.stmts():
        for x in walk(st['s']):
            if x.get('k') == 'BinaryOperator' and x['op'] == '-' and strip(x['r']).get('id') == us and strip(x['l']).get('k') == 'MemberExpr' and 'until_neglible' in strip(x['l'])['n']:
                subs += 1
    obls.append(Obl('C06.R1b', aa.name, 'ages decrease by exactly the elapsed time', aa.loc, 'discharged' if subs >= 2 else 'finding',
                    why='%d age fields updated as age - us' % subs if subs >= 2 else 'ageing does not subtract the elapsed microseconds from both ages'))

    obls += r1b_audio_period(facts)

    # ---- R2 arg-max (all anchors by shape: the score is the local initialised from calculateChipChannelGoodness, the best score the
    # local it is compared with and stored into)
    non = facts.fn('OPNMIDIplay::realTime_NoteOn')
    score_ids = set()
    call_site = None
    for b, j_, st in non.cfg.stmts():
        if st['s'].get('k') == 'DeclStmt':
            for v in st['s']['decls']:
                if v.get('init') is not None and any(isinstance(y, dict) and 'callee' in y and short(callee_name(y)) == 'calculateChipChannelGoodness' for y in walk(v['init'])):
                    score_ids.add(v['id'])
                    call_site = (b, j_, st)
        ap = assign_parts(st['s'])
        if ap and strip(ap[0]).get('k') == 'DeclRefExpr' and any(isinstance(y, dict) and 'callee' in y and short(callee_name(y)) == 'calculateChipChannelGoodness' for y in walk(ap[1])):
            score_ids.add(strip(ap[0])['id'])
            call_site = (b, j_, st)
    if not score_ids or call_site is None:
        raise build.AnalysisBroken('C06.R2: the score local of the candidate loop not found')
    best = None
    for b, j_, st in non.cfg.stmts():
        for x in walk(st['s']):
            ap = assign_parts(x)
            if ap and strip(ap[0]).get('k') == 'DeclRefExpr' and any(isinstance(y, dict) and y.get('id') in score_ids for y in walk(ap[1])) and strip(ap[0])['id'] not in score_ids:
                bs_id = strip(ap[0])['id']
                gf = guard_facts(non, b, st)
                strict = any(f[0] == 'cmp' and ((f[1] in ('>', '>=') and strip(f[2]).get('id') in score_ids and strip(f[3]).get('id') == bs_id) or
                                                (f[1] in ('<', '<=') and strip(f[3]).get('id') in score_ids and strip(f[2]).get('id') == bs_id)) for f in gf)
                best = (st['loc'], strict)
    obls.append(Obl('C06.R2', non.name, 'keep the greatest score', best[0] if best else non.loc, 'discharged' if best and best[1] else 'finding',
                    why='best candidate updated only when the score is not lower than the best so far' if best and best[1] else 'best-candidate update is not guarded by a comparison score > best / score >= best'))
    # loop bound and the only skip
    loops = []
    def rec2(t):
        if isinstance(t, dict):
            if t.get('k') in ('ForStmt', 'WhileStmt') and t.get('cond') is not None and mentions(t.get('body'), lambda y: short(callee_name(y)) == 'calculateChipChannelGoodness'):
                loops.append(t)
            for k2 in ('body', 'then', 'else', 'sub'):
                v = t.get(k2)
                if isinstance(v, list):
                    for y in v:
                        rec2(y)
                elif isinstance(v, dict):
                    rec2(v)
    rec2(non.tree)
    lp = min(loops, key=lambda l: len(str(l))) if loops else None
    sd_non = single_defs(non.d)
    # the bound may be a local that holds the channel count (defined once, never written)
    okb = lp is not None and mentions(subst(lp['cond'], sd_non), member_named('m_numChannels')) and strip(lp['cond']).get('op') == '<'
    obls.append(Obl('C06.R2', non.name, 'every chip channel is a candidate', '%s:%s' % (non.file, lp.get('ln') if lp else non.d['line']), 'discharged' if okb else 'finding',
                    why='loop variable < m_numChannels' if okb else 'candidate loop does not range over all m_numChannels channels'))
    # the conditions under which a channel is scored, beyond those of the loop itself: exactly "not (second voice and the channel
    # chosen for the first voice)", in whatever spelling (early continue, nested if, merged condition)
    oks, why_s = False, 'candidate loop not found'
    if lp is not None:
        iv = strip(strip(lp['cond']).get('l'))
        while iv is not None and (iv.get('k') or '').endswith('CastExpr'):
            iv = strip(iv.get('e'))
        b, j_, st = call_site
        gf_call = guard_facts(non, b, st, loops=False)
        # conditions that cannot change between candidates (they mention neither the loop variable nor anything the loop body
        # writes) skip all candidates or none, and are not this obligation's business
        varying = {(iv or {}).get('id')}
        for x in walk(lp.get('body')):
            ap = assign_parts(x) if isinstance(x, dict) else None
            if ap and strip(ap[0]).get('k') == 'DeclRefExpr':
                varying.add(strip(ap[0])['id'])
            if isinstance(x, dict) and x.get('k') == 'DeclStmt':
                for v in x.get('decls', []):
                    varying.add(v['id'])
        def fwalk(f):
            if isinstance(f, (tuple, list)):
                for y in f:
                    yield from fwalk(y)
            elif isinstance(f, dict):
                yield from walk(f)
        def varies(f):
            return any(y.get('k') == 'DeclRefExpr' and y.get('id') in varying for y in fwalk(f))
        extra = [f for f in gf_call if varies(f)]
        def is_primary_test(lit, neg):
            # a != <array>[0]   (neg)  /  a == <array>[0]
            if lit[0] != 'cmp' or lit[1] != ('!=' if neg else '=='):
                return False
            sides = [strip(lit[2]), strip(lit[3])]
            def unc(e):
                while e is not None and (e.get('k') or '').endswith('CastExpr'):
                    e = strip(e.get('e'))
                return e
            sides = [unc(x) for x in sides]
            has_iv = any(x is not None and x.get('id') == (iv or {}).get('id') for x in sides)
            has_prim = any(x is not None and x.get('k') == 'ArraySubscriptExpr' and const_of(x.get('i')) == 0 for x in sides)
            return has_iv and has_prim
        def is_second_voice(lit, neg):
            nn = cmp_norm(lit) if lit[0] == 'cmp' else None
            return bool(nn) and nn[0] == ('!=' if neg else '==') and nn[2] == 1 and strip(nn[1]).get('k') == 'DeclRefExpr'
        # `a != taken` with `taken = second voice ? <array>[0] : <a value no channel index has>` says the same in one comparison:
        # for the first voice the test compares a channel index (counted up from 0) with a negative constant
        if len(extra) == 1 and extra[0][0] == 'cmp' and extra[0][1] == '!=':
            sides = [strip(extra[0][2]), strip(extra[0][3])]
            def unc2(e):
                while e is not None and (e.get('k') or '').endswith('CastExpr'):
                    e = strip(e.get('e'))
                return e
            for me, other in ((sides[0], sides[1]), (sides[1], sides[0])):
                o = unc2(strip(subst(other, sd_non)))
                if unc2(me) is not None and unc2(me).get('id') == (iv or {}).get('id') and o is not None and o.get('k') == 'ConditionalOperator':
                    for arm_prim, arm_none, pol in ((o['l'], o['r'], True), (o['r'], o['l'], False)):
                        cn_ = const_of(arm_none)
                        if cn_ is not None and cn_ < 0 and (iv.get('t') or {}).get('u'):
                            lits = literals(o['cnd'], not pol)
                            if len(lits) == 1:
                                extra = [('or', [[lits[0]], [('cmp', '!=', me, arm_prim)]])]
        if len(extra) == 1 and extra[0][0] == 'or' and len(extra[0][1]) == 2 and all(len(a) == 1 for a in extra[0][1]):
            l1, l2 = extra[0][1][0][0], extra[0][1][1][0]
            oks = (is_second_voice(l1, True) and is_primary_test(l2, True)) or (is_second_voice(l2, True) and is_primary_test(l1, True))
        why_s = 'a channel is scored unless it is the second voice looking at the channel of the first: %s' % ' ; '.join(fact_str(f) for f in extra) if oks else \
            'the candidate loop scores a channel only under [%s]: channels other than the primary of a two-voice note are skipped (or the primary is not)' % ' ; '.join(fact_str(f) for f in extra)
    obls.append(Obl('C06.R2', non.name, 'only the chosen primary is skipped', '%s:%s' % (non.file, lp.get('ln') if lp else non.d['line']), 'discharged' if oks else 'finding', why=why_s))

    # ---- R3
    pc = facts.fn('OPNMIDIplay::prepareChipChannelForNewNote')
    c_id = pc.params[0]['id']
    # the first thing the function does is the emptiness test (only declarations of names for existing objects may stand before it)
    first = None
    al_pc = alias_defs(pc.d)
    for b, j, st in pc.cfg.stmts():
        s_ = st['s']
        if not st.get('is_cond') and s_.get('k') == 'DeclStmt' and not any(is_incdec(y) or assign_parts(y) or ('callee' in y and short(callee_name(y)) != 'operator[]') for y in walk(s_)):
            continue
        first = (b, j, st)
        break
    early = first is not None and first[2].get('is_cond') and short(callee_name(strip(first[2]['s']))) == 'empty' and \
        mentions(subst(first[2]['s'], al_pc), lambda y: y.get('id') == c_id) and mentions(subst(first[2]['s'], al_pc), member_named('users'))
    ret_first = False
    if early:
        blk = pc.cfg.blocks[first[0]]
        t = blk['succ'][0]
        ret_first = t is not None and any(s_['s'].get('k') == 'ReturnStmt' for s_ in pc.cfg.blocks[t]['stmts'])
    obls.append(Obl('C06.R3', pc.name, 'no users => return before any mutation', pc.loc, 'discharged' if (early and ret_first) else 'finding',
                    why='first statement: if(<channel c>.users.empty()) return' if (early and ret_first) else 'a channel without users is not left untouched'))
    for b, j, st in pc.cfg.stmts():
        for x in calls_in(st['s']):
            sn = short(callee_name(x))
            if sn == 'killOrEvacuate':
                ok = strip(x['a'][0]).get('id') == c_id
                obls.append(Obl('C06.R3', pc.name, 'killOrEvacuate names channel c', st['loc'], 'discharged' if ok else 'finding', why=show(x)[:70]))
            if sn == 'killSustainingNotes':
                ok = mentions(x['a'][1], lambda y: y.get('id') == c_id)
                obls.append(Obl('C06.R3', pc.name, 'killSustainingNotes names channel c', st['loc'], 'discharged' if ok else 'finding', why=show(x)[:70]))
            if callee_name(x).endswith('OPN2::noteOff') or (sn == 'noteOff' and x.get('obj') is not None):
                ok = mentions(x['a'][0], lambda y: y.get('id') == c_id) if x.get('a') else False
                obls.append(Obl('C06.R3', pc.name, 'key-off names channel c', st['loc'], 'discharged' if ok else 'finding', why=show(x)[:70]))
    obls += r4(facts)
    return obls



def r4(facts):
    """One chip channel per single-voice note.  (a) realTime_NoteOn leaves the voice loop after the first voice when voices[0] == voices[1];
    (b) every converter that fills an OpnInstMeta mirrors voice 0 into voice 1 (`ins.op[1] = ins.op[0]`) and writes neither voice afterwards:
    a later store to one of them makes every note of the instrument take two chip channels, and with one idle channel the second voice
    displaces a sounding note."""
    out = []
    no = facts.fn('OPNMIDIplay::realTime_NoteOn')
    eq = None
    ok = False
    # a `break` of the voice loop whose guard says "element 0 and element 1 of the voice array are equal" (alone, or as one
    # alternative of a merged condition), whatever the array is called
    def voices_equal(e):
        e = strip(e)
        ops = None
        if e.get('k') == 'BinaryOperator' and e.get('op') == '==':
            ops = (strip(e['l']), strip(e['r']))
        elif e.get('k') == 'CXXOperatorCallExpr' and short(e.get('callee', '')) == 'operator==' and len(e.get('a', [])) == 2:
            ops = (strip(e['a'][0]), strip(e['a'][1]))
        if not ops or not all(o.get('k') == 'ArraySubscriptExpr' for o in ops):
            return False
        b0, b1 = strip(ops[0]['b']), strip(ops[1]['b'])
        return b0.get('k') == 'DeclRefExpr' and b0.get('id') == b1.get('id') and {const_of(ops[0]['i']), const_of(ops[1]['i'])} == {0, 1}
    def flat_(fs):
        for f in fs:
            if f[0] == 'or':
                for alt in f[1]:
                    yield from flat_(alt)
            else:
                yield f
    for node, g in no.jump_guards():
        if node.get('k') != 'BreakStmt':
            continue
        for f in flat_(facts_of_guards(g)):
            body = f[1] if f[0] == 'truth' else None
            if f[0] == 'truth' and f[2] and voices_equal(body):
                ok, eq = True, node
            if f[0] == 'cmp' and f[1] == '==' and voices_equal({'k': 'BinaryOperator', 'op': '==', 'l': f[2], 'r': f[3]}):
                ok, eq = True, node
    out.append(Obl('C06.R4', no.name, 'second voice only when the voices differ', ('%s:%s' % (no.file, eq.get('ln')) if eq else no.loc), 'discharged' if ok else 'finding',
                   why='`if(voices[0] == voices[1]) break;` in the voice loop' if ok else 'the voice loop does not stop after the first voice of a single-voice instrument'))
    n = 0
    for fn in facts.all_fns():
        if fn.tree is None or not fn.relfile().startswith('src/') or '/chips/' in fn.relfile():
            continue
        mir = []
        al = alias_defs(fn.d)       # `OpnTimbre &voice = ins.op[0]; .. ins.op[1] = voice;` is the same statement
        def obj(e):
            return show(strip(subst(strip(e), al)))
        for b, j, st in fn.cfg.stmts():
            for x in walk(st['s']):
                ap = assign_parts(x)
                if ap and obj(ap[0]).endswith('.op[1]') and obj(ap[1]).endswith('.op[0]'):
                    mir.append((b, j, st))
                # .. or the same copy as memcpy(&x.op[1], &x.op[0], sizeof(whole voice))
                if isinstance(x, dict) and short(callee_name(x) or '') in ('memcpy', 'memmove', '__builtin_memcpy') and len(x.get('a', [])) == 3:
                    d_, s_ = strip(x['a'][0]), strip(x['a'][1])
                    def addr_of(e_):
                        e_ = strip(e_)
                        while isinstance(e_, dict) and (e_.get('k') or '').endswith('CastExpr'):
                            e_ = strip(e_.get('e'))
                        return strip(e_['e']) if isinstance(e_, dict) and e_.get('k') == 'UnaryOperator' and e_.get('op') == '&' else None
                    da, sa = addr_of(d_), addr_of(s_)
                    if da is not None and sa is not None and obj(da).endswith('.op[1]') and obj(sa).endswith('.op[0]') and const_of(x['a'][2]) == ((da.get('t') or {}).get('sz')):
                        mir.append((b, j, st))
        for b, j, st in mir:
            n += 1
            late = []
            for b2, j2, st2 in fn.cfg.stmts():
                if (b2, j2) == (b, j) or not fn.cfg.stmt_before((b, j), (b2, j2)):
                    continue
                for x in walk(st2['s']):
                    ap = assign_parts(x)
                    tgt = ap[0] if ap else (x['e'] if is_incdec(x) else None)
                    if tgt is not None and ('.op[0]' in obj(tgt) or '.op[1]' in obj(tgt)):
                        late.append((st2['loc'], show(x)[:60]))
            out.append(Obl('C06.R4', fn.name, 'voices mirrored last', st['loc'], 'finding' if late else 'discharged',
                           why=('after `op[1] = op[0]` the function still writes %s: the voices of a single-voice instrument differ and each of its notes takes two chip channels' % late[0][1]) if late else
                           'no store to either voice after op[1] = op[0]'))
    if n < 1:
        raise build.AnalysisBroken('C06.R4: the voice-mirroring statement op[1] = op[0] was not found in any converter')
    return out


def r1b_audio_period(facts):
    """the audio loops render at most CAP frames per round (`(n > CAP) ? CAP : n`) and then tick the note ageing / the sequencer by
    `eat_delay`.  Ageing follows the rendered audio only if eat_delay never exceeds the time of CAP frames: eat_delay must be
    min(.., setup.maxdelay) and maxdelay must be defined as CAP / PCM_RATE."""
    out = []
    caps = set()
    n = 0
    for name in ('opn2_playFormat', 'opn2_generateFormat'):
        fn = facts.fns.get(name)
        fn = fn[0] if fn else None
        if fn is None or fn.tree is None:
            continue
        defs = collections.defaultdict(list)
        for b, j, st in fn.cfg.stmts():
            if st['s'].get('k') == 'DeclStmt':
                for v in st['s']['decls']:
                    if v.get('init') is not None:
                        defs[v['id']].append(v['init'])
            for x in walk(st['s']):
                ap = assign_parts(x)
                if ap and strip(ap[0]).get('k') == 'DeclRefExpr':
                    defs[strip(ap[0])['id']].append(ap[1])
        # frame cap of one round
        mdefs = min_defs(fn)
        for vid, ms in mdefs.items():
            for m in ms:
                for arm in m:
                    c = const_of(arm)
                    if c is not None and c >= 64:
                        caps.add(c)
        for b, j, st in fn.cfg.stmts():
            for x in calls_in(st['s']):
                if short(callee_name(x)) in ('TickIterators', 'Tick') and x.get('a'):
                    a = strip(x['a'][0])
                    n += 1
                    ms = mdefs.get(a.get('id'), []) if a.get('k') == 'DeclRefExpr' else [minlike(a)]
                    # every definition of the period is a minimum with setup.maxdelay (a definition that a clamp statement follows
                    # counts once, as that minimum)
                    nd = len([d for d in defs.get(a.get('id'), [])]) if a.get('k') == 'DeclRefExpr' else 1
                    n_clamp_stmts = sum(1 for m in ms if m and not any(minlike(d) for d in defs.get(a.get('id'), []) if show(strip(d)) == show(m[0]))) if a.get('k') == 'DeclRefExpr' else 0
                    ok = bool(ms) and all(m and any(y.get('k') == 'MemberExpr' and short(y['n']) == 'maxdelay' for arm in m for y in walk(arm)) for m in ms) and \
                        (a.get('k') != 'DeclRefExpr' or len(ms) + n_clamp_stmts >= nd)
                    out.append(Obl('C06.R1b', fn.name, '%s(%s)' % (short(callee_name(x)), show(a)[:20]), st['loc'], 'discharged' if ok else 'finding',
                                   why='the period is min(.., setup.maxdelay)' if ok else
                                   'the period handed to %s is not capped by setup.maxdelay while one round renders at most the capped block: with large requests the note ages (and the song) run ahead of the rendered audio, so pedal-held notes out-score idle channels early' % short(callee_name(x))))
    if n < 2:
        if facts.view in ('noSEQ',) and n >= 1:
            pass
        else:
            raise build.AnalysisBroken('C06.R1b: tick calls of the audio loops not found')
    # maxdelay = CAP / PCM_RATE
    nm = 0
    for fn in facts.all_fns():
        if not fn.name.startswith('OPNMIDIplay::') or fn.tree is None:
            continue
        for b, j, st in fn.cfg.stmts():
            for x in walk(st['s']):
                ap = assign_parts(x)
                if ap and strip(ap[0]).get('k') == 'MemberExpr' and short(strip(ap[0])['n']) == 'maxdelay':
                    nm += 1
                    r = strip(ap[1])
                    num = strip(r.get('l')) if r.get('k') == 'BinaryOperator' and r.get('op') == '/' else None
                    c = None
                    if num is not None:
                        c = num.get('fc') if num.get('fc') is not None else const_of(num)
                    ok = c is not None and caps and all(c <= cap for cap in caps) and any(y.get('k') == 'MemberExpr' and short(y['n']) == 'PCM_RATE' for y in walk(r.get('r')))
                    out.append(Obl('C06.R1b', fn.name, 'maxdelay = %s' % show(r)[:40], st['loc'], 'discharged' if ok else 'finding',
                                   why='the time of %s frames, the per-round render cap %s' % (c, sorted(caps)) if ok else
                                   'setup.maxdelay is not the time of the per-round render cap %s: the tick period can exceed the rendered block' % sorted(caps)))
    if nm < 1:
        raise build.AnalysisBroken('C06.R1b: definition of Setup::maxdelay not found')
    return out
