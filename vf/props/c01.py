"""C01 — untrusted music data never crashes, corrupts memory or hangs the player.

R1   bounded reads: every read through a parse cursor is covered by an availability check on every path
       SMF event parser / VLQ reader        E1  (structured byte budget, (ptr,end) dialect, cursor behind a `const uint8_t **`)
       MUS converter, XMI source helpers    E1c (CFG byte budget: goto exits, cursor and end as locals or as context fields)
       FileAndMemReader memory branch       guard rule (index < size dominates every subscript of the block)
R1b  cursor discipline: (cursor, end) pairs come from one buffer and its length; the XMI source cursor is stored only by
     clamped seeks / skips, never escapes into another pointer, and is dereferenced only where E1c sees it
R1c  destinations: the byte count of every FileAndMemReader::read fits the destination buffer
R2   overflow-safe length arithmetic: no bounds check adds an unbounded file-derived length to a pointer; XMI seek targets
     built from 32-bit chunk lengths are summed in 64 bits and the seek helpers take 64-bit arguments
R3   allocation follows availability: a size derived from a >16-bit file field is compared with what the source can still
     deliver before resize / malloc
R4   the song index is clamped from both sides (and the list is non-empty) before it subscripts the song list
R5   no assert / abort / throw on input-dependent conditions in loader and converter code
R6   loop progress: anti-freeze counter of Tick(); induction variables at least as wide as their bounds
R7   every fraction denominator built from a file field is non-zero
R8   iterator holders are emptied where the track data they point into is dropped; the loop-stack level never drops below -1
R9   fixed-extent indexes in loader / converter code are in range (interval engine E2)
R10  event payload bytes: `ev.data[k]` is reached only where the event is a channel voice message whose SMF length exceeds k, where the
     same function has just built k+1 bytes (push_back / resize / assign), or under a size test — a meta event's payload length comes
     from the file (the internal subtypes 0xE1..0xE7 can be written into a file as raw meta events)
"""
import collections, re
from ..core import *
from ..core import _exits as core_exits
from ..logic import *
from ..e1 import Engine, State, Poly
from ..e1c import Avail
from ..e2 import *
from .. import e2prog
from ..report import Obl, Rule
from .. import build
from . import c03

PROP = 'C01'
RULES = [
    Rule('C01.R1', 'every read through a parse cursor is covered by an availability check on every path', 40),
    Rule('C01.R1b', 'cursor/end pairs are set up from one buffer; the XMI source cursor only moves through clamped helpers and never escapes', 9),
    Rule('C01.R1c', 'the byte count of every FileAndMemReader::read fits its destination', 20),
    Rule('C01.R2', 'length checks and seek targets are computed without pointer or 32-bit overflow', 6),
    Rule('C01.R3', 'sizes from >16-bit file fields are compared with the remaining source before allocating', 2),
    Rule('C01.R3b', 'an allocation size computed as an unsigned difference cannot wrap: rest-of-file idiom (tell, seek to END, tell) with a reader whose seek clamps the cursor in both of its branches, or dominated by a comparison of the two operands', 3),
    Rule('C01.R3c', 'the MIDI channel table grows by one block per device name only up to a fixed number of devices', 1),
    Rule('C01.R4', 'the song index is clamped from both sides before subscripting the song list', 2),
    Rule('C01.R5', 'no assert / abort / throw on input-dependent conditions in loader and converter code', 3),
    Rule('C01.R6', 'loops make progress: anti-freeze counter in Tick, induction variables as wide as their bounds', 10),
    Rule('C01.R7', 'fraction denominators built from file fields are non-zero', 4),
    Rule('C01.R8', 'iterator holders are emptied with the track data; loop-stack level stays >= -1', 5),
    Rule('C01.R9', 'fixed-extent indexes in loader / converter code are in range', 40),
    Rule('C01.R12', 'a pointer that walks a fixed-size local byte array advances by at most the extent on every path (callees summarised; shift loops bounded)', 1),
    Rule('C01.R11', 'every %s argument of a formatted message is a NUL-terminated string', 8),
    Rule('C01.R10', 'every constant subscript of an event\'s data bytes is justified by the event type, by the statements that built the bytes, or by a size test', 35),
]
EXPLANATION = ('Byte-budget abstract interpretation of every function that walks untrusted bytes: E1 over the structured body of the SMF event parser '
               '(cursor behind a pointer-to-pointer, (ptr,end) dialect) and E1c, a must-dataflow over the CFG, for the goto-style MUS converter and for '
               'every function of the XMI converter that mentions the source cursor (budget, clamp facts n <= end-cursor / n >= base-cursor / n <= size, '
               'bound of the byte under the cursor). Companion structural rules: cursor set-up and who-may-move-the-cursor, destination sizes of reader '
               'calls, 64-bit seek arithmetic, allocation-after-availability, two-sided clamp of the song index, assert/abort/throw sites (AST in the '
               'assert-enabled view, IR reachability), anti-freeze counter and loop widths, non-zero fraction denominators (interval engine with a '
               'summary for readBEint/readLEint), reset of iterator holders when the track table is dropped, lower clamp of the loop-stack level, and '
               'E2 index obligations for the files of this property. Decides memory safety of the parsing layers and the listed progress/abort '
               'conditions for every byte string; does not decide container misuse inside libstdc++, nor time/memory proportionality beyond R3/R6.')
ASSUMPTIONS = ['`insize`/`length` readable bytes at the pointer handed to opn2_openData (API contract)',
               'malloc/new failure is outside the quantifier', 'the inner event loop of seek() terminates because looping is disabled while seeking (F11, by reading)',
               'local output buffers of the converters do not alias the input buffer']

FILES = ('src/cvt_mus2mid.hpp', 'src/cvt_xmi2mid.hpp', 'src/midi_sequencer_impl.hpp', 'src/midi_sequencer.hpp', 'src/file_reader.hpp', 'src/fraction.hpp',
         'src/opnmidi_sequencer.cpp')
PARSER_FILES = ('src/cvt_mus2mid.hpp', 'src/cvt_xmi2mid.hpp', 'src/file_reader.hpp')


def views(tier):
    return ['V0', 'V1'] if tier == 'quick' else ['V0', 'V1', 'noVGM', 'noMUS', 'noXMI']


def mem(n):
    return lambda e: e.get('k') == 'MemberExpr' and short(e['n']) == n


def local_ids(fn):
    ids = {}
    for b, j, st in fn.cfg.stmts():
        if st['s'].get('k') == 'DeclStmt':
            for v in st['s']['decls']:
                ids.setdefault(v['n'], v['id'])
    return ids


def analyse(facts, tier):
    have_seq = facts.fns.get('OpnMidiSequencer::parseEvent') or facts.fns.get('BW_MidiSequencer::parseEvent')
    if not have_seq:
        raise build.AnalysisBroken('C01: the sequencer is not part of view %s' % facts.view)
    obls = []
    obls += r1_smf(facts)
    obls += r1_mus(facts)
    obls += r1_xmi(facts)
    obls += r1_reader(facts)
    obls += r1c(facts)
    obls += r3(facts)
    obls += r3b(facts)
    obls += r3c_device_cap(facts)
    obls += r4(facts)
    obls += r5(facts)
    obls += r6(facts)
    obls += r8(facts)
    obls += r10(facts)
    obls += r11_percent_s(facts)
    obls += r12(facts)
    res = e2prog.analyse_program(facts)
    obls += r7(facts, res)
    obls += r9(facts, res)
    obls += c03_r6(facts, res)
    return obls, {'e2_functions': res['functions']}


def seqname(facts, m):
    for pre in ('OpnMidiSequencer::', 'BW_MidiSequencer::'):
        if facts.fns.get(pre + m):
            return pre + m
    return None


def seqfn(facts, m, required=True):
    n = seqname(facts, m)
    if n is None:
        if required:
            raise build.AnalysisBroken('C01: sequencer method %s not found' % m)
        return None
    return facts.fn(n)


# ------------------------------------------------------------------------------------------------ R1 SMF (E1)
def e1_obls(facts, eng, fn, entry, rule='C01.R1'):
    out = []
    seen = collections.OrderedDict()
    for o in eng.obl:
        key = (o.fn, o.ln, o.construct)
        e = seen.setdefault(key, {'ok': True, 'bad': [], 'need': set(), 'have': set()})
        e['need'].add(str(o.need)); e['have'].add(str(o.have)[:60])
        if not o.ok:
            e['ok'] = False
            e['bad'].append({'need': str(o.need), 'have': str(o.have)})
    for (f2, ln, construct), e in seen.items():
        ffile = facts.fn(f2).file if facts.fns.get(f2) else fn.file
        if e['ok']:
            out.append(Obl(rule, f2, construct, '%s:%s' % (ffile, ln), 'discharged', why='needs %s byte(s), budget %s' % ('/'.join(sorted(e['need'])), ' | '.join(sorted(e['have']))[:80]), detail={'entry': entry}))
        else:
            b = e['bad'][0]
            out.append(Obl(rule, f2, construct, '%s:%s' % (ffile, ln), 'finding', why='read through the cursor needs %s byte(s) but only %s are known to remain before `end`' % (b['need'], b['have']), detail={'entry': entry}))
    for n in sorted(set(eng.notes)):
        if 'not modelled' in n or 'reassigned' in n:
            out.append(Obl(rule, fn.name, 'unmodelled: ' + re.sub(r' at line \d+', '', n), fn.loc, 'finding', why='the byte-budget interpreter met a construct it cannot follow: ' + n))
    return out


def r1_smf(facts):
    out = []
    # parseEvent: cursor is the reference local bound to *pptr
    fn = seqfn(facts, 'parseEvent')
    cur = None
    for b, j, st in fn.cfg.stmts():
        if st['s'].get('k') == 'DeclStmt':
            for v in st['s']['decls']:
                if v.get('ref') and v['t'].get('p'):
                    cur = v['id']
    # by type: the handle is the pointer-to-pointer parameter, the end the plain byte pointer
    pp = [p for p in fn.params if p['t'].get('p') and '*' in p['t'].get('pt', '')]
    endp = [p for p in fn.params if p['t'].get('p') and '*' not in p['t'].get('pt', '') and 'char' in p['t'].get('pt', '')]
    if cur is None or not endp or not pp:
        raise build.AnalysisBroken('C01.R1: cursor reference / end parameter of parseEvent not found')
    eng = Engine(facts, 'pair')
    eng.setup(fn, cur, end_id=endp[0]['id'])
    eng.handles = {pp[0]['id']}
    eng.run_body(fn.tree, State(Poly.const(0)))
    o1 = e1_obls(facts, eng, fn, fn.name)
    if len(o1) < 8:
        raise build.AnalysisBroken('C01.R1: only %d read sites seen in parseEvent' % len(o1))
    out += o1
    # R2: overflow-prone comparisons seen by E1
    n2 = 0
    for ln, txt, _off in sorted(set(eng.overflow_prone)):
        n2 += 1
        out.append(Obl('C01.R2', fn.name, txt[:80], '%s:%s' % (fn.file, ln), 'finding',
                       why='the bounds check adds a file-derived 64-bit length to the cursor: the sum wraps and the check passes for lengths near 2^64'))
    for ln, txt in sorted(set(getattr(eng, 'safe_compares', []))):
        n2 += 1
        out.append(Obl('C01.R2', fn.name, txt[:80], '%s:%s' % (fn.file, ln), 'discharged', why='length compared with the pointer difference end - ptr'))
    # readVarLenEx: cursor is **ptr
    rv = facts.fn('readVarLenEx')
    e2_ = Engine(facts, 'pair')
    e2_.setup(rv, -99, end_id=rv.params[1]['id'])
    e2_.cursor_deref_of = rv.params[0]['id']
    e2_.run_body(rv.tree, State(Poly.const(0)))
    o2 = e1_obls(facts, e2_, rv, rv.name)
    if not o2:
        raise build.AnalysisBroken('C01.R1: no read site in readVarLenEx')
    out += o2
    # callers hand over (cursor handle, end) pairs that belong together
    n = 0
    for caller in facts.all_fns():
        if caller.relfile() not in FILES or caller.tree is None:
            continue
        for b, j, st in caller.cfg.stmts():
            for x in calls_in(st['s']):
                cn = short(callee_name(x))
                if cn not in ('parseEvent', 'readVarLenEx') or len(x.get('a', [])) < 2:
                    continue
                n += 1
                a0, a1 = strip(x['a'][0]), strip(x['a'][1])
                construct = '%s(%s, %s)' % (cn, show(a0), show(a1))
                if a0.get('k') == 'DeclRefExpr' and a0.get('parm') and a1.get('k') == 'DeclRefExpr' and a1.get('parm'):
                    out.append(Obl('C01.R1b', caller.name, construct, st['loc'], 'discharged', why='the caller passes its own (handle, end) parameters through'))
                    continue
                ok, why = pair_setup(caller, a0, a1)
                out.append(Obl('C01.R1b', caller.name, construct, st['loc'], 'discharged' if ok else 'finding', why=why))
    if n < 4:
        raise build.AnalysisBroken('C01.R1b: call sites of parseEvent/readVarLenEx not found')
    return out


def pair_setup(fn, a0, a1):
    """a0 == &cursor, a1 == end, both locals initialised as X.data() and X.data() + X.size() of the same container and never stored again"""
    if not (a0.get('k') == 'UnaryOperator' and a0.get('op') == '&' and strip(a0['e']).get('k') == 'DeclRefExpr' and a1.get('k') == 'DeclRefExpr'):
        return False, 'the (cursor, end) arguments are not a local cursor taken by address and a local end pointer'
    cid, eid = strip(a0['e'])['id'], a1['id']
    inits = {}
    for b, j, st in fn.cfg.stmts():
        s = st['s']
        if s.get('k') == 'DeclStmt':
            for v in s['decls']:
                if v['id'] in (cid, eid) and v.get('init') is not None:
                    inits[v['id']] = v['init']
        for x in walk(s):
            ap = assign_parts(x)
            if ap and strip(ap[0]).get('k') == 'DeclRefExpr' and strip(ap[0]).get('id') in (cid, eid):
                return False, 'the cursor or the end pointer is assigned after its initialisation'
            if is_incdec(x) and strip(x['e']).get('id') in (cid, eid):
                return False, 'the cursor or the end pointer is moved outside the bounded readers'
    if cid not in inits or eid not in inits:
        return False, 'cursor / end initialiser not found'
    ci, ei = strip(inits[cid]), strip(inits[eid])
    def data_of(e):
        e = strip(e)
        if e is not None and short(callee_name(e)) == 'data' and e.get('obj') is not None:
            return show(e['obj'])
        return None
    base = data_of(ci)
    ok = False
    if base and ei.get('k') == 'BinaryOperator' and ei.get('op') == '+' and data_of(ei['l']) == base:
        r = strip(ei['r'])
        if short(callee_name(r)) == 'size' and r.get('obj') is not None and show(r['obj']) == base:
            ok = True
    return ok, ('cursor = %s.data(), end = %s.data() + %s.size(); neither is stored again' % (base, base, base)) if ok else \
        'cursor and end are not initialised from the data() and data()+size() of one container (%s / %s)' % (show(ci)[:40], show(ei)[:50])


# ------------------------------------------------------------------------------------------------ R1 MUS (E1c)
def r1_mus(facts):
    out = []
    fn = facts.fn('Convert_mus2midi', required=False)
    if fn is None:
        if facts.view in ('noMUS',):
            return out
        raise build.AnalysisBroken('C01.R1: Convert_mus2midi not found')
    ids = {}
    # the pair by shape: the main loop runs `while (a < b)` over two byte-pointer locals
    for bid, blk in fn.cfg.blocks.items():
        c = blk.get('cond')
        if c is not None and blk.get('term') == 'WhileStmt':
            sc = strip(c)
            if sc.get('k') == 'BinaryOperator' and sc['op'] == '<':
                l, r = strip(sc['l']), strip(sc['r'])
                if l.get('k') == r.get('k') == 'DeclRefExpr' and (l.get('t') or {}).get('p') and (r.get('t') or {}).get('p') and not l.get('parm') and not r.get('parm'):
                    ids = {'cur': l['id'], 'end': r['id']}
    if not ids:
        raise build.AnalysisBroken('C01.R1: cursor/end locals of Convert_mus2midi not found (no `while (a < b)` over two byte pointers)')
    a = Avail(fn, lambda e: e.get('k') == 'DeclRefExpr' and e.get('id') == ids['cur'], lambda e: e.get('k') == 'DeclRefExpr' and e.get('id') == ids['end'])
    ob = a.run()
    if len(ob) < 12:
        raise build.AnalysisBroken('C01.R1: only %d read sites in Convert_mus2midi' % len(ob))
    for o in ob:
        out.append(Obl('C01.R1', fn.name, o.construct, o.loc, 'discharged' if o.ok else 'finding',
                       why=('needs %s byte(s), %s known to remain on every path' % (o.need, o.have)) if o.ok else
                       'reads %s byte(s) through the cursor but only %s are known to remain before `end` on some path' % (o.need, o.have)))
    for (ln, how) in a.escapes:
        out.append(Obl('C01.R1b', fn.name, 'cursor value ' + how, '%s:%s' % (fn.file, ln), 'finding', why='the cursor is copied into another pointer that the budget analysis does not follow'))
    # set-up of the pair from the header fields
    n = 0
    for (ln, text), (ok, why) in sorted(a.stores.items()):
        n += 1
        if ok:
            out.append(Obl('C01.R1b', fn.name, 'cursor ' + text, '%s:%s' % (fn.file, ln), 'discharged', why=why))
            continue
        okk, why2 = mus_setup(facts, fn, ids, ln)
        out.append(Obl('C01.R1b', fn.name, 'cursor ' + text, '%s:%s' % (fn.file, ln), 'discharged' if okk else 'finding', why=why2))
    if not n:
        raise build.AnalysisBroken('C01.R1b: no cursor set-up in Convert_mus2midi')
    self_ub[facts.view] = (fn.name, a.deref_ub)
    return out


self_ub = {}


def mus_setup(facts, fn, ids, ln):
    """cur = in + F1; end = cur + F2 dominated by  !(insize < F1 + F2)  with 16-bit F1, F2"""
    cur_st = end_st = None
    for b, j, st in fn.cfg.stmts():
        for x in walk(st['s']):
            ap = assign_parts(x)
            if ap and strip(ap[0]).get('k') == 'DeclRefExpr':
                if strip(ap[0])['id'] == ids['cur'] and x.get('ln') == ln:
                    cur_st = (b, j, st, strip(ap[1]))
                if strip(ap[0])['id'] == ids['end']:
                    end_st = (b, j, st, strip(ap[1]))
    if not cur_st or not end_st:
        return False, 'set-up statements of cursor and end not found'
    c, e = cur_st[3], end_st[3]
    if not (c.get('k') == 'BinaryOperator' and c['op'] == '+' and strip(c['l']).get('parm') and e.get('k') == 'BinaryOperator' and e['op'] == '+' and strip(e['l']).get('id') == ids['cur']):
        return False, 'cursor is not `input + offset` or end is not `cursor + length`'
    f1, f2 = strip(c['r']), strip(e['r'])
    if (f1.get('t') or {}).get('w', 64) > 16 or (f2.get('t') or {}).get('w', 64) > 16:
        return False, 'offset / length fields wider than 16 bits: their sum can wrap'
    if cur_st[0] != end_st[0]:
        return False, 'cursor and end are set in different blocks'
    gf = guard_facts(fn, cur_st[0], cur_st[2])
    t1, t2 = show(f1), show(f2)
    szp = [p for p in fn.params if not p['t'].get('p') and p['t'].get('u') and p['t'].get('w') == 32]
    for f in gf:
        if f[0] != 'cmp':
            continue
        _, op, l, r = f
        for (o, a, b) in ((op, l, r), ({'<': '>', '>': '<', '<=': '>=', '>=': '<='}.get(op, op), r, l)):
            sa = strip(a)
            if o == '>=' and sa.get('k') == 'DeclRefExpr' and sa.get('parm') and szp and sa.get('id') == szp[0]['id']:
                sb = strip(b)
                if sb.get('k') == 'BinaryOperator' and sb['op'] == '+' and {show(strip(sb['l'])), show(strip(sb['r']))} == {t1, t2}:
                    return True, 'dominated by %s >= %s + %s (16-bit fields, no wrap)' % (show(sa), t1, t2)
    return False, 'no dominating check that the input size covers %s + %s' % (t1, t2)


# ------------------------------------------------------------------------------------------------ R1 XMI (E1c)
def r1_xmi(facts):
    out = []
    fns = [f for f in facts.all_fns() if f.relfile() == 'src/cvt_xmi2mid.hpp' and f.tree is not None]
    if not fns:
        if facts.view in ('noXMI',):
            return out
        raise build.AnalysisBroken('C01.R1: XMI converter not found')
    n_read = n_store = 0
    for fn in fns:
        if not any(mem('src_ptr')(x) for b, ex, loc in fn.cfg.exprs() for x in walk(ex)):
            continue
        a = Avail(fn, mem('src_ptr'), mem('src_end'), mem('src'), mem('srcsize'))
        ob = a.run()
        for o in ob:
            n_read += 1
            out.append(Obl('C01.R1', fn.name, o.construct, o.loc, 'discharged' if o.ok else 'finding',
                           why=('needs %s byte(s), %s known to remain on every path' % (o.need, o.have)) if o.ok else
                           'reads %s byte(s) from the XMI source but only %s are known to remain before src_end on some path (%s)' % (o.need, o.have, o.have)))
        for (ln, how) in a.escapes:
            out.append(Obl('C01.R1b', fn.name, 'src_ptr ' + how, '%s:%s' % (fn.file, ln), 'finding', why='the source cursor is copied into another pointer: reads through it bypass the bounded helpers'))
        for (ln, text), (ok, why) in sorted(a.stores.items()):
            n_store += 1
            if not ok and text.startswith('= ') and xmi_init(fn, ln):
                ok, why = True, 'context set-up: src = src_ptr = in, src_end = src + insize, srcsize = insize'
            out.append(Obl('C01.R1b', fn.name, 'src_ptr ' + text, '%s:%s' % (fn.file, ln), 'discharged' if ok else 'finding',
                           why=why if ok else 'the XMI source cursor can leave [src, src_end]: ' + why))
    if n_read < 10 or n_store < 3:
        raise build.AnalysisBroken('C01.R1: XMI source helpers not recognised (%d reads, %d cursor stores)' % (n_read, n_store))
    # R2: seek arithmetic
    n2 = 0
    for name in ('xmi2mid_seeksrc', 'xmi2mid_skipsrc'):
        h = facts.fn(name)
        p = h.params[1]
        n2 += 1
        ok = p['t'].get('w') == 64
        out.append(Obl('C01.R2', name, 'parameter ' + p['n'], h.loc, 'discharged' if ok else 'finding',
                       why='64-bit position argument' if ok else 'a %s-bit position argument truncates or sign-flips a 32-bit chunk length: backwards seeks loop forever' % p['t'].get('w')))
    for fn in fns:
        for b, j, st in fn.cfg.stmts():
            for x in calls_in(st['s']):
                if callee_name(x) in ('xmi2mid_seeksrc', 'xmi2mid_skipsrc') and len(x.get('a', [])) == 2:
                    arg = x['a'][1]
                    adds = [y for y in walk(arg) if y.get('k') == 'BinaryOperator' and y['op'] in ('+', '*', '<<') and const_of(y) is None]
                    if not adds:
                        continue
                    n2 += 1
                    narrow = [y for y in adds if (y.get('t') or {}).get('w', 64) < 64]
                    out.append(Obl('C01.R2', fn.name, '%s(%s)' % (callee_name(x), show(arg)[:60]), st['loc'], 'finding' if narrow else 'discharged',
                                   why=('the target is computed in %d-bit arithmetic from a 32-bit chunk length: it wraps to an earlier position and the chunk loop never ends' % narrow[0]['t']['w']) if narrow else 'target summed in 64 bits, clamped by the helper'))
    if n2 < 6:
        raise build.AnalysisBroken('C01.R2: XMI seek sites not found')
    return out


def xmi_init(fn, ln):
    txt = {}
    for b, j, st in fn.cfg.stmts():
        for x in walk(st['s']):
            ap = assign_parts(x)
            if ap and strip(ap[0]).get('k') == 'MemberExpr':
                txt[short(strip(ap[0])['n'])] = strip(ap[1])
    sp, src, se, sz = txt.get('src_ptr'), txt.get('src'), txt.get('src_end'), txt.get('srcsize')
    if sp is None or src is None or se is None or sz is None:
        return False
    # src = (src_ptr = in)
    inner = strip(assign_parts(src)[1]) if assign_parts(src) else src
    if not (sp.get('parm') and inner.get('parm') and inner.get('id') == sp.get('id')):
        return False
    if not (sz.get('parm') and se.get('k') == 'BinaryOperator' and se['op'] == '+' and mem('src')(strip(se['l'])) and strip(se['r']).get('id') == sz.get('id')):
        return False
    return True


# ------------------------------------------------------------------------------------------------ R1 memory reader
def r1_reader(facts):
    out = []
    n = 0
    for fn in facts.all_fns():
        if fn.relfile() != 'src/file_reader.hpp' or fn.tree is None:
            continue
        for b, j, st in fn.cfg.stmts():
            for x in walk(st['s']):
                if x.get('k') == 'ArraySubscriptExpr' and mentions(x['b'], mem('m_mp')):
                    n += 1
                    idx = strip(x['i'])
                    gf = guard_facts(fn, b, st)
                    ok = False
                    for f in gf:
                        if f[0] == 'cmp':
                            _, op, l, r = f
                            for (o, a, bb) in ((op, l, r), ({'<': '>', '>': '<', '<=': '>=', '>=': '<='}.get(op, op), r, l)):
                                if o == '<' and show(strip(a)) == show(idx) and mem('m_mp_size')(strip(bb)):
                                    ok = True
                    # the index must not move between the guard and the read: same block or no store to it in between
                    out.append(Obl('C01.R1', fn.name, show(x)[:70], st['loc'], 'discharged' if ok else 'finding',
                                   why='dominated by %s < m_mp_size' % show(idx) if ok else 'the memory block is subscripted with %s without a dominating test against m_mp_size' % show(idx)))
        # seek clamps the position
    if n < 2:
        raise build.AnalysisBroken('C01.R1: subscripts of FileAndMemReader::m_mp not found')
    return out


# ------------------------------------------------------------------------------------------------ R1c destinations
def r1c(facts):
    out = []
    n = 0
    for fn in facts.all_fns():
        if fn.relfile() not in FILES + ('src/opnmidi_load.cpp',) or fn.tree is None:
            continue
        sd = single_defs(fn.d)
        stmts = list(fn.cfg.stmts())
        for b, j, st in stmts:
            for x in calls_in(st['s']):
                if callee_name(x) != 'FileAndMemReader::read' or len(x.get('a', [])) != 3:
                    continue
                n += 1
                dst, esz, cnt = x['a']
                d = strip(dst)
                construct = 'read(%s, %s, %s)' % (show(dst)[:30], show(esz), show(cnt))
                ce = const_of(subst(esz, sd))
                cc = const_of(subst(cnt, sd))
                t = d.get('t') or {}
                if 'arr' in t and ce is not None and cc is not None:
                    cap = t['sz']
                    ok = ce * cc <= cap
                    out.append(Obl('C01.R1c', fn.name, construct, st['loc'], 'discharged' if ok else 'finding',
                                   why='%d byte(s) into %s' % (ce * cc, t.get('s')) if ok else 'reads %d bytes into %s' % (ce * cc, t.get('s'))))
                    continue
                # heap / vector destination: allocated with the same count expression earlier in the function
                ok, why = False, 'destination capacity unknown'
                ctext = show(strip(cnt))
                if ce == 1:
                    for b2, j2, st2 in stmts:
                        if not fn.cfg.stmt_before((b2, j2), (b, j)):
                            continue
                        for y in walk(st2['s']):
                            # V.resize(count) where dst is &V[0] / V.data()
                            if short(callee_name(y)) == 'resize' and y.get('obj') is not None and y.get('a') and show(strip(y['a'][0])) == ctext and show(y['obj']) in show(dst):
                                if fn.cfg.block_dominates(b2, b):
                                    ok, why = True, 'destination %s resized to %s before the read' % (show(y['obj']), ctext)
                            # p = malloc(count [+ k])
                            if short(callee_name(y)) in ('malloc',) and y.get('a'):
                                m = strip(y['a'][0])
                                same = show(m) == ctext or (m.get('k') == 'BinaryOperator' and m['op'] == '+' and show(strip(m['l'])) == ctext and (const_of(m['r']) or 0) >= 0)
                                if same and fn.cfg.block_dominates(b2, b) and holds_result(st2['s'], y, d):
                                    ok, why = True, 'destination allocated with %s byte(s)' % show(m)
                out.append(Obl('C01.R1c', fn.name, construct, st['loc'], 'discharged' if ok else 'finding', why=why if ok else 'reader writes %s byte(s) into a buffer whose size is not established by a dominating allocation of that size' % ctext))
    if n < 20:
        raise build.AnalysisBroken('C01.R1c: only %d FileAndMemReader::read call sites' % n)
    return out


def holds_result(stmt, call, dst):
    """stmt declares/assigns the variable `dst` from `call`"""
    if dst.get('k') != 'DeclRefExpr':
        return False
    if stmt.get('k') == 'DeclStmt':
        return any(v['id'] == dst.get('id') and any(y is call for y in walk(v.get('init'))) for v in stmt['decls'])
    for x in walk(stmt):
        ap = assign_parts(x)
        if ap and strip(ap[0]).get('id') == dst.get('id') and any(y is call for y in walk(ap[1])):
            return True
    return False


# ------------------------------------------------------------------------------------------------ R3 allocation follows availability
WIDE_READERS = {'readBEint': 1, 'readLEint': 1}


def r3(facts):
    out = []
    n = 0
    for fn in facts.all_fns():
        if fn.relfile() not in FILES or fn.tree is None:
            continue
        sd_all = last_defs(fn)
        for b, j, st in fn.cfg.stmts():
            for x in walk(st['s']):
                cn = short(callee_name(x)) if ('callee' in x) else None
                size = None
                if cn in ('resize', 'reserve') and x.get('a') and x.get('obj') is not None:
                    size = x['a'][0]
                elif cn in ('malloc',) and x.get('a'):
                    size = x['a'][0]
                elif cn == 'calloc' and len(x.get('a', [])) == 2:
                    size = x['a'][0]
                if size is None or const_of(size) is not None:
                    continue
                src, wide = size_source(fn, size, sd_all)
                if not wide:
                    continue
                n += 1
                construct = '%s(%s)' % (cn, show(size)[:50])
                gf = guard_facts(fn, b, st) + guard_facts(fn, b, st, sd=single_defs(fn.d))      # `const size_t bytesLeft = fileSize() - tell();` reads as the difference
                txt = ' ; '.join(fact_str(f) for f in gf)
                names = [show(y) for y in walk(size) if y.get('k') in ('DeclRefExpr', 'MemberExpr') and not callee_name(y)]
                ok = False
                for f in gf:
                    if f[0] != 'cmp':
                        continue
                    fs = fact_str(f)
                    if not any(nm in fs for nm in names):
                        continue
                    if ('fileSize' in fs and 'tell' in fs) or ('src_end' in fs and 'src_ptr' in fs):
                        _, op, l, r = f
                        # size <= remaining
                        for (o, a, bb) in ((op, l, r), ({'<': '>', '>': '<', '<=': '>=', '>=': '<='}.get(op, op), r, l)):
                            if o in ('<=', '<') and any(nm in show(a) for nm in names) and ('tell' in show(bb) or 'src_ptr' in show(bb)):
                                ok = True
                if not ok:
                    ok = clamped_to_remaining(fn, b, st, size)
                out.append(Obl('C01.R3', fn.name, construct, st['loc'], 'discharged' if ok else 'finding',
                               why=('size from %s; dominated by a comparison with the bytes the source can still deliver' % src) if ok else
                               'allocation sized by %s (up to 2^32) with no preceding comparison against the remaining source: a few input bytes allocate gigabytes' % src))
    if n < (1 if facts.view in ('noXMI',) else 2):
        raise build.AnalysisBroken('C01.R3: no allocation sized by a wide file field found (expected the MTrk length and the XMI message length)')
    return out


_seek_clamp_cache = {}


def seek_clamps(facts):
    """(ok, why, loc): FileAndMemReader::seek leaves the cursor at or before the end of the data in both of its branches.
    FILE branch: the caller's fseek is followed by `T = ftell; fseek(0, SEEK_END)`, and the only seek after that goes back to T under
    `T < ftell()`.  Memory branch: a store m_mp_tell = m_mp_size under m_mp_tell > m_mp_size follows the switch."""
    if facts.view in _seek_clamp_cache:
        return _seek_clamp_cache[facts.view]
    fn = None
    for g in facts.all_fns():
        if g.name.endswith('FileAndMemReader::seek') and g.tree is not None:
            fn = g
    if fn is None:
        raise build.AnalysisBroken('C01.R3b: FileAndMemReader::seek not found')
    pids = {p_['id'] for p_ in fn.params}
    fseeks = [(b, j, st, x) for b, j, st in fn.cfg.stmts() for x in calls_in(st['s']) if short(callee_name(x)) == 'fseek' and len(x.get('a', [])) == 3]
    user = [c for c in fseeks if strip(c[3]['a'][1]).get('id') in pids]
    to_end = [c for c in fseeks if const_of(c[3]['a'][1]) == 0 and const_of(c[3]['a'][2]) == 2]
    ok, why = True, ''
    if not user:
        raise build.AnalysisBroken('C01.R3b: the fseek of FileAndMemReader::seek not found')
    if not to_end or not all(fn.cfg.stmt_before((u[0], u[1]), (e[0], e[1])) for u in user for e in to_end):
        ok, why = False, 'the FILE branch does not look at the end of the file after the caller\'s fseek: fseek accepts a position behind the end and ftell reports it'
    else:
        e0 = to_end[0]
        later = [c for c in fseeks if c not in user and c not in to_end]
        for c in later:
            tgt = strip(c[3]['a'][1])
            gf = guard_facts(fn, c[0], c[2])
            is_saved = tgt.get('k') == 'DeclRefExpr' and any(st2['s'].get('k') == 'DeclStmt' and any(v['id'] == tgt.get('id') and v.get('init') is not None and short(callee_name(strip(v['init']))) == 'ftell'
                                                                                                      for v in st2['s']['decls']) for b2, j2, st2 in fn.cfg.stmts())
            lt = any(f[0] == 'cmp' and ((f[1] == '<' and strip(f[2]).get('id') == tgt.get('id') and short(callee_name(strip(f[3]))) == 'ftell') or
                                        (f[1] == '>' and strip(f[3]).get('id') == tgt.get('id') and short(callee_name(strip(f[2]))) == 'ftell')) for f in gf)
            if not (is_saved and lt and fn.cfg.stmt_before((e0[0], e0[1]), (c[0], c[1]))):
                ok, why = False, 'after looking at the end of the file the FILE branch seeks to %s without the test `target < size`' % show(tgt)
    mem_ok = False
    for b, j, st in fn.cfg.stmts():
        for x in walk(st['s']):
            ap = assign_parts(x)
            if ap and mem('m_mp_tell')(strip(ap[0])) and mem('m_mp_size')(strip(ap[1])):
                gf = guard_facts(fn, b, st)
                if any(f[0] == 'cmp' and f[1] in ('>', '>=') and mem('m_mp_tell')(strip(f[2])) and mem('m_mp_size')(strip(f[3])) for f in gf):
                    mem_ok = True
    if ok and not mem_ok:
        ok, why = False, 'the memory branch does not clamp m_mp_tell to m_mp_size'
    res = (ok, why or 'both branches leave the cursor at or before the end of the data', fn.loc)
    _seek_clamp_cache[facts.view] = res
    return res


def r3b(facts):
    """allocation sizes that are unsigned differences A - B: the difference must not wrap.  Accepted: A = tell() taken after a seek to END
    in the same block and B a local whose only definition is an earlier tell() of that block (seek clamps the cursor to the file size);
    or a dominating comparison B <= A / A >= B (or the early-exit form).  Sites whose operands are not derived from the file inside the
    function (the converter's own dstsize - dstrem accounting) are outside this rule."""
    out = []
    n = 0
    clamp_ok, clamp_why, clamp_loc = seek_clamps(facts)
    out.append(Obl('C01.R3b', 'FileAndMemReader::seek', 'the cursor never stays behind the end of the data', clamp_loc, 'discharged' if clamp_ok else 'finding', why=clamp_why))
    def is_tell(e):
        e = strip(e)
        return e is not None and 'callee' in e and short(callee_name(e)) == 'tell'
    for fn in facts.all_fns():
        if fn.relfile() not in FILES or fn.tree is None:
            continue
        defs = last_defs(fn)
        for b, j, st in fn.cfg.stmts():
            for x in walk(st['s']):
                cn = short(callee_name(x)) if ('callee' in x) else None
                size = None
                if cn in ('resize', 'reserve') and x.get('a') and x.get('obj') is not None:
                    size = x['a'][0]
                elif cn in ('malloc', 'calloc') and x.get('a'):
                    size = x['a'][0]
                if size is None or const_of(size) is not None:
                    continue
                # the subtraction that defines the size (directly, or through locals, two levels)
                subs = []
                def collect(e, depth):
                    for y in walk(e):
                        if y.get('k') == 'BinaryOperator' and y.get('op') == '-' and const_of(y.get('r')) is None and const_of(y.get('l')) is None \
                                and not (y.get('t') or {}).get('ptr') and not ((strip(y['l']).get('t') or {}).get('ptr')):
                            subs.append(y)
                        if depth < 2 and y.get('k') == 'DeclRefExpr' and not y.get('parm') and y.get('id') in defs:
                            for rhs in defs[y['id']]:
                                if rhs is not e:
                                    collect(rhs, depth + 1)
                collect(size, 0)
                for sub in subs:
                    l, r = strip(sub['l']), strip(sub['r'])
                    ok = None
                    idiom_broken = None
                    if is_tell(l) and r.get('k') == 'DeclRefExpr' and r.get('id') in defs and all(is_tell(d) for d in defs[r['id']]):
                        # rest-of-file idiom: B = tell(); seek(0, END); A = tell() in one block, B defined before the seek
                        blk = fn.cfg.blocks[b]['stmts']
                        seen_def = seen_end = False
                        bad = False
                        for s2 in blk:
                            for z in walk(s2['s']):
                                if z is sub:
                                    break
                            if s2['s'].get('k') == 'DeclStmt' and any(v['id'] == r['id'] for v in s2['s']['decls']):
                                seen_def = True
                            ap = assign_parts(s2['s'])
                            if ap and strip(ap[0]).get('id') == r['id']:
                                seen_def = True
                            for z in walk(s2['s']):
                                if 'callee' in z and short(callee_name(z)) in ('seek', 'seeku'):
                                    a = z.get('a', [])
                                    is_end = len(a) == 2 and const_of(a[0]) == 0 and 'END' in show(a[1])
                                    if seen_def and not seen_end and is_end:
                                        seen_end = True
                                    elif seen_def and not any(w is sub for w in walk(s2['s'])) and not seen_end:
                                        bad = True
                            if any(w is sub for w in walk(s2['s'])):
                                break
                        if seen_def and seen_end and not bad and clamp_ok:
                            ok = 'rest-of-file idiom: %s = tell(); seek(0, END); tell() - %s (every seek clamps the cursor to the size)' % (show(r), show(r))
                        elif seen_def and seen_end and not bad:
                            idiom_broken = 'the rest-of-file length tell() - %s wraps around when %s lies behind the end of the file: %s' % (show(r), show(r), clamp_why)
                    if ok is None and 'callee' in l and short(callee_name(l)) == 'fileSize' and r.get('k') == 'DeclRefExpr' and r.get('id') in defs and \
                            all(is_tell(d) for d in defs[r['id']]):
                        # fileSize() - <earlier tell()>: the reader clamps its cursor to the file size (C01.R1 reader guard)
                        if clamp_ok:
                            ok = 'fileSize() minus an earlier tell(): the cursor never exceeds the file size'
                        else:
                            idiom_broken = 'fileSize() - %s wraps around when the cursor lies behind the end of the file: %s' % (show(r), clamp_why)
                    if ok is None:
                        # find the statement holding the subtraction to take its guard facts
                        for b2, j2, st2 in fn.cfg.stmts():
                            if any(w is sub for w in walk(st2['s'])):
                                for f in guard_facts(fn, b2, st2):
                                    if f[0] != 'cmp':
                                        continue
                                    _, op, fl, fr_ = f
                                    sl, sr = show(strip(fl)), show(strip(fr_))
                                    if (op in ('<=', '<') and sl == show(r) and sr == show(l)) or (op in ('>=', '>') and sl == show(l) and sr == show(r)):
                                        ok = 'dominated by %s' % fact_str(f)
                                break
                    if ok is None:
                        # outside the rule unless an operand comes from the file inside this function
                        def from_file(e, depth=0):
                            for y in walk(e):
                                c2 = short(callee_name(y)) if 'callee' in y else None
                                if c2 in WIDE_READERS or c2 in ('xmi2mid_read4', 'xmi2mid_read4le', 'xmi2mid_read2', 'read', 'fileSize', 'tell') or y.get('k') == 'vlq':
                                    return True
                                if depth < 3 and y.get('k') == 'DeclRefExpr' and not y.get('parm') and y.get('id') in defs:
                                    if any(from_file(d, depth + 1) for d in defs[y['id']] if d is not e):
                                        return True
                            return False
                        if not (from_file(l) or from_file(r)):
                            continue
                    n += 1
                    out.append(Obl('C01.R3b', fn.name, '%s(%s) <- %s' % (cn, show(size)[:30], show(sub)[:50]), st['loc'], 'discharged' if ok else 'finding',
                                   why=ok or idiom_broken or 'the size is the unsigned difference %s of file-derived values with no comparison of the operands before it: when %s exceeds %s the '
                                   'difference wraps to ~2^64 and the allocation throws length_error/bad_alloc through the C API' % (show(sub)[:60], show(r)[:30], show(l)[:30])))
    if n < 2 and facts.view not in ('noSEQ',):
        raise build.AnalysisBroken('C01.R3b: fewer than 2 difference-sized allocations found (expected the rest-of-file sizes of the CMF/IMF/RSXX loaders)')
    return out


def r3c_device_cap(facts):
    """FF 09 (device switch) events name a MIDI port; every new name gets its own block of 16 channel records (tens of KB each).  A
    file can introduce a new name with half a dozen bytes, so the growth is bounded only if chooseDevice() stops creating blocks at
    a fixed number of devices: the resize of m_midiChannels is dominated by a comparison of m_midiDevices.size() with a constant."""
    out = []
    fn = facts.fns.get('OPNMIDIplay::chooseDevice')
    if not fn:
        raise build.AnalysisBroken('C01.R3c: OPNMIDIplay::chooseDevice not found')
    fn = fn[0]
    n = 0
    for b, j, st in fn.cfg.stmts():
        for x in walk(st['s']):
            if 'callee' in x and short(callee_name(x)) == 'resize' and x.get('obj') is not None and mentions(x['obj'], mem('m_midiChannels')):
                n += 1
                cap = None
                for f in guard_facts(fn, b, st):
                    nn = cmp_norm(f) if f[0] == 'cmp' else None
                    if nn and nn[0] in ('<', '<=') and isinstance(nn[2], int) and nn[2] <= 256 and \
                            any(isinstance(y, dict) and 'callee' in y and short(callee_name(y)) == 'size' and y.get('obj') is not None and mentions(y['obj'], mem('m_midiDevices')) for y in walk(nn[1])):
                        cap = nn[2]
                out.append(Obl('C01.R3c', fn.name, 'm_midiChannels.resize(n + 16)', st['loc'], 'discharged' if cap is not None else 'finding',
                               why='only while m_midiDevices.size() < %s' % cap if cap is not None else
                               'every distinct device name of the song adds 16 channel records without limit: a file of a few KB makes the player allocate gigabytes (and std::bad_alloc leaves the C API)'))
    if n < 1:
        raise build.AnalysisBroken('C01.R3c: resize of m_midiChannels in chooseDevice not found')
    return out


def clamped_to_remaining(fn, b, st, size):
    """`if (S > remaining) S = remaining;` on every path before the use, S the size operand, remaining = end - cursor or fileSize - tell"""
    names = {show(y) for y in walk(size) if y.get('k') in ('DeclRefExpr', 'MemberExpr')}
    for b2, blk in fn.cfg.blocks.items():
        if 'cond' not in blk or blk.get('term') != 'IfStmt' or not fn.cfg.block_dominates(b2, b) or b2 == b:
            continue
        for f in literals(blk['cond'], True):
            if f[0] != 'cmp' or f[1] not in ('>', '>='):
                continue
            lhs, rhs = show(strip(f[2])), show(f[3])
            if lhs in names and (('src_end' in rhs and 'src_ptr' in rhs) or ('fileSize' in rhs and 'tell' in rhs)):
                tb = fn.cfg.blocks[blk['succ'][0]]
                for s2 in tb['stmts']:
                    ap = assign_parts(s2['s'])
                    if ap and show(strip(ap[0])) == lhs and show(ap[1]) == rhs and len(tb['succ']) == 1:
                        return True
    return False


def last_defs(fn):
    """variable id / member text -> list of assigned right-hand sides in the function"""
    d = collections.defaultdict(list)
    for b, j, st in fn.cfg.stmts():
        s = st['s']
        if s.get('k') == 'DeclStmt':
            for v in s['decls']:
                if v.get('init') is not None:
                    d[v['id']].append(v['init'])
        for x in walk(s):
            ap = assign_parts(x)
            if ap:
                t = strip(ap[0])
                if t.get('k') == 'DeclRefExpr':
                    d[t['id']].append(ap[1])
                elif t.get('k') == 'MemberExpr':
                    d[show(t)].append(ap[1])
            # out-parameters of the XMI VLQ readers
            if callee_name(x) in ('xmi2mid_GetVLQ', 'xmi2mid_GetVLQ2') and len(x.get('a', [])) == 2:
                a = strip(x['a'][1])
                if a.get('k') == 'UnaryOperator' and a.get('op') == '&':
                    t = strip(a['e'])
                    d[t['id'] if t.get('k') == 'DeclRefExpr' else show(t)].append({'k': 'vlq', 'ln': x.get('ln')})
    return d


def size_source(fn, size, defs, depth=0):
    """(description, wide?) — wide when the value comes from a file field of more than 16 bits"""
    for y in walk(size):
        cn = short(callee_name(y)) if 'callee' in y else None
        if cn in WIDE_READERS and len(y.get('a', [])) >= 2:
            nb = const_of(y['a'][1])
            if nb is None or nb > 2:
                return '%s(.., %s)' % (cn, nb), True
        if cn in ('xmi2mid_read4', 'xmi2mid_read4le'):
            return cn, True
        if y.get('k') == 'vlq':
            return 'a variable-length quantity', True
    if depth >= 3:
        return None, False
    for y in walk(size):
        key = None
        if y.get('k') == 'DeclRefExpr' and not y.get('parm'):
            key = y.get('id')
        elif y.get('k') == 'MemberExpr':
            key = show(y)
        if key is not None and key in defs:
            for rhs in defs[key]:
                if rhs is size:
                    continue
                s, w = size_source(fn, rhs, defs, depth + 1)
                if w:
                    return s, True
    return None, False


# ------------------------------------------------------------------------------------------------ R4 song index
def r4(facts):
    out = []
    n = 0
    for fn in facts.all_fns():
        if fn.relfile() not in FILES or fn.tree is None:
            continue
        seen = set()
        for b, j, st in fn.cfg.stmts():
            for x in walk(st['s']):
                if short(callee_name(x)) == 'operator[]' and x.get('a') and mem('m_rawSongsData')(strip(x['a'][0])):
                    idx = strip(x['a'][1])
                    if const_of(idx) is not None or (st['loc'], show(idx)) in seen:
                        continue
                    seen.add((st['loc'], show(idx)))
                    n += 1
                    ok, why = clamp_both(fn, b, j, st, idx)
                    out.append(Obl('C01.R4', fn.name, 'm_rawSongsData[%s]' % show(idx), st['loc'], 'discharged' if ok else 'finding', why=why))
    if n < 2 and facts.view not in ('noXMI',):
        raise build.AnalysisBroken('C01.R4: subscripts of m_rawSongsData not found')
    return out


def clamp_both(fn, b, j, st, idx):
    """both clamps `if (i >= (int)C.size()) i = C.size() - 1;` and `if (i < 0) i = 0;` dominate the use, C is non-empty and is (copied into) the song list"""
    it = show(idx)
    lower = upper = nonempty = False
    cont = None
    ifs = []
    def rec(t):
        if isinstance(t, dict):
            if t.get('k') == 'IfStmt':
                ifs.append(t)
            for k2 in ('body', 'then', 'else', 'sub', 'init'):
                v = t.get(k2)
                if isinstance(v, (dict, list)):
                    rec(v)
        elif isinstance(t, list):
            for y in t:
                rec(y)
    rec(fn.tree)
    use_ln = int(st['loc'].rsplit(':', 1)[1])
    for t in ifs:
        if (t.get('ln') or 0) >= use_ln or t.get('else') is not None:
            continue
        c = strip(t['cond'])
        th = t.get('then')
        th = th['body'][0] if isinstance(th, dict) and th.get('k') == 'CompoundStmt' and len(th.get('body', [])) == 1 else th
        ap = assign_parts(th) if isinstance(th, dict) else None
        if not ap or show(strip(ap[0])) != it or c.get('k') != 'BinaryOperator':
            continue
        if not block_of_line_dominates(fn, t.get('ln'), b):
            continue
        if c['op'] == '<' and show(strip(c['l'])) == it and const_of(c['r']) == 0 and const_of(ap[1]) == 0:
            lower = True
        if c['op'] in ('>=', '>') and show(strip(c['l'])) == it:
            r = strip(c['r'])
            if short(callee_name(r)) == 'size' and r.get('obj') is not None:
                v = strip(ap[1])
                if v.get('k') == 'BinaryOperator' and v['op'] == '-' and const_of(v['r']) == 1 and show(strip(v['l'])) == show(r):
                    upper = True
                    cont = show(r['obj'])
    if not lower:
        return False, 'index %s is not clamped from below: the API documents -1 as a legal song number' % it
    if not upper:
        return False, 'index %s is not clamped against the number of songs' % it
    gf = guard_facts(fn, b, st)
    for f in gf:
        s = fact_str(f)
        if cont and ('!%s.empty()' % cont) in s.replace(' ', ''):
            nonempty = True
    if not nonempty:
        return False, 'the song list %s may be empty when it is subscripted' % cont
    if 'm_rawSongsData' not in cont:
        # the clamped container must be copied into the song list before the use
        copied = False
        for b2, j2, st2 in fn.cfg.stmts():
            for y in calls_in(st2['s']):
                if short(callee_name(y)) == 'push_back' and y.get('obj') is not None and mem('m_rawSongsData')(strip(y['obj'])) and cont in show(y['a'][0]):
                    lp = fn.enclosing(st2) if hasattr(fn, 'enclosing') else None
                    copied = True
        if not copied:
            return False, 'the index is clamped against %s, which is not the subscripted song list' % cont
    return True, 'clamped to [0, %s.size()-1], %s non-empty' % (cont, cont)


def block_of_line_dominates(fn, ln, b):
    for i, blk in fn.cfg.blocks.items():
        if blk.get('cloc', '').endswith(':%s' % ln) and blk.get('term') == 'IfStmt':
            # the if statement as a whole is passed on every path to b when its block dominates b
            return fn.cfg.block_dominates(i, b)
    return False


# ------------------------------------------------------------------------------------------------ R5 asserts / aborts / throws
def r5(facts):
    out = []
    n = 0
    # (a) asserts (only present in the assert-enabled view)
    for fn in facts.all_fns():
        if fn.relfile() not in FILES or fn.tree is None:
            continue
        for b, ex, loc in fn.cfg.exprs():
            for x in walk(ex):
                if x.get('k') == 'ConditionalOperator' and any(callee_name(y) == '__assert_fail' for y in walk(x.get('r'))):
                    n += 1
                    c = x['cnd']
                    parser = fn.relfile() in PARSER_FILES or re.search(r'::(parse\w+|build\w+|load\w+|detect\w+)$', fn.name) or fn.name in ('readVarLenEx', 'readBEint', 'readLEint')
                    ptr_only = all((strip(l[1] if l[0] == 'truth' else l[2]).get('t') or {}).get('p') for l in flat(literals(c, True)) if l[0] in ('truth',)) and \
                        all(l[0] == 'truth' for l in flat(literals(c, True)))
                    if ptr_only:
                        out.append(Obl('C01.R5', fn.name, 'assert(%s)' % show(c)[:50], loc, 'discharged', why='pointer wiring contract (interface slots are filled by the library: C07.R1)', nontrivial=False))
                    elif parser:
                        out.append(Obl('C01.R5', fn.name, 'assert(%s)' % show(c)[:50], loc, 'finding',
                                       why='assert on a condition computed from the parsed data: aborts in assert-enabled builds and is no check at all with NDEBUG'))
                    else:
                        out.append(Obl('C01.R5', fn.name, 'assert(%s)' % show(c)[:50], loc, 'assumed', why='assert on internal bookkeeping, not on parsed data', nontrivial=False))
    # (b) abort / throw / terminate sites in the files of this property reachable from the API
    ir = facts.ir
    par = ir.reach(ir.roots())
    for f in ir.fns:
        if f['id'] not in par or not f['defined']:
            continue
        for s in f['special']:
            if s['callee'] in ('abort', '__cxa_throw', 'exit', '_ZSt9terminatev') and any(('/' + ff) in s['loc'] for ff in FILES):
                n += 1
                out.append(Obl('C01.R5', f['dname'].split('(')[0], s['callee'], s['loc'], 'finding', why='%s reachable from the C API inside the loader: %s' % (s['callee'], ' <- '.join(ir.path(par, f['id'])[-4:]))))
    # (c) throwing std::string::substr(pos) needs size() >= pos
    for fn in facts.all_fns():
        if fn.relfile() not in FILES or fn.tree is None:
            continue
        for b, j, st in fn.cfg.stmts():
            for x in calls_in(st['s']):
                if short(callee_name(x)) == 'substr' and x.get('a') and x.get('obj') is not None:
                    p = const_of(x['a'][0])
                    if p == 0:
                        continue
                    n += 1
                    obj = show(x['obj'])
                    gf = guard_facts(fn, b, st)
                    ok = False
                    for f in gf:
                        if f[0] == 'truth' and f[2] or f[0] == 'cmp' and f[1] == '==':
                            for y in walk(f[1] if f[0] == 'truth' else [f[2], f[3]]):
                                if short(callee_name(y)) == 'substr' and y.get('obj') is not None and show(y['obj']) == obj and len(y.get('a', [])) == 2 \
                                        and const_of(y['a'][0]) == 0 and p is not None and (const_of(y['a'][1]) or 0) >= p:
                                    # compared for equality with a literal of that length: the string has at least that many characters
                                    lits = [z for z in walk(f[1] if f[0] == 'truth' else [f[2], f[3]]) if z.get('k') == 'StringLiteral']
                                    if lits and len(lits[0].get('v', lits[0].get('s', ''))) >= p or any(('"' in show(z)) and len(show(z).strip('"')) >= p for z in walk(f[1] if f[0] == 'truth' else [f[2], f[3]]) if z.get('k') == 'StringLiteral'):
                                        ok = True
                    for f in gf:
                        # obj.compare(0, n, "literal") == 0: the first characters of obj ARE the literal, so obj is at least that long
                        n_ = cmp_norm(f) if f[0] == 'cmp' else None
                        if n_ and n_[0] == '==' and n_[2] == 0 and short(callee_name(strip(n_[1]))) == 'compare' and strip(n_[1]).get('obj') is not None and show(strip(n_[1])['obj']) == obj:
                            ca = strip(n_[1]).get('a', [])
                            lits = [z for a_ in ca for z in walk(a_) if z.get('k') == 'StringLiteral']
                            if len(ca) == 3 and const_of(ca[0]) == 0 and lits and p is not None and len(show(lits[0]).strip('"')) >= p:
                                ok = True
                        # obj.size() >= p
                        if n_ and n_[0] in ('>=', '>') and isinstance(n_[2], int) and p is not None and n_[2] + (1 if n_[0] == '>' else 0) >= p and \
                                short(callee_name(strip(n_[1]))) in ('size', 'length') and strip(n_[1]).get('obj') is not None and show(strip(n_[1])['obj']) == obj:
                            ok = True
                    out.append(Obl('C01.R5', fn.name, '%s.substr(%s)' % (obj, show(x['a'][0])), st['loc'], 'discharged' if ok else 'finding',
                                   why='dominated by a prefix comparison that implies size() >= %s' % p if ok else 'std::out_of_range when the text is shorter than %s characters' % show(x['a'][0])))
    if n < 1:
        raise build.AnalysisBroken('C01.R5: no assert/abort/substr site found at all')
    return out


def flat(lits):
    for l in lits:
        if l[0] == 'or':
            for alt in l[1]:
                yield from flat(alt)
        else:
            yield l


# ------------------------------------------------------------------------------------------------ R6 loop progress
def r6(facts):
    out = []
    fn = seqfn(facts, 'Tick')
    loops = []
    def rec(t):
        if isinstance(t, dict):
            if t.get('k') in ('WhileStmt', 'DoStmt', 'ForStmt') and any(short(callee_name(y)) == 'processEvents' for y in walk(t.get('body'))):
                loops.append(t)
            for k2 in ('body', 'then', 'else', 'sub', 'init'):
                v = t.get(k2)
                if isinstance(v, (dict, list)):
                    rec(v)
        elif isinstance(t, list):
            for y in t:
                rec(y)
    rec(fn.tree)
    if not loops:
        raise build.AnalysisBroken('C01.R6: event loop of Tick not found')
    for l in loops:
        ok, why = antifreeze(fn, l)
        out.append(Obl('C01.R6', fn.name, 'event loop ' + show(l.get('cond'))[:60], '%s:%s' % (fn.file, l.get('ln')), 'discharged' if ok else 'finding', why=why))
    # when the limit is hit the caller must get a positive delay back, whatever the step was: the branch under `counter <= 0`
    # first drops a negative wait (adding the one-second penalty to -1e300 changes nothing: Tick would return 0 for ever and
    # the audio loop of opn2_play, which repeats Tick while it returns 0, would never end)
    def fconst(e):
        e = strip(e)
        while e is not None and (e.get('k') or '').endswith('CastExpr'):
            e = strip(e.get('e'))
        if e is None:
            return None
        return e.get('fc') if e.get('fc') is not None else const_of(e)
    limit_ifs = []
    def rec3(t):
        if isinstance(t, dict):
            if any(t is l_ for l_ in loops):
                return          # tests inside the event loop are its exit tests, not the give-up branch after it
            if t.get('k') == 'IfStmt' and t.get('cond') is not None:
                for f in literals(t['cond'], True):
                    n_ = cmp_norm(f) if f[0] == 'cmp' else None
                    if n_ and n_[0] in ('<=', '<') and n_[2] in (0, 1) and strip(n_[1]).get('k') == 'DeclRefExpr' and not strip(n_[1]).get('parm') and \
                            (strip(n_[1]).get('t') or {}).get('s') == 'int':
                        limit_ifs.append(t)
            for k2 in ('body', 'then', 'else', 'sub', 'init'):
                v = t.get(k2)
                if isinstance(v, (dict, list)):
                    rec3(v)
        elif isinstance(t, list):
            for y in t:
                rec3(y)
    rec3(fn.tree)
    if not limit_ifs:
        raise build.AnalysisBroken('C01.R6: the `counter <= 0` branch of Tick not found')
    for li in limit_ifs:
        ok = False
        for x in walk(li.get('then')):
            ap = assign_parts(x)
            if ap and ap[2] == '=' and mentions(ap[0], mem('wait')) and (fconst(ap[1]) is not None and fconst(ap[1]) >= 0):
                ok = True
        out.append(Obl('C01.R6', fn.name, 'limit reached: owed time dropped', '%s:%s' % (fn.file, li.get('ln')), 'discharged' if ok else 'finding',
                       why='wait is set to a non-negative constant before the penalty is added: Tick returns a positive delay' if ok else
                       'under `%s` the penalty is added to a wait that may be hugely negative (opn2_tickEvents(dev, 1e300, ..), a huge tempo multiplier): Tick keeps returning 0 and the audio loop of opn2_play never ends' % show(li['cond'])[:40]))
    # seek(): the same loop shape with the counter test commented out (F11) — recorded, terminates because looping is disabled while seeking
    sk = seqfn(facts, 'seek', required=False)
    if sk is not None:
        loops2 = []
        def rec2(t):
            if isinstance(t, dict):
                if t.get('k') in ('WhileStmt',) and any(short(callee_name(y)) == 'processEvents' for y in walk(t.get('body'))) and \
                        not any(z.get('k') == 'WhileStmt' for z in walk(t.get('body'))):
                    loops2.append(t)
                for k2 in ('body', 'then', 'else', 'sub', 'init'):
                    v = t.get(k2)
                    if isinstance(v, (dict, list)):
                        rec2(v)
            elif isinstance(t, list):
                for y in t:
                    rec2(y)
        rec2(sk.tree)
        for l in loops2:
            ok, why = antifreeze(sk, l)
            out.append(Obl('C01.R6', sk.name, 'event loop ' + show(l.get('cond'))[:60], '%s:%s' % (sk.file, l.get('ln')), 'discharged' if ok else 'assumed',
                           why=why if ok else 'counter test absent from the condition; every iteration consumes one row of a finite track because loop jumps are disabled while seeking (by reading)', nontrivial=False))
    return out


def stay_literals(l, callee):
    """what holds whenever the loop body reaches its call of `callee`: the loop condition and the negation of every `if(c) break;`
    (or return) that stands in the body before that call (`while(a && b)` and `for(;;) { if(!a) break; if(!b) break; ..` are the same loop)"""
    lits = [f for f in literals(l['cond'], True) if f[0] != 'or'] if l.get('cond') is not None else []     # conjuncts only
    body = l.get('body')
    items = body.get('body', []) if isinstance(body, dict) and body.get('k') == 'CompoundStmt' else [body]
    for it in items:
        if not isinstance(it, dict):
            continue
        calls_it = any(short(callee_name(y)) == callee for y in walk(it))
        if it.get('k') == 'IfStmt' and it.get('else') is None and core_exits(it.get('then')) and not any(short(callee_name(y)) == callee for y in walk(it.get('then'))):
            # the test itself may be the call (`if(!processEvents()) break;`): what stands before it still counts, the rest does not
            if calls_it:
                break
            lits += [f for f in literals(it['cond'], False) if f[0] != 'or']
            continue
        if calls_it:
            break
        if it.get('k') not in ('DeclStmt', 'NullStmt'):
            break       # anything else may change what the tests said
    return lits


def antifreeze(fn, l):
    lits = stay_literals(l, 'processEvents')
    counter = None
    for f in lits:
        if f[0] == 'cmp':
            n = cmp_norm(f)
            if n and n[0] == '>' and n[2] == 0 and strip(n[1]).get('k') == 'DeclRefExpr' and not strip(n[1]).get('parm'):
                counter = strip(n[1])
    if counter is None:
        return False, 'the loop condition has no `counter > 0` conjunct: a stream of zero-delay events keeps the caller inside Tick() forever'
    # initialised with a positive constant
    init = None
    for b, j, st in fn.cfg.stmts():
        if st['s'].get('k') == 'DeclStmt':
            for v in st['s']['decls']:
                if v['id'] == counter['id'] and v.get('init') is not None:
                    init = const_of(v['init'])
    if init is None or init <= 0:
        return False, 'the anti-freeze counter is not initialised with a positive constant'
    decs, others = [], []
    for x in walk(l.get('body')):
        if is_incdec(x) and strip(x['e']).get('id') == counter['id']:
            (decs if x['op'] == '--' else others).append(x)
        ap = assign_parts(x)
        if ap and strip(ap[0]).get('id') == counter['id']:
            if ap[2] == '-=' and (const_of(ap[1]) or 0) > 0:
                decs.append(x)
            else:
                others.append(x)
    if others:
        return False, 'the anti-freeze counter is reset or incremented inside the loop'
    if not decs:
        return False, 'the anti-freeze counter is never decremented inside the loop'
    # the decrement must happen on the zero-progress path: its guard may only test that the wait did not grow
    for d in decs:
        encl = []
        def find(t, guards):
            if isinstance(t, dict):
                if t is d or any(y is d for y in walk(t)) and t.get('k') not in ('IfStmt', 'CompoundStmt', 'WhileStmt', 'ForStmt', 'DoStmt'):
                    encl.append(list(guards))
                    return
                if t.get('k') == 'IfStmt':
                    find(t.get('then'), guards + [(t['cond'], True)])
                    find(t.get('else'), guards + [(t['cond'], False)])
                    return
                for k2 in ('body', 'sub'):
                    v = t.get(k2)
                    if isinstance(v, (dict, list)):
                        find(v, guards)
            elif isinstance(t, list):
                for y in t:
                    find(y, guards)
        find(l.get('body'), [])
        # the wait conjunct of the loop condition: rounds that satisfy it stay in the loop
        loop_wait = [(f[1], show(f[3])) for f in lits if f[0] == 'cmp' and mentions(f[2], mem('wait'))]
        for gs in encl:
            for (g, pol) in gs:
                fs = list(flat(literals(g, pol)))
                for f in fs:
                    if f[0] == 'cmp' and mentions(f[2], mem('wait')) and loop_wait and (f[1], show(f[3])) not in loop_wait:
                        return False, ('the counter is decremented only when wait %s %s, but the loop goes on while wait %s %s: rounds in between make no progress and are never counted '
                                       '(a zero-length loop under a tempo multiplier keeps the wait at a tiny positive value: Tick never returns)' % (f[1], show(f[3]), loop_wait[0][0], loop_wait[0][1]))
                ok = all(f[0] == 'cmp' and f[1] in ('<=', '<') and mentions(f[2], mem('wait')) and (const_of(f[3]) is not None and const_of(f[3]) >= 0 or True) for f in fs)
                if not ok:
                    return False, 'the counter is decremented only under `%s`, which a zero-delay event storm need not satisfy' % show(g)[:60]
                for f in fs:
                    cc = const_of(f[3])
                    if cc is None and isinstance(strip(f[3]), dict) and 'fc' in strip(f[3]):
                        cc = strip(f[3])['fc']          # floating literal
                    if cc is not None and (cc < 0 or (f[1] == '<' and cc <= 0)):
                        return False, 'the counter is decremented only when wait %s %s: zero-delay rows that leave the wait at exactly 0 are not counted' % (f[1], cc)
    return True, 'condition carries %s > 0 (initially %d); decremented whenever the wait did not grow; never reset' % (short(counter['n']), init)


def c03_r6(facts, res):
    out = []
    for o in c03.r6(facts, res, lambda f: f in FILES):
        out.append(Obl('C01.R6', o.fn, o.construct, o.loc, o.status, why=o.why, nontrivial=o.nontrivial))
    return out


# ------------------------------------------------------------------------------------------------ R7 fraction denominators
def readint_shape(facts):
    """readBEint/readLEint add at most 8 bits per loop iteration and iterate nbytes times: result < 256^nbytes"""
    for name in ('readBEint', 'readLEint'):
        fn = facts.fn(name)
        ok_loop = ok_shift = False
        for x in walk(fn.tree):
            if isinstance(x, dict) and x.get('k') == 'ForStmt' and x.get('cond') is not None:
                c = strip(x['cond'])
                if c.get('k') == 'BinaryOperator' and c['op'] == '<' and strip(c['r']).get('parm'):
                    ok_loop = True
            if isinstance(x, dict) and x.get('k') == 'BinaryOperator' and x['op'] in ('<<',) and (const_of(x['r']) == 8 or mentions(x['r'], lambda y: y.get('k') == 'BinaryOperator' and y['op'] == '*' and 8 in (const_of(y['l']), const_of(y['r'])))):
                ok_shift = True
        if not (ok_loop and ok_shift):
            return False
    return True


def r7(facts, res):
    out = []
    shape = readint_shape(facts)
    def summary(eng, e, avals):
        if not shape or len(avals) < 2 or avals[1] is None or avals[1].hi > 8:
            return None
        return V(0, (1 << (8 * int(avals[1].hi))) - 1, False, True)
    n = 0
    for fn in facts.all_fns():
        if fn.relfile() not in FILES or fn.tree is None or fn.name.startswith('fraction<'):
            continue
        sites = []
        for b, ex, loc in fn.cfg.exprs():
            for x in walk(ex):
                if x.get('k') in ('CXXConstructExpr', 'CXXTemporaryObjectExpr', 'CXXFunctionalCastExpr') and 'fraction<' in ((x.get('t') or {}).get('s', '')) and len(x.get('a', [])) == 2:
                    sites.append(x)
        if not sites:
            continue
        eng = Engine2(facts, res['field_ranges'], e2prog.MIN_SIZES, res['param_ranges'])
        eng.summaries = {'readBEint': summary, 'readLEint': summary}
        vals = {}
        skeys = {(x.get('ln'), show(x)) for x in sites}
        def hook(eng, e, st, vals=vals, skeys=skeys):
            for x in walk(e):
                if x.get('k') in ('CXXConstructExpr', 'CXXTemporaryObjectExpr', 'CXXFunctionalCastExpr') and len(x.get('a', [])) == 2 and (x.get('ln'), show(x)) in skeys:
                    v = eng.ev(x['a'][1], st)
                    k = (x.get('ln'), show(x))
                    if k in vals and (vals[k] is None or v is None):
                        vals[k] = None
                    else:
                        vals[k] = v if k not in vals else vals[k].join(v)
        eng.value_hooks.append(hook)
        eng.run(fn, record=True)
        for s in sites:
            n += 1
            d = s['a'][1]
            cd = const_of(d)
            if cd is not None:
                out.append(Obl('C01.R7', fn.name, 'fraction(%s, %s)' % (show(s['a'][0])[:20], show(d)[:40]), '%s:%s' % (fn.file, s.get('ln')), 'discharged' if cd != 0 else 'finding', why='constant denominator %s' % cd, nontrivial=False))
                continue
            sk = (s.get('ln'), show(s))
            v = vals.get(sk)
            if sk not in vals:
                out.append(Obl('C01.R7', fn.name, 'fraction(%s, %s)' % (show(s['a'][0])[:20], show(d)[:40]), '%s:%s' % (fn.file, s.get('ln')), 'assumed', why='site not reached by the interval engine', nontrivial=False))
                continue
            ok = v is not None and (v.lo > 0 or v.hi < 0)
            out.append(Obl('C01.R7', fn.name, 'fraction(%s, %s)' % (show(s['a'][0])[:20], show(d)[:40]), '%s:%s' % (fn.file, s.get('ln')), 'discharged' if ok else 'finding',
                           why='denominator in %s' % v if ok else 'denominator %s can be zero (file field): the first non-zero delta time divides by zero in fraction::Optim' % v))
    if n < 4:
        raise build.AnalysisBroken('C01.R7: only %d two-argument fraction constructions found' % n)
    return out


# ------------------------------------------------------------------------------------------------ R8 holders and loop stack
def r8(facts):
    out = []
    # (a) Position holders
    seq_rec = None
    for rn, rec in facts.records.items():
        if rn.endswith('MidiSequencer') and any(f['n'] == 'm_trackData' for f in rec.get('fields', [])):
            seq_rec = rec
    if seq_rec is None:
        raise build.AnalysisBroken('C01.R8: sequencer record not found')
    holders = [f['n'] for f in seq_rec['fields'] if (f.get('t') or {}).get('s', '').endswith('Position')]
    if len(holders) < 3:
        raise build.AnalysisBroken('C01.R8: Position-typed members not found (%s)' % holders)
    n = 0
    for fn in facts.all_fns():
        if fn.relfile() not in FILES or fn.tree is None:
            continue
        drops = []
        for b, j, st in fn.cfg.stmts():
            for x in calls_in(st['s']):
                if x.get('obj') is not None and mem('m_trackData')(strip(x['obj'])) and short(callee_name(x)) in ('clear', 'resize', 'assign', 'swap', 'erase', 'pop_back', 'operator='):
                    drops.append((b, j, st, x))
        if not drops:
            continue
        b, j, st, x = drops[0]
        for h in holders:
            n += 1
            done = False
            for b2, j2, st2 in fn.cfg.stmts():
                if not ((b2 == b and j2 > j) or (b2 != b and ('b', b2) in (fn.cfg.pdom().get(('b', b)) or ()))):
                    continue
                for y in walk(st2['s']):
                    ap = assign_parts(y)
                    if ap and mem(h)(strip(ap[0])) and any(z.get('k') in ('CXXTemporaryObjectExpr', 'CXXConstructExpr', 'CXXFunctionalCastExpr') and not z.get('a') for z in walk(ap[1])):
                        done = True
                    if short(callee_name(y)) == 'clear' and y.get('obj') is not None and mentions(y['obj'], mem(h)) and mentions(y['obj'], mem('track')):
                        done = True
            weak = h == 'm_loopBeginPosition'
            out.append(Obl('C01.R8', fn.name, 'holder %s after %s' % (h, show(x)[:40]), st['loc'], 'discharged' if done else ('assumed' if weak else 'finding'),
                           why='emptied on every path after the track data is dropped' if done else
                           ('%s keeps iterators into the dropped track data; it is only read after a loop point was passed' % h if weak else
                            '%s keeps iterators into the track data dropped here: after a failed load, rewind/play walk freed list nodes' % h)))
    if n < 3:
        raise build.AnalysisBroken('C01.R8: no function dropping m_trackData found')
    # (a2) the end-of-song flag is the only thing that keeps processEvents() away from position iterators that were reset with the
    # track data: it may be cleared only by a function that has just put a whole position in place (the time-line builder, which
    # fills the positions of the new song, and rewind(), which restores the saved begin position - emptied with the track data,
    # rule (a)).  A loader that clears it before the data is accepted re-arms the iterators a refused earlier load has left behind.
    na = 0
    for fn in facts.all_fns():
        if fn.relfile() not in FILES or fn.tree is None or fn.d.get('ctor'):
            continue
        for b, j, st in fn.cfg.stmts():
            for x in walk(st['s']):
                ap = assign_parts(x)
                if not (ap and mem('m_atEnd')(strip(ap[0])) and const_of(ap[1]) == 0):
                    continue
                na += 1
                placed = None
                for b2, j2, st2 in fn.cfg.stmts():
                    for y in walk(st2['s']):
                        ap2 = assign_parts(y)
                        if not ap2:
                            continue
                        l2, r2 = strip(ap2[0]), strip(ap2[1])
                        if l2.get('k') == 'MemberExpr' and short(l2['n']) in holders and r2.get('k') == 'MemberExpr' and short(r2['n']) in holders:
                            placed = show(y)
                out.append(Obl('C01.R8', fn.name, 'm_atEnd = false', st['loc'], 'discharged' if placed else 'finding',
                               why='the function puts a whole position in place (%s)' % placed[:60] if placed else
                               'the end-of-song flag is cleared by a function that does not set up the playing position: after a load that was refused while its tracks were being built '
                               '(default-constructed position iterators) this store lets processEvents() dereference them'))
    if na < 1:
        raise build.AnalysisBroken('C01.R8: stores m_atEnd = false not found (%d)' % na)
    # (b) loop-stack level
    m = 0
    for fn in facts.all_fns():
        if fn.relfile() not in FILES or fn.tree is None:
            continue
        for b, j, st in fn.cfg.stmts():
            for x in walk(st['s']):
                tgt = op = rhs = None
                ap = assign_parts(x)
                if ap and mem('stackLevel')(strip(ap[0])):
                    tgt, rhs, op = ap
                elif is_incdec(x) and mem('stackLevel')(strip(x['e'])):
                    tgt, op, rhs = x['e'], x['op'], None
                if tgt is None:
                    continue
                m += 1
                construct = 'stackLevel %s %s' % (op, show(rhs) if rhs is not None else '')
                if op == '=' and const_of(rhs) is not None:
                    ok = const_of(rhs) >= -1
                    out.append(Obl('C01.R8', fn.name, construct, st['loc'], 'discharged' if ok else 'finding', why='constant %s' % const_of(rhs), nontrivial=False))
                elif op in ('+=', '++'):
                    ok, why = nonneg_arg(facts, fn, rhs)
                    out.append(Obl('C01.R8', fn.name, construct, st['loc'], 'discharged' if ok else 'finding', why=why))
                else:
                    ok = clamp_follows(fn, b, j, st)
                    out.append(Obl('C01.R8', fn.name, construct, st['loc'], 'discharged' if ok else 'finding',
                                   why='followed by the clamp `if (stackLevel < -1) stackLevel = -1`' if ok else
                                   'the level can drop below -1 on unbalanced loop-end markers: the next loop start computes size_t(level + 1) and grows the stack until bad_alloc'))
    if m < 4:
        raise build.AnalysisBroken('C01.R8: stores of LoopState::stackLevel not found')
    return out


def nonneg_arg(facts, fn, rhs):
    if rhs is None:
        return True, 'increment'
    c = const_of(rhs)
    if c is not None:
        return c >= 0, 'constant %s' % c
    r = strip(rhs)
    if r.get('k') == 'DeclRefExpr' and r.get('parm'):
        pi = [i for i, p in enumerate(fn.params) if p['id'] == r['id']]
        vals = []
        for caller in facts.all_fns():
            if caller.tree is None:
                continue
            for b, ex, loc in caller.cfg.exprs():
                for x in calls_in(ex):
                    if callee_name(x) == fn.name:
                        a = x.get('a', [])
                        vals.append(const_of(a[pi[0]]) if pi and pi[0] < len(a) else 'default')
        dflt = None
        ok = bool(vals) and all(v == 'default' or (isinstance(v, int) and v >= 0) for v in vals)
        return ok, 'every call site passes a non-negative constant or the default (%s)' % sorted(set(map(str, vals))) if ok else 'a call site passes a value that may be negative (%s)' % vals
    return False, 'increment by a non-constant'


def clamp_follows(fn, b, j, st):
    for b2, blk in fn.cfg.blocks.items():
        if 'cond' not in blk or blk.get('term') != 'IfStmt':
            continue
        if not (b2 == b or ('b', b2) in (fn.cfg.pdom().get(('b', b)) or ())):
            continue
        for f in literals(blk['cond'], True):
            n = cmp_norm(f) if f[0] == 'cmp' else None
            if n and mem('stackLevel')(strip(n[1])) and ((n[0] == '<' and n[2] == -1) or (n[0] == '<=' and n[2] == -2)):
                tb = fn.cfg.blocks[blk['succ'][0]]
                for s2 in tb['stmts']:
                    ap = assign_parts(s2['s'])
                    if ap and mem('stackLevel')(strip(ap[0])) and const_of(ap[1]) == -1:
                        return True
    return False


# ------------------------------------------------------------------------------------------------ R9 E2 indexes
def r9_param_tables(facts, res):
    """pointer parameters that receive a fixed-extent table from every caller (sortEvents' noteStates[16*255]): the extent is taken from the
    callers' arrays and every subscript of the parameter is evaluated by the interval engine"""
    out = []
    for fn in facts.all_fns():
        if fn.relfile() not in FILES or fn.tree is None:
            continue
        for pi, p in enumerate(fn.params):
            if not p['t'].get('p'):
                continue
            subs = [x for b, ex, loc in fn.cfg.exprs() for x in walk(ex) if x.get('k') == 'ArraySubscriptExpr' and strip(x['b']).get('k') == 'DeclRefExpr' and strip(x['b']).get('id') == p['id']
                    and const_of(x['i']) is None]
            if not subs:
                continue
            exts = []
            for caller in facts.all_fns():
                if caller.tree is None:
                    continue
                for b, ex, loc in caller.cfg.exprs():
                    for c in calls_in(ex):
                        if callee_name(c) == fn.name and pi < len(c.get('a', [])):
                            a = strip(c['a'][pi])
                            t = a.get('t') or {}
                            if 'arr' in t:
                                exts.append(t['arr'])
                            elif const_of(a) == 0 or a.get('k') in ('GNUNullExpr', 'CXXNullPtrLiteralExpr'):
                                pass
                            else:
                                exts.append(None)
            if not exts or any(e is None for e in exts):
                continue
            ext = min(exts)
            eng = Engine2(facts, res['field_ranges'], e2prog.MIN_SIZES, res['param_ranges'])
            vals = {}
            sdf = single_defs(fn.d)
            cont = {}       # local container name -> join of the values inserted into it
            iters = {}      # iterator local -> container it walks
            for b0, j0, st0 in fn.cfg.stmts():
                if st0['s'].get('k') == 'DeclStmt':
                    for v0 in st0['s']['decls']:
                        if v0.get('init') is not None:
                            for y in walk(v0['init']):
                                if short(callee_name(y)) == 'begin' and y.get('obj') is not None and strip(y['obj']).get('k') == 'DeclRefExpr':
                                    iters[v0['id']] = short(strip(y['obj'])['n'])
            def hook(eng, e, st, vals=vals, pid=p['id'], cont=cont, iters=iters):
                for x in walk(e):
                    if short(callee_name(x)) in ('insert', 'push_back') and x.get('obj') is not None and strip(x['obj']).get('k') == 'DeclRefExpr' and len(x.get('a', [])) == 1:
                        cn_ = short(strip(x['obj'])['n'])
                        v_ = eng.ev(x['a'][0], st)
                        cont[cn_] = v_ if cn_ not in cont else (None if cont[cn_] is None or v_ is None else cont[cn_].join(v_))
                for x in walk(e):
                    if x.get('k') == 'ArraySubscriptExpr' and strip(x['b']).get('k') == 'DeclRefExpr' and strip(x['b']).get('id') == pid:
                        v = eng.ev(x['i'], st)
                        # `*it` of an iterator over a local container: the join of everything inserted into that container
                        di = strip(x['i'])
                        inner = strip(di.get('e')) if di.get('k') == 'UnaryOperator' and di.get('op') == '*' else (strip(di['a'][0]) if short(di.get('callee', '')) == 'operator*' and di.get('a') else None)
                        if inner is not None and inner.get('k') == 'DeclRefExpr' and inner.get('id') in iters and cont.get(iters[inner['id']]) is not None:
                            v = cont[iters[inner['id']]]
                        k = (x.get('ln'), show(x))
                        vals[k] = v if k not in vals or vals[k] is None or v is None else vals[k].join(v)
                        if v is None:
                            vals[k] = None
            eng.value_hooks.append(hook)
            eng.run(fn, record=True)
            for (ln, txt), v in sorted(vals.items(), key=lambda kv: kv[0][0] or 0):
                ok = v is not None and not v.f and v.lo >= 0 and v.hi <= ext - 1
                out.append(Obl('C01.R9', fn.name, txt[:60], '%s:%s' % (fn.file, ln), 'discharged' if ok else 'finding',
                               why='index %s within the %d entries every caller provides' % (v, ext) if ok else
                               'index %s can leave the %d-entry table the callers pass for `%s`' % (v, ext, p['n'])))
    return out


def r9(facts, res):
    out = r9_param_tables(facts, res)
    for o in c03.index_obligations(facts, res, 'C01.R9', 'C01.R9', lambda f: f in FILES):
        if o.status == 'finding':
            # index is the byte under a parse cursor: use the bound E1c established for that byte
            ub = self_ub.get(facts.view)
            m = re.search(r'\[(\*\w+(\+\+)?)\]$', o.construct)
            if ub and m and o.fn == ub[0]:
                ln = int(o.loc.rsplit(':', 1)[1])
                b = ub[1].get((ln, m.group(1)))
                ext = [x for x in res['obl'] if x.fn == o.fn and x.ln == ln and x.construct == o.construct]
                if b is not None and ext and isinstance(ext[0].ext, int) and b <= ext[0].ext - 1:
                    o.status, o.why = 'discharged', 'the byte under the cursor was compared: *cursor <= %d on every path since the cursor last moved (E1c)' % b
        out.append(o)
    return out



# ------------------------------------------------------------------------------------------------ R10 event payload subscripts
VOICE_LEN = {0x8: 2, 0x9: 2, 0xA: 2, 0xB: 2, 0xC: 1, 0xD: 1, 0xE: 2}


def _evkey(e):
    """text of the event object an expression `X.data` / `X.type` belongs to, with `(*j)` and `j->` unified"""
    t = show(strip(e)).replace('(*', '').replace(')', '').replace('->', '.')
    return t


def _append_wrappers(facts):
    """functions that do `P.push_back(Q)` on two of their own parameters: name -> (index of P, index of Q).  A call of one
    is an append to its P argument (helpers extracted from the sorting code keep the bucket rule applicable)"""
    out = {}
    for fn in facts.all_fns():
        if fn.tree is None or not fn.file.startswith(build.REPO):
            continue
        pid = {p['id']: i for i, p in enumerate(fn.params)}
        for x in calls_in(fn.tree):
            if short(callee_name(x)) == 'push_back' and x.get('obj') is not None and x.get('a'):
                o, a = strip(x['obj']), strip(x['a'][0])
                if o.get('k') == 'DeclRefExpr' and a.get('k') == 'DeclRefExpr' and o.get('id') in pid and a.get('id') in pid:
                    out[fn.name] = (pid[o['id']], pid[a['id']])
    return out


def r10(facts):
    out = []
    n = 0
    wrappers = _append_wrappers(facts)
    for fn in facts.all_fns():
        if fn.relfile() not in ('src/midi_sequencer_impl.hpp', 'src/midi_sequencer.hpp', 'src/opnmidi_sequencer.cpp') or fn.tree is None:
            continue
        stmts = list(fn.cfg.stmts())
        # buckets: local containers that only ever receive events of given types (push_back under a type guard)
        bucket_types = {}
        for tgt, src_e, gf_, loc_ in append_sites(fn, wrappers):
            bname = short(tgt['n'])
            src = _evkey(src_e)
            tys = set()
            for f in gf_:
                if f[0] == 'cmp' and f[1] == '==' and strip(f[2]).get('k') == 'MemberExpr' and short(strip(f[2])['n']) == 'type' and _evkey(strip(f[2])['b']) == src:
                    c = const_of(f[3])
                    if c is not None:
                        tys.add(c)
            bucket_types.setdefault(bname, []).append(tys)
        for b, j, st in stmts:
            for x in walk(st['s']):
                if not (short(x.get('callee', '')) == 'operator[]' and x.get('a') and strip(x['a'][0]).get('k') == 'MemberExpr' and short(strip(x['a'][0])['n']) == 'data'
                        and 'MidiEvent' in strip(x['a'][0])['n']):
                    continue
                n += 1
                k = const_of(x['a'][1])
                base = strip(strip(x['a'][0])['b'])
                key = _evkey(base)
                construct = '%s.data[%s]' % (key, show(x['a'][1]))
                gf = guard_facts(fn, b, st, sd=single_defs(fn.d)) + guard_facts(fn, b, st)
                why = None
                # (c') inside `X.data.empty() ? default : X.data[k]`
                for y in walk(st['s']):
                    if y.get('k') == 'ConditionalOperator' and k == 0:
                        cnd = strip(y.get('cnd'))
                        neg = False
                        while cnd is not None and cnd.get('k') == 'UnaryOperator' and cnd.get('op') == '!':
                            cnd, neg = strip(cnd['e']), not neg
                        if cnd is not None and short(callee_name(cnd)) == 'empty' and cnd.get('obj') is not None and _evkey(strip(cnd['obj']).get('b') or {}) == key:
                            arm = y.get('l') if neg else y.get('r')
                            if any(z is x for z in walk(arm)):
                                why = 'guarded by the emptiness test of the conditional expression'
                if k is None:
                    out.append(Obl('C01.R10', fn.name, construct, st['loc'], 'finding', why='variable subscript of event payload bytes without a size test'))
                    continue
                # (a) event type in force
                for f in gf:
                    if f[0] == 'cmp' and f[1] == '==' and strip(f[2]).get('k') == 'MemberExpr' and short(strip(f[2])['n']) == 'type' and _evkey(strip(f[2])['b']) == key:
                        c = const_of(f[3])
                        if c in VOICE_LEN and VOICE_LEN[c] > k:
                            why = 'channel voice message %#x: %d data bytes' % (c, VOICE_LEN[c])
                    if f[0] == 'case' and strip(f[1]).get('k') == 'MemberExpr' and short(strip(f[1])['n']) == 'type' and _evkey(strip(f[1])['b']) == key:
                        if f[2] and all(c in VOICE_LEN and VOICE_LEN[c] > k for c in f[2]):
                            why = 'case of channel voice message(s) %s' % ', '.join('%#x' % c for c in f[2])
                # (c) size test
                if why is None:
                    for f in gf:
                        txt = fact_str(f)
                        if ('%s.data.size()' % key) in txt.replace('->', '.').replace('(*', '').replace(')', '') and f[0] == 'cmp':
                            nrm = cmp_norm(f)
                            if nrm and ((nrm[0] in ('>',) and nrm[2] >= k) or (nrm[0] == '>=' and nrm[2] >= k + 1) or (nrm[0] == '==' and nrm[2] >= k + 1)):
                                why = 'size test ' + txt[:50]
                        if f[0] == 'truth' and not f[2] and short(callee_name(strip(f[1]))) == 'empty' and k == 0 and key in _evkey(strip(f[1]).get('obj') or {}):
                            why = 'non-empty test'
                # (b) bytes built by this function on every path to the use
                if why is None:
                    built = 0
                    for b2, j2, st2 in stmts:
                        dom = (b2 == b and j2 < j) or (b2 != b and fn.cfg.block_dominates(b2, b))
                        if not dom:
                            continue
                        for y in calls_in(st2['s']):
                            o = y.get('obj')
                            if o is None or strip(o).get('k') != 'MemberExpr' or short(strip(o)['n']) != 'data' or _evkey(strip(o)['b']) != key:
                                continue
                            m = short(callee_name(y))
                            if m == 'push_back':
                                built += 1
                            elif m in ('resize', 'assign') and y.get('a') and const_of(y['a'][0]) is not None:
                                built = max(built, const_of(y['a'][0]))
                    if built > k:
                        why = '%d byte(s) built by this function on every path to the use' % built
                # (d) element of a bucket that only receives events of sufficient types
                if why is None and base.get('k') in ('UnaryOperator', 'DeclRefExpr', 'CXXOperatorCallExpr'):
                    itname = key.split('.')[0]
                    for bname, tlist in bucket_types.items():
                        # the iterator / element is taken from this bucket
                        taken = any((v.get('init') is not None and bname in show(v['init'])) for b3, j3, st3 in stmts if st3['s'].get('k') == 'DeclStmt' for v in st3['s']['decls'] if v['n'] == itname)
                        if not taken:
                            taken = any(st3['s'].get('k') == 'DeclStmt' and any(v['n'] == itname for v in st3['s']['decls']) and bname in show(st3['s']) for b3, j3, st3 in stmts)
                        if taken and tlist and all(tys and all(c in VOICE_LEN and VOICE_LEN[c] > k for c in tys) for tys in tlist):
                            why = 'element of `%s`, which only receives events of type %s' % (bname, sorted({'%#x' % c for tys in tlist for c in tys}))
                out.append(Obl('C01.R10', fn.name, construct, st['loc'], 'discharged' if why else 'finding',
                               why=why or 'the payload of this event comes from the file (a meta event or an internal subtype written as a raw meta event): nothing guarantees that byte %d exists' % k))
    if n < 35:
        raise build.AnalysisBroken('C01.R10: only %d event payload subscripts found' % n)
    return out



# ------------------------------------------------------------------------------------------------ R12 pointers that walk a local array
def _loops_in(t, acc):
    if isinstance(t, dict):
        if t.get('k') in ('WhileStmt', 'ForStmt', 'DoStmt'):
            acc.append(t)
        for k2 in ('body', 'then', 'else', 'sub', 'init'):
            v = t.get(k2)
            if isinstance(v, (dict, list)):
                _loops_in(v, acc)
    elif isinstance(t, list):
        for y in t:
            _loops_in(y, acc)
    return acc


def shift_loop_trips(fn, lp):
    """upper bound of the trip count of a loop whose progress is a right shift of one integer variable, or None:
      while((v >>= k) > 0) ..                      any W-bit v (a negative value leaves at once): ceil(W / k) rounds
      while((v >>= k)) .. / while(v) { v >>= k }   unsigned W-bit v only: ceil(W / k) rounds (a negative value never becomes 0)
      for(;;) { ..; if(v & M) v >>= k; else break; }   unsigned W-bit v only: ceil(W / k) + 1 rounds - with a signed v the sign
                                                    bit is shifted in for ever once it is set and the loop does not end"""
    def shift_of(e):
        for y in walk(e):
            if isinstance(y, dict) and y.get('k') in ('CompoundAssignOperator', 'BinaryOperator') and y.get('op') == '>>=' and (const_of(y.get('r')) or 0) > 0 \
                    and strip(y['l']).get('k') == 'DeclRefExpr':
                return strip(y['l']), const_of(y['r'])
        return None
    def bits(v):
        t = v.get('t') or {}
        return t.get('w'), bool(t.get('u'))
    cond = lp.get('cond')
    c = strip(cond) if cond is not None else None
    always = c is None or const_of(c) not in (None, 0)
    if not always:
        sh = shift_of(c)
        if sh:
            v, k = sh
            w, uns = bits(v)
            cs = strip(c)
            positive_test = cs.get('k') == 'BinaryOperator' and cs.get('op') == '>' and const_of(cs.get('r')) == 0
            if w and (uns or positive_test):
                return -(-w // k), 'the value shifted right by %d in the loop condition reaches 0 after %d rounds' % (k, -(-w // k))
            return None, 'the signed value `%s` is shifted right in the loop condition and tested for non-zero: a negative value becomes -1 and stays there' % short(v['n'])
        return None, None
    # for(;;) with `if(v & M) v >>= k; else break;` as the only way out
    body = lp.get('body')
    items = body.get('body', []) if isinstance(body, dict) and body.get('k') == 'CompoundStmt' else [body]
    for it in items:
        if isinstance(it, dict) and it.get('k') == 'IfStmt':
            th, el = it.get('then'), it.get('else')
            def only(t_, kind):
                t_ = t_['body'][0] if isinstance(t_, dict) and t_.get('k') == 'CompoundStmt' and len(t_.get('body', [])) == 1 else t_
                return isinstance(t_, dict) and (t_.get('k') == kind if kind else True) and t_
            for shift_arm, exit_arm, pol in ((th, el, True), (el, th, False)):
                ex = only(exit_arm, 'BreakStmt')
                sa = only(shift_arm, None)
                sh = shift_of(sa) if sa else None
                if ex and sh:
                    v, k = sh
                    w, uns = bits(v)
                    tested = any(isinstance(y, dict) and y.get('k') == 'DeclRefExpr' and y.get('id') == v.get('id') for y in walk(it.get('cond')))
                    if tested and w and uns:
                        return -(-w // k) + 1, 'the unsigned %d-bit value `%s` is shifted right by %d per round: the tested bits are 0 after %d rounds' % (w, short(v['n']), k, -(-w // k))
                    if tested:
                        return None, 'the loop ends only when bits of the signed value `%s` are clear, and `%s >>= %d` shifts the sign bit in: once the value is negative (a fifth 7-bit group) the loop never ends and keeps writing' % (short(v['n']), short(v['n']), k)
    return None, None


def r12(facts):
    """a pointer that is set to a fixed-size local array and then advanced (`*p++ = x`, `p += n`, `p += writer(.., p)`) stays inside the
    array: the greatest advance over all paths of the scope is at most the extent.  A callee that receives the pointer is summarised
    by the greatest number of bytes it writes, which needs a bound on the trip count of its loops (shift_loop_trips)."""
    out = []
    n = 0
    def ptr_steps(e, pid):
        """number of unit advances of pointer pid (an id or a set of ids that name one pointer) in expression e; (constant steps, [calls that receive pid])"""
        steps, calls = 0, []
        pids_ = pid if isinstance(pid, (set, frozenset)) else {pid}
        for y in walk(e):
            if not isinstance(y, dict):
                continue
            if is_incdec(y) and y.get('op') == '++' and strip(y['e']).get('id') in pids_:
                steps += 1
            ap = assign_parts(y)
            if ap and ap[2] == '+=' and strip(ap[0]).get('id') in pids_:
                c = const_of(ap[1])
                if c is not None:
                    steps += c
                else:
                    cl = [z for z in walk(ap[1]) if isinstance(z, dict) and 'callee' in z]
                    calls += cl if cl else [None]
        return steps, calls
    def writer_summary(cf, pi):
        """greatest number of advances of the pi-th (pointer) parameter over all paths of cf, or (None, reason)"""
        # the parameter and the pointer locals that start as copies of it (`uint8_t *p = out; *p++ = ..`) are one pointer here: every
        # advance of any of them is a byte written behind `out`
        pid = {cf.params[pi]['id']}
        grew = True
        while grew:
            grew = False
            for x in walk(cf.tree):
                if isinstance(x, dict) and x.get('k') == 'DeclStmt':
                    for v in x.get('decls', []):
                        if v['id'] not in pid and v.get('init') is not None and strip(v['init']).get('k') == 'DeclRefExpr' and strip(v['init']).get('id') in pid and (v.get('t') or {}).get('p'):
                            pid.add(v['id'])
                            grew = True
        def adv(t):
            if t is None:
                return 0, None
            if isinstance(t, list):
                tot = 0
                for y in t:
                    a, why = adv(y)
                    if a is None:
                        return None, why
                    tot += a
                return tot, None
            k = t.get('k')
            if k == 'CompoundStmt':
                return adv(t.get('body'))
            if k == 'IfStmt':
                c, _ = ptr_steps(t.get('cond'), pid)
                a, w1 = adv(t.get('then'))
                b, w2 = adv(t.get('else'))
                if a is None or b is None:
                    return None, w1 or w2
                return c + max(a, b), None
            if k in ('WhileStmt', 'ForStmt', 'DoStmt'):
                inner, why = adv(t.get('body'))
                ci, _ = ptr_steps([t.get('cond'), t.get('inc')], pid)
                if inner is None:
                    return None, why
                if inner + ci == 0:
                    return 0, None
                trips, why = shift_loop_trips(cf, t)
                if trips is None:
                    return None, why or 'a loop of %s advances the pointer and has no recognised bound on its trip count' % cf.name
                return trips * (inner + ci), None
            st_, cl = ptr_steps(t, pid)
            if cl:
                return None, '%s hands the pointer on' % cf.name
            return st_, None
        return adv(cf.tree)
    for fn in facts.all_fns():
        if fn.relfile() not in FILES or fn.tree is None:
            continue
        arrays = {}
        ptrs = {}
        for b, j, st in fn.cfg.stmts():
            if st['s'].get('k') == 'DeclStmt':
                for v in st['s']['decls']:
                    t = v.get('t') or {}
                    if t.get('arr') and (t.get('el') or {}).get('sz') == 1:
                        arrays[v['id']] = (t['arr'], v['n'])
                    if t.get('p') and v.get('init') is not None and strip(v['init']).get('k') == 'DeclRefExpr' and strip(v['init']).get('id') in arrays:
                        ptrs[v['id']] = (strip(v['init'])['id'], v['n'], st['loc'])
        for pid, (aid, pname, loc) in ptrs.items():
            # the scope: the compound statement that declares the pointer
            scope = None
            def find(t):
                nonlocal scope
                if isinstance(t, dict):
                    if t.get('k') == 'CompoundStmt':
                        for y in t.get('body') or []:
                            if isinstance(y, dict) and y.get('k') == 'DeclStmt' and any(v['id'] == pid for v in y.get('decls', [])):
                                scope = t
                    for k2 in ('body', 'then', 'else', 'sub', 'init'):
                        v = t.get(k2)
                        if isinstance(v, (dict, list)):
                            find(v)
                elif isinstance(t, list):
                    for y in t:
                        find(y)
            find(fn.tree)
            if scope is None:
                continue
            n += 1
            why_bad = None
            def adv(t):
                nonlocal why_bad
                if t is None:
                    return 0
                if isinstance(t, list):
                    tot = 0
                    for y in t:
                        a = adv(y)
                        if a is None:
                            return None
                        tot += a
                    return tot
                k = t.get('k')
                if k == 'CompoundStmt':
                    return adv(t.get('body'))
                if k == 'IfStmt':
                    a, b2 = adv(t.get('then')), adv(t.get('else'))
                    c = adv_expr(t.get('cond'))
                    if a is None or b2 is None or c is None:
                        return None
                    return c + max(a, b2)
                if k == 'SwitchStmt':
                    best = 0
                    for node, arms, default in dispatch_arms_of(t):
                        for stmts in list(arms.values()) + [default]:
                            a = adv(stmts)
                            if a is None:
                                return None
                            best = max(best, a)
                    return best
                if k in ('WhileStmt', 'ForStmt', 'DoStmt'):
                    a = adv(t.get('body'))
                    c = adv_expr([t.get('cond'), t.get('inc')])
                    if a is None or c is None:
                        return None
                    if a + c == 0:
                        return 0
                    why_bad = 'a loop advances `%s` without a recognised bound' % pname
                    return None
                return adv_expr(t)
            def adv_expr(e):
                nonlocal why_bad
                st_, cl = ptr_steps(e, pid)
                for c in cl:
                    if c is None:
                        why_bad = '`%s` is advanced by a value that is not a constant' % pname
                        return None
                    cfl = facts.fns.get(callee_name(c))
                    pi = [i for i, a in enumerate(c.get('a', [])) if strip(a).get('id') == pid]
                    if not cfl or cfl[0].tree is None or len(pi) != 1:
                        why_bad = '`%s` is advanced by the result of %s, which cannot be summarised' % (pname, short(callee_name(c)))
                        return None
                    w, why = writer_summary(cfl[0], pi[0])
                    if w is None:
                        why_bad = '%s writes through `%s` without a bound: %s' % (short(callee_name(c)), pname, why)
                        return None
                    st_ += w
                # the pointer handed to a callee without using its result as the advance: the callee writes, the pointer stays
                for y in walk(e):
                    if isinstance(y, dict) and 'callee' in y and not any(y is c for c in cl) and any(strip(a).get('id') == pid for a in y.get('a', [])) \
                            and short(callee_name(y)) not in ('memcpy',):
                        cfl = facts.fns.get(callee_name(y))
                        pi = [i for i, a in enumerate(y.get('a', [])) if strip(a).get('id') == pid]
                        if cfl and cfl[0].tree is not None and len(pi) == 1:
                            w, why = writer_summary(cfl[0], pi[0])
                            if w is None:
                                why_bad = '%s writes through `%s` without a bound: %s' % (short(callee_name(y)), pname, why)
                                return None
                return st_
            def dispatch_arms_of(sw):
                return [d for d in dispatch_arms(fn, lambda e: True) if d[0] is sw]
            total = adv(scope.get('body'))
            ext = arrays[aid][0]
            ok = total is not None and total <= ext
            out.append(Obl('C01.R12', fn.name, '%s walks %s[%d]' % (pname, arrays[aid][1], ext), loc, 'discharged' if ok else 'finding',
                           why='at most %d byte(s) are written per pass of the scope' % total if ok else
                           ('the pointer can advance by %d, the array holds %d' % (total, ext) if total is not None else
                            'the advance of the pointer is not bounded (stack buffer overrun): %s' % why_bad)))
    if n < 1 and facts.fns.get('Convert_mus2midi'):      # (the only instance lives in the MUS converter: absent from the view without it)
        raise build.AnalysisBroken('C01.R12: no pointer walking a local byte array found in the converter files')
    return out


# ------------------------------------------------------------------------------------------------ R11 %s arguments
def r11_percent_s(facts):
    """payload bytes of meta events are not NUL-terminated: an argument printed with %s must be a string literal, the c_str() of a
    std::string, or a local defined as one of those (not the data() of a byte vector / a raw payload pointer)"""
    out = []
    def terminated(fn, e, depth=0):
        e = strip(e)
        if e is None:
            return False
        k = e.get('k')
        if k == 'StringLiteral' or (isinstance(e.get('c'), str)):
            return True
        if short(callee_name(e)) == 'c_str':
            return True
        if k == 'ConditionalOperator':
            return terminated(fn, e.get('l'), depth) and terminated(fn, e.get('r'), depth)
        if k == 'DeclRefExpr' and not e.get('parm') and depth < 3:
            defs = []
            for b, j, st in fn.cfg.stmts():
                if st['s'].get('k') == 'DeclStmt':
                    for v in st['s']['decls']:
                        if v['id'] == e.get('id') and v.get('init') is not None:
                            defs.append(v['init'])
                for x in walk(st['s']):
                    ap = assign_parts(x)
                    if ap and strip(ap[0]).get('id') == e.get('id'):
                        defs.append(ap[1])
            return bool(defs) and all(terminated(fn, d, depth + 1) for d in defs)
        if k == 'DeclRefExpr' and e.get('parm') and (e.get('t') or {}).get('pt', '').startswith('const char'):
            return True         # a C string handed in by the caller
        if k == 'MemberExpr' and (e.get('t') or {}).get('arr'):
            return False
        return False
    n = 0
    for fn in facts.all_fns():
        if fn.relfile() not in FILES or fn.tree is None:
            continue
        for b, j, st in fn.cfg.stmts(conds=True):
            for x in walk(st['s']):
                if not ('callee' in x or 'callee_e' in x):
                    continue
                args = x.get('a', [])
                fi = None
                for i, a in enumerate(args):
                    sa = strip(a)
                    txt = sa.get('c') if isinstance(sa.get('c'), str) else (show(sa) if sa.get('k') == 'StringLiteral' else None)
                    if txt is not None and '%' in txt:
                        fi, fmt = i, txt
                        break
                if fi is None:
                    continue
                specs = re.findall(r'%[-+ #0]*\d*(\.\d+)?(?:hh|h|ll|l|z|j|t|L)?([a-zA-Z%])', fmt)
                specs = [(pr, c) for pr, c in specs if c != '%']
                for si, (pr, c) in enumerate(specs):
                    if c != 's' or fi + 1 + si >= len(args):
                        continue
                    n += 1
                    a = args[fi + 1 + si]
                    # %.Ns reads at most N bytes and needs no terminator (the XMI branch marker is an 8-byte buffer printed with %.8s)
                    ok = bool(pr) or terminated(fn, a)
                    out.append(Obl('C01.R11', fn.name, '%%s <- %s' % show(a)[:40], st['loc'], 'discharged' if ok else 'finding',
                                   why='terminated string' if ok else
                                   '%s is printed with %%s but is not known to be NUL-terminated (payload bytes of an event): the formatter reads past the end of the buffer' % show(a)[:40]))
    if n < 8:
        raise build.AnalysisBroken('C01.R11: only %d %%s arguments found' % n)
    return out
