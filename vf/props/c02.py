"""C02 — untrusted bank data is rejected or loaded safely; loaded banks are playable.

R1  every read through the cursor in WOPN_LoadBankFromMem / WOPN_LoadInstFromMem / WOPN_parseInstrument stays inside the block.
R2  every failing return of the bank loader frees the partially built file and stores a non-zero error code; the instrument
    loader returns only defined error codes.
R3  instrument-derived indices used at note-on are masked into range.
R5  every table read of the chip layer (opnmidi_opn2.cpp) is in range for all instrument / controller values (interval engine E2).
R4  the frequency (octave) search of OPN2::noteOn terminates: a loop whose only progress is halving a floating value is
    entered only with a finite upper bound on that value or carries an integer counter bound in its condition.
"""
import collections
from ..core import *
from ..e1 import *
from ..logic import *
from ..report import Obl, Rule
from .. import build
from .wopn_common import run_e1

PROP = 'C02'
RULES = [
    Rule('C02.R1', 'every read of the WOPN/OPNI loaders stays inside [mem, mem+length)', 14),
    Rule('C02.R2', 'failing returns free the partial file and report a defined, non-zero error code', 8),
    Rule('C02.R3', 'instrument-derived table indices in the synth are masked into range', 3),
    Rule('C02.R4', 'halving loops of the frequency search have a bounded trip count', 2),
    Rule('C02.R5', 'table reads of the chip layer at note-on / note-update are in range for every instrument and controller value', 10),
    Rule('C02.R7', 'WOPN_Init: every bank array is allocated with the element count stored beside it, that count is at least 1, and constant subscripts stay below it', 4),
    Rule('C02.R8', 'the instrument pointer of a note (NULL for the place-holder of a blank instrument) is dereferenced only behind an isBlank / NULL test', 2),
    Rule('C02.R9', 'the bank arrays are allocated only after both announced counts were compared with the bytes left, and WOPN_Init tests its allocations', 3),
    Rule('C02.R6', 'table reads inside the MAME, Nuked and GENS emulator cores are in range for every register value', 60),
]
EXPLANATION = ('Byte-budget abstract interpretation (E1) of the structured bodies of the two loaders in the (cursor, length) dialect with the '
               'file-derived `version` case-split; CFG dominance for the error-return discipline; a forward must-dataflow ("value has a finite upper '
               'bound") for the floating-point halving loops of OPN2::noteOn; mask/modulo shape rule for instrument-derived indices. '
               'Decides memory safety of the loaders for every byte string and termination of the octave search for every instrument value; '
               'does not decide the sound.')
ASSUMPTIONS = ['`length` readable bytes at `mem` (API contract)', 'calloc failure inside WOPN_Init is not modelled (needs fault injection)',
               'floating-point: only finiteness/boundedness is tracked']


def views(tier):
    return ['V0'] if tier == 'quick' else ['V0', 'V1', 'noVGM']


def analyse(facts, tier):
    obls = []
    for name in ('WOPN_LoadBankFromMem', 'WOPN_LoadInstFromMem'):
        o, eng = run_e1(facts, name, 'C02.R1', forks_assign={'@version': [0, 1, 2, 3]})
        obls += o
    obls += r2(facts)
    obls += r3(facts)
    obls += r4(facts)
    obls += r7_init(facts)
    obls += r8_note_instrument(facts)
    obls += r9_alloc_after_counts(facts)
    # R5: the interval engine's index obligations inside the chip layer (instrument fields range over their whole type there:
    # structs of the public WOPN header are never narrowed), so a clamp that an instrument byte can defeat shows up here
    from .. import e2prog
    from . import c03
    res = e2prog.analyse_program(facts)
    o5 = c03.index_obligations(facts, res, 'C02.R5', 'C02.R5', lambda f: f == 'src/opnmidi_opn2.cpp')
    # ... and of the instrument API ("every instrument written through the instrument API"): the slot index of get / setInstrument
    o5 += [o for o in c03.index_obligations(facts, res, 'C02.R5', 'C02.R5', lambda f: f == 'src/opnmidi.cpp') if 'Instrument' in (o.fn or '')]
    if len(o5) < 10:
        raise build.AnalysisBroken('C02.R5: only %d index obligations in the chip layer' % len(o5))
    obls += o5
    if facts.view == 'V0':
        obls += r6_cores()
    return obls


def r2(facts):
    out = []
    fn = facts.fn('WOPN_LoadBankFromMem')
    cfg = fn.cfg
    free_blocks = {}
    err_param = [p for p in fn.params if p['t'].get('p') and p['t'].get('pt') == 'int']
    if not err_param:
        raise build.AnalysisBroken('C02.R2: error out-parameter of WOPN_LoadBankFromMem not found')
    eid = err_param[0]['id']
    err_stores = []
    for b, j, st in cfg.stmts():
        for x in walk(st['s']):
            if short(x.get('callee', '')) == 'WOPN_Free':
                free_blocks.setdefault(b, j)
            ap = assign_parts(x)
            if ap:
                t = strip(ap[0])
                if t.get('k') == 'UnaryOperator' and t['op'] == '*' and strip(t['e']).get('id') == eid:
                    err_stores.append((b, j, const_of(ap[1])))
    n_fail = 0
    for b, j, st in cfg.returns():
        e = st['s'].get('e')
        c = const_of(e) if e is not None else None
        if c != 0:
            continue     # success return (returns the file)
        n_fail += 1
        freed = [fb for fb in free_blocks if fb == b or cfg.block_dominates(fb, b)]
        # the closest Free: no other return between it and this return is implied by dominance + single exit per SET_ERROR
        coded = []
        for sb, sj, val in err_stores:
            if val in (None, 0):
                continue
            if not (sb == b or cfg.reaches(sb, b)):
                continue
            if not any(fb == sb or cfg.block_dominates(fb, sb) for fb in freed):
                continue
            # the store may only be conditional on the out-parameter being non-NULL
            extra = [e2 for e2 in cfg.dominating_edges(sb) if not any((e2['block'], e2['target']) == (e3['block'], e3['target']) for fb in freed for e3 in cfg.dominating_edges(fb))]
            if all(e2['kind'] == 'branch' and strip(e2['cond']).get('id') == eid and e2['pol'] for e2 in extra):
                coded.append(val)
        ok = bool(freed) and bool(coded)
        why = []
        if not freed:
            why.append('partially built file is not freed')
        if not coded:
            why.append('no non-zero error code is stored')
        out.append(Obl('C02.R2', fn.name, 'return NULL', st['loc'], 'discharged' if ok else 'finding',
                       why='; '.join(why) if why else 'WOPN_Free and *error = %s dominate the return' % sorted(set(coded))))
    if n_fail < 5:
        raise build.AnalysisBroken('C02.R2: only %d failing returns found in WOPN_LoadBankFromMem' % n_fail)
    # success return must not be preceded by a Free
    for b, j, st in cfg.returns():
        e = st['s'].get('e')
        if e is not None and const_of(e) is None:
            bad = [fb for fb in free_blocks if cfg.reaches(fb, b) or fb == b]
            # Free blocks reach only their own return NULL; any that reaches the success return frees the result
            out.append(Obl('C02.R2', fn.name, 'return file', st['loc'], 'finding' if bad else 'discharged',
                           why='a WOPN_Free call can precede the successful return' if bad else 'no path frees the returned file'))
    fi = facts.fn('WOPN_LoadInstFromMem')
    enum_vals = set()
    for g in facts.records.values():
        pass
    for b, j, st in fi.cfg.returns():
        e = st['s'].get('e')
        c = const_of(e) if e is not None else None
        ok = c is not None and strip(e).get('enumc')
        out.append(Obl('C02.R2', fi.name, show(st['s']), st['loc'], 'discharged' if ok else 'finding',
                       why='returns the enumerator %s = %s' % (show(e), c) if ok else 'return value is not a WOPN error enumerator', nontrivial=False))
    return out


def r3(facts):
    """indices derived from instrument bytes / the channel number must be reduced (& mask or % extent) below the table extent"""
    out = []
    for fname in ('OPN2::touchNote', 'OPN2::noteOn', 'OPN2::setPatch', 'OPN2::setPan', 'OPN2::noteOff'):
        fn = facts.fn(fname, required=False)
        if fn is None:
            continue
        sd = single_defs(fn.d)
        for b, ex, loc in fn.cfg.exprs():
            for x in walk(ex):
                if x.get('k') != 'ArraySubscriptExpr' or 'ext' not in x:
                    continue
                ext = x['ext']
                idx = subst(x['i'], sd)
                i = strip(idx)
                c = const_of(idx)
                if c is not None:
                    ok = 0 <= c < ext
                    out.append(Obl('C02.R3', fname, show(x), loc, 'discharged' if ok else 'finding', why='constant index %d, extent %d' % (c, ext), nontrivial=False))
                    continue
                ok = False
                why = 'index %s is not reduced below the extent %d' % (show(i), ext)
                if i.get('k') == 'BinaryOperator' and i['op'] == '&' and const_of(i['r']) is not None and 0 <= const_of(i['r']) < ext:
                    ok, why = True, 'masked with %d < extent %d' % (const_of(i['r']), ext)
                elif i.get('k') == 'BinaryOperator' and i['op'] == '%' and const_of(i['r']) is not None and 0 < const_of(i['r']) <= ext and i.get('t', {}).get('u'):
                    ok, why = True, 'unsigned modulo %d <= extent %d' % (const_of(i['r']), ext)
                else:
                    # loop counter below a constant bound
                    if i.get('k') == 'DeclRefExpr':
                        for e in fn.cfg.dominating_edges(b):
                            if e['kind'] == 'branch' and e['pol']:
                                for f in literals(e['cond'], True):
                                    n = cmp_norm(f) if f[0] == 'cmp' else None
                                    if n and n[0] == '<' and strip(n[1]).get('id') == i.get('id') and n[2] <= ext and i.get('t', {}).get('u'):
                                        ok, why = True, 'unsigned loop counter < %d <= extent %d' % (n[2], ext)
                if not ok:
                    continue        # other variable indices are C03.R3/C11.R1 obligations (interval engine)
                out.append(Obl('C02.R3', fname, show(x), loc, 'discharged', why=why))
    return out


def r4(facts):
    out = []
    top = facts.fn('OPN2::noteOn')
    out += _r4_in(facts, top, top, {})
    # the frequency search may live in a local helper that receives the scaled frequency: its parameter is bounded at the entry
    # when the argument is bounded at every call site
    for b, j, st in top.cfg.stmts():
        for x in calls_in(st['s']):
            for cf in facts.fns.get(callee_name(x), [])[:1]:
                if not is_local_helper(top, cf):
                    continue
                entry = {}
                for i_, p_ in enumerate(cf.params):
                    a = strip((x.get('a') or [None] * (i_ + 1))[i_]) if i_ < len(x.get('a') or []) else None
                    if (p_.get('t') or {}).get('f') and a is not None and a.get('k') == 'DeclRefExpr':
                        entry[p_['id']] = bounded_at(top, b, a['id'], at_stmt=j)
                out += _r4_in(facts, cf, top, entry)
    return out


def _r4_in(facts, fn, top, entry_bounded):
    out = []
    cfg = fn.cfg
    # loops of the structured body whose condition has a conjunct `v >= C` / `v > C` on a floating variable
    loops_t = []
    def find(t):
        if isinstance(t, dict):
            if t.get('k') in ('WhileStmt', 'ForStmt', 'DoStmt') and t.get('cond') is not None:
                loops_t.append(t)
            for k2 in ('body', 'then', 'else', 'sub', 'init'):
                x = t.get(k2)
                if isinstance(x, list):
                    for y in x:
                        find(y)
                elif isinstance(x, dict):
                    find(x)
    find(fn.tree)
    for whole in loops_t:
        v = None
        for f in literals(whole['cond'], True):
            if f[0] == 'cmp' and f[1] in ('>=', '>'):
                c = strip(f[2])
                if c.get('k') == 'DeclRefExpr' and c.get('t', {}).get('f'):
                    v = c
        if v is None:
            continue
        # entry block of the loop condition: the condition block on the loop's line that dominates the others
        cands = [bid for bid, blk in cfg.blocks.items() if 'cond' in blk and blk['cond'].get('ln') == whole['cond'].get('ln')
                 and mentions(whole['cond'], lambda y, blk=blk: show(y) == show(blk['cond']))]
        if not cands:
            raise build.AnalysisBroken('C02.R4: loop condition block not found for line %s' % whole.get('ln'))
        bid = [c for c in cands if all(cfg.block_dominates(c, o) for o in cands)][0]
        halves = False
        step_part = [whole.get('body'), whole.get('inc')]
        for x in walk(step_part):
            ap = assign_parts(x)
            if ap and strip(ap[0]).get('id') == v['id'] and ap[2] == '/=':
                halves = True
            if ap and strip(ap[0]).get('id') == v['id'] and ap[2] == '=' and strip(ap[1]).get('k') == 'BinaryOperator' and strip(ap[1]).get('op') in ('/', '*') \
                    and strip(strip(ap[1])['l']).get('id') == v['id']:
                halves = True       # v = v / 2.0, v = v * 0.5
        if not halves:
            continue
        # (a) integer counter bound in the condition: conjunct `n < C` with n incremented by a positive constant in the body
        counter = False
        for g in literals(whole['cond'], True):
            n = cmp_norm(g) if g[0] == 'cmp' else None
            if n and n[0] in ('<', '<=') and strip(n[1]).get('t', {}).get('w') and not strip(n[1]).get('t', {}).get('f'):
                nid = strip(n[1]).get('id')
                for x in walk(step_part):
                    ap = assign_parts(x)
                    if ap and strip(ap[0]).get('id') == nid and ap[2] == '+=' and (const_of(ap[1]) or 0) > 0:
                        counter = True
                    if ap and strip(ap[0]).get('id') == nid and ap[2] == '=' and strip(ap[1]).get('k') == 'BinaryOperator' and strip(ap[1]).get('op') == '+' \
                            and strip(strip(ap[1])['l']).get('id') == nid and (const_of(strip(ap[1])['r']) or 0) > 0:
                        counter = True
                    if is_incdec(x) and x['op'] == '++' and strip(x['e']).get('id') == nid:
                        counter = True
        # (b) finite upper bound on v at the loop entry (forward must-analysis)
        bounded = bounded_at(fn, bid, v['id'], entry_fact=bool(entry_bounded.get(v['id'])))
        ok = counter or bounded
        out.append(Obl('C02.R4', fn.name, 'while(%s)' % show(whole['cond']), cfg.blocks[bid].get('cloc', fn.loc), 'discharged' if ok else 'finding',
                       why=('trip count bounded by an integer counter in the loop condition' if counter else 'value has a finite upper bound on every path into the loop') if ok else
                       'the only progress is halving %s, which has no finite upper bound here: +inf never falls below the threshold (endless loop)' % short(v['n'])))
    return out


def bounded_at(fn, header, vid, entry_fact=False, at_stmt=None):
    """must-analysis: on every path from the entry to `header` the floating variable has a finite upper bound"""
    cfg = fn.cfg
    IN = {}
    OUT = {}
    order = sorted(cfg.blocks, reverse=True)
    def transfer(bid, fact, upto=None):
        for st in cfg.blocks[bid]['stmts'][:upto]:
            s = st['s']
            if s.get('k') == 'DeclStmt':
                for d in s['decls']:
                    if d['id'] == vid:
                        fact = 'init' in d and 'fc' in d['init'] and not d['init'].get('finf')
            for x in walk(s):
                ap = assign_parts(x)
                if ap and strip(ap[0]).get('id') == vid:
                    tgt, rhs, op = ap
                    r = strip(rhs)
                    if op == '=':
                        def finite(e, cur):
                            e = strip(e)
                            if 'fc' in e or 'c' in e:
                                return not e.get('finf')
                            if e.get('k') == 'DeclRefExpr':
                                return cur if e.get('id') == vid else _const_local(fn, e)
                            if e.get('k') == 'BinaryOperator' and e.get('op') in ('*', '/', '+', '-'):
                                return finite(e['l'], cur) and finite(e['r'], cur)      # same precision as the compound forms below
                            return False
                        fact = finite(rhs, fact)
                    elif op in ('*=', '/=', '+=', '-='):
                        fact = fact and (('fc' in rhs or 'c' in rhs) and not rhs.get('finf') or (r.get('k') == 'DeclRefExpr' and _const_local(fn, r)))
                    else:
                        fact = False
        return fact
    changed = True
    for b in cfg.blocks:
        IN[b] = True
        OUT[b] = True
    IN[cfg.entry] = entry_fact
    it = 0
    while changed and it < 50:
        changed = False
        it += 1
        for b in order:
            if b != cfg.entry:
                vals = []
                for p in cfg.pred[b]:
                    if p == header and b != header:
                        pass
                    o = OUT[p]
                    # edge refinement
                    for k, s in enumerate(cfg.blocks[p]['succ']):
                        if s == b:
                            e = cfg.edge_info(p, k)
                            if e and e['kind'] == 'branch':
                                for f in literals(e['cond'], e['pol']):
                                    if f[0] == 'cmp' and _float_var(f[2]) == vid and f[1] in ('<', '<=') and ('fc' in f[3] or 'c' in f[3]):
                                        o = True
                                    if f[0] == 'cmp' and _float_var(f[3]) == vid and f[1] in ('>', '>=') and ('fc' in f[2] or 'c' in f[2]):
                                        o = True
                    # back edges into the header do not count for the entry fact
                    if b == header and cfg.reaches(b, p) and p != cfg.entry and cfg.block_dominates(b, p):
                        continue
                    vals.append(o)
                new_in = all(vals) if vals else True
                if new_in != IN[b]:
                    IN[b] = new_in
                    changed = True
            o = transfer(b, IN[b])
            if o != OUT[b]:
                OUT[b] = o
                changed = True
    if at_stmt is not None:
        return bool(transfer(header, IN.get(header), upto=at_stmt))      # the fact in front of statement at_stmt of the block
    return bool(IN.get(header))


def _float_var(e):
    """id of the floating variable compared, looking through casts that keep it floating only: `(uint32_t)hertz > C` says nothing about
    hertz when it is +inf or out of the integer's range (the conversion is undefined; x86-64 yields 0)"""
    while isinstance(e, dict) and e.get('k', '').endswith('CastExpr') and 'e' in e:
        if not (e.get('t') or {}).get('f'):
            return None
        e = e['e']
    return e.get('id') if isinstance(e, dict) and e.get('k') == 'DeclRefExpr' else None


def _const_local(fn, ref):
    """a local that is only ever assigned finite constants (e.g. `coef` chosen by a switch)"""
    vid = ref.get('id')
    ok = False
    for b, j, st in fn.cfg.stmts():
        s = st['s']
        if s.get('k') == 'DeclStmt':
            for d in s['decls']:
                if d['id'] == vid and 'init' in d:
                    if not (('fc' in d['init'] or 'c' in d['init']) and not d['init'].get('finf')):
                        return False
                    ok = True
        for x in walk(s):
            ap = assign_parts(x)
            if ap and strip(ap[0]).get('id') == vid:
                if not (('fc' in ap[1] or 'c' in ap[1]) and not ap[1].get('finf')) or ap[2] != '=':
                    return False
                ok = True
    return ok



def r7_init(facts):
    """WOPN_Init allocates `banks_<kind> = calloc(N, sizeof(WOPNBank))` and stores the element count in `banks_count_<kind>`; the loader,
    the writer and OPNMIDIplay::LoadBank walk the arrays up to the stored count, and WOPN_Init itself writes bank [0].  So N must be the
    stored count field (of the same kind), every definition of that field must be >= 1, and constant subscripts must be 0."""
    out = []
    fn = facts.fn('WOPN_Init')
    kind = lambda name: 'perc' if 'perc' in name else ('melo' if 'melo' in name else name)
    count_defs = collections.defaultdict(list)
    allocs = []
    subs = []
    for b, j, st in fn.cfg.stmts():
        for x in walk(st['s']):
            ap = assign_parts(x)
            if ap:
                t = strip(ap[0])
                if t.get('k') == 'MemberExpr' and short(t['n']).startswith('banks_'):
                    fld = short(t['n'])
                    cal = [y for y in walk(ap[1]) if 'callee' in y and short(callee_name(y)) in ('calloc', 'malloc', 'realloc')]
                    if cal:
                        allocs.append((st['loc'], fld, cal[0]))
                    else:
                        count_defs[fld].append((st['loc'], ap[1]))
            if x.get('k') == 'ArraySubscriptExpr':
                base = strip(x.get('b'))
                if base is not None and base.get('k') == 'MemberExpr' and short(base['n']).startswith('banks_'):
                    subs.append((st['loc'], short(base['n']), x.get('i')))
    if len(allocs) < 2 or len(subs) < 2:
        raise build.AnalysisBroken('C02.R7: bank array allocations / placeholder writes of WOPN_Init not found (%d, %d)' % (len(allocs), len(subs)))
    def at_least_one(e):
        e = strip(e)
        c = const_of(e)
        if c is not None:
            return c >= 1
        if e.get('k') == 'ConditionalOperator':
            n_ = None
            for f in literals(e['cnd'], True):
                if f[0] == 'cmp':
                    n_ = cmp_norm(f)
            l, r = strip(e['l']), strip(e['r'])
            if n_ and n_[0] == '!=' and n_[2] == 0 and show(strip(n_[1])) == show(l):
                return at_least_one(r) if const_of(r) is not None else False
            if n_ and n_[0] == '==' and n_[2] == 0 and show(strip(n_[1])) == show(r):
                return at_least_one(l) if const_of(l) is not None else False
        return False
    for loc, fld, cal in allocs:
        n = strip(cal['a'][0]) if cal.get('a') else None
        cf = short(n['n']) if n is not None and n.get('k') == 'MemberExpr' else None
        ok = cf is not None and cf.startswith('banks_count_') and kind(cf) == kind(fld)
        out.append(Obl('C02.R7', fn.name, '%s = calloc(%s)' % (fld, show(n)[:40] if n else '?'), loc, 'discharged' if ok else 'finding',
                       why='allocated with the stored count %s' % cf if ok else
                       '%s is allocated with %s elements, not with the stored count banks_count_%s: whenever the two differ (a count of 0 is stored as 1) every user of the stored count writes and reads past the array' % (fld, show(n)[:40] if n else '?', 'percussion' if kind(fld) == 'perc' else 'melodic')))
        if ok:
            for dloc, d in count_defs.get(cf, []) or [(loc, None)]:
                ok2 = d is not None and at_least_one(d)
                out.append(Obl('C02.R7', fn.name, '%s >= 1' % cf, dloc, 'discharged' if ok2 else 'finding',
                               why='every arm of the definition is non-zero' if ok2 else
                               '%s can be stored as 0 while bank [0] of %s is written as the placeholder' % (cf, fld)))
    for loc, fld, idx in subs:
        c = const_of(idx)
        ok = c == 0
        out.append(Obl('C02.R7', fn.name, '%s[%s]' % (fld, show(idx)[:20]), loc, 'discharged' if ok else 'finding',
                       why='subscript 0 < stored count (>= 1)' if ok else 'subscript %s of %s is not below the minimum element count 1' % (show(idx)[:20], fld)))
    return out


def r8_note_instrument(facts):
    """a note on a blank / missing instrument is kept as a place-holder with isBlank = true and ains = NULL (realTime_NoteOn).
    Every `*note.ains` / `note.ains->field` must therefore be dominated by `!isBlank` (early return included) or by a test of the
    pointer itself: binding a reference to *NULL is undefined behaviour even when the reference is not used on that path."""
    out = []
    n = 0
    for fn in facts.all_fns():
        if not fn.name.startswith('OPNMIDIplay::') or fn.tree is None:
            continue
        for b, j, st in fn.cfg.stmts(conds=True):
            for x in walk(st['s']):
                tgt = None
                if x.get('k') == 'UnaryOperator' and x.get('op') == '*':
                    tgt = strip(x.get('e'))
                elif x.get('k') == 'MemberExpr' and x.get('arrow'):
                    tgt = strip(x.get('b'))
                if not (isinstance(tgt, dict) and tgt.get('k') == 'MemberExpr' and short(tgt.get('n', '')) == 'ains' and 'NoteInfo' in tgt.get('n', '')):
                    continue
                n += 1
                gf = guard_facts(fn, b, st)
                ok = False
                for f in gf:
                    if f[0] == 'truth':
                        e = strip(f[1])
                        if e.get('k') == 'MemberExpr' and short(e.get('n', '')) == 'isBlank' and not f[2]:
                            ok = True
                        if e.get('k') == 'MemberExpr' and short(e.get('n', '')) == 'ains' and f[2]:
                            ok = True
                # `p ? p->f : d` tests the pointer in the same expression
                for y in walk(st['s']):
                    if y.get('k') == 'ConditionalOperator' and short(strip(y.get('cnd')).get('n', '')) == 'ains' and any(z is x for z in walk(y.get('l'))):
                        ok = True
                out.append(Obl('C02.R8', fn.name, show(x)[:50], st['loc'], 'discharged' if ok else 'finding',
                               why='behind !isBlank / a test of the pointer' if ok else
                               'NoteInfo::ains is dereferenced before the note is known not to be the blank place-holder (ains == NULL): every note-off / panic / reset of a note on a blank instrument binds a reference to a null pointer'))
    if n < 2:
        raise build.AnalysisBroken('C02.R8: dereferences of NoteInfo::ains not found (%d)' % n)
    return out


def r9_alloc_after_counts(facts):
    """(a) WOPN_LoadBankFromMem: the call of WOPN_Init(count_melodic, count_percussive) is dominated by a comparison that involves the
    remaining length and both counts (a file of a few bytes must not make the loader allocate 2 x 65535 banks);
    (b) WOPN_Init: every calloc() result stored in a field is tested (NULL -> free and return NULL) before the field is subscripted."""
    out = []
    ld = facts.fn('WOPN_LoadBankFromMem')
    n = 0
    for b, j, st in ld.cfg.stmts():
        for x in calls_in(st['s']):
            if short(callee_name(x)) != 'WOPN_Init':
                continue
            n += 1
            args = [strip(a) for a in x.get('a', [])]
            ids = {a.get('id') for a in args if a.get('k') == 'DeclRefExpr'}
            seen = set()
            length_seen = False
            sd = single_defs(ld.d)
            for f in guard_facts(ld, b, st):
                if f[0] != 'cmp':
                    continue
                both = [subst(f[2], sd), subst(f[3], sd)]
                txt_ids = {y.get('id') for e in both for y in walk(e) if isinstance(y, dict) and y.get('k') == 'DeclRefExpr'}
                if any(short(y.get('n', '')) == 'length' for e in both for y in walk(e) if isinstance(y, dict) and y.get('k') == 'DeclRefExpr'):
                    if ids & txt_ids:
                        length_seen = True
                        seen |= (ids & txt_ids)
            ok = length_seen and seen == ids and len(ids) == 2
            out.append(Obl('C02.R9', ld.name, 'WOPN_Init(%s)' % ', '.join(show(a) for a in args), st['loc'], 'discharged' if ok else 'finding',
                           why='both counts are compared with the remaining length first' if ok else
                           'the bank arrays are allocated from the two 16-bit counts of the header before any comparison with the file length: a file of a few bytes requests up to 2 x 65535 banks (1.2 GB)'))
    if n < 1:
        raise build.AnalysisBroken('C02.R9: call of WOPN_Init in the bank loader not found')
    wi = facts.fn('WOPN_Init')
    for b, j, st in wi.cfg.stmts():
        ap = assign_parts(st['s'])
        if not ap or not any('callee' in y and short(callee_name(y)) == 'calloc' for y in walk(ap[1])):
            continue
        tgt = strip(ap[0])
        if tgt.get('k') != 'MemberExpr':
            continue
        # a test of the field follows before any other use: the next block condition mentions it
        tested = False
        for b2, blk in wi.cfg.blocks.items():
            if 'cond' in blk and mentions(blk['cond'], member_named(short(tgt['n']))) and (b2 == b or wi.cfg.block_dominates(b, b2)):
                uses_before = False
                for b3, j3, st3 in wi.cfg.stmts():
                    if (b3 == b and j3 > j) and any(y.get('k') == 'ArraySubscriptExpr' and mentions(y.get('b'), member_named(short(tgt['n']))) for y in walk(st3['s'])):
                        uses_before = True
                if not uses_before:
                    tested = True
        out.append(Obl('C02.R9', wi.name, '%s = calloc(..) tested' % short(tgt['n']), st['loc'], 'discharged' if tested else 'finding',
                       why='NULL test before the array is used' if tested else
                       'the result of calloc() for %s is not tested: when the allocation fails the loader writes bank names and instruments through a NULL array' % short(tgt['n'])))
    return out


def r6_cores():
    """Interval abstract interpretation of three vendored emulator cores as self-contained programs (field ranges from the stores of the
    core, parameter ranges of static functions from their call sites, exported functions with full type ranges): every subscript of a
    fixed-extent table is an obligation.  Register bytes reach the tables through masks and shifts, so a mask that is one bit too wide
    shows up as an index range that leaves the table.  Subscripts that depend on relational state invariants of the chip model are kept
    in a reviewed table (cores_assumed.json, one reason per entry, keyed by function and expression); anything else that cannot be
    proven is a finding."""
    import json, os
    from ..core import Facts
    from .. import e2prog
    table = json.load(open(os.path.join(os.path.dirname(os.path.abspath(__file__)), 'cores_assumed.json')))
    cf = Facts('CORES')
    out = []
    for core, ent in sorted(table.items()):
        res = e2prog.analyse_program(cf, files=tuple(ent['files']))
        per_fn = collections.OrderedDict()
        seen = set()
        for o in res['obl']:
            if o.kind != 'index':
                continue
            key = '%s|%s' % (o.fn, o.construct)
            fl = cf.fns.get(o.fn)
            ffile = fl[0].file if fl else ent['files'][0]
            if o.ok:
                per_fn.setdefault(o.fn, [0, ffile, o.ln])[0] += 1
                continue
            if key in seen:
                continue
            seen.add(key)
            why = ent['assumed'].get(key)
            if why:
                out.append(Obl('C02.R6', o.fn, o.construct[:70], '%s:%s' % (ffile, o.ln), 'assumed', why=why, nontrivial=False))
            else:
                out.append(Obl('C02.R6', o.fn, o.construct[:70], '%s:%s' % (ffile, o.ln), 'finding',
                               why='index %s can leave the %s-entry table: a register / instrument byte reaches this table through a mask or shift that no longer keeps it in range (%s core)' % (o.idx, o.ext, core)))
        for fn_, (cnt, ffile, ln) in per_fn.items():
            out.append(Obl('C02.R6', fn_, '%d table read(s) in range' % cnt, '%s:%s' % (ffile, ln), 'discharged', why='interval engine: every index within its table for all register values (%s core)' % core))
        if res['leaf_seen'] < 0.6 * res['leaf_total']:
            raise build.AnalysisBroken('C02.R6: the interval engine reached only %d of %d statements of the %s core' % (res['leaf_seen'], res['leaf_total'], core))
    return out
